"""C15 — mesh sessions mirrored on both ends; handler data merges without loss (DESIGN §3.C15)."""
from __future__ import annotations

import copy
import itertools
import json

from .. import core
from ..core import cstr, clist, cpair, cZ, cbool

ID = "C15"
THEOREM_FILE = "Properties/C15.v"
IMPORTS = "From Annet Require Import Model.Merge Spec.P_C15."
TY_MERGE = "merge_input * merge_output"
IMPORTS_SEQ = ("From Annet Require Import Model.Merge Model.Mesh Model.MeshExec Spec.P_C15 Spec.P_C15_iface "
               "Spec.P_C15_seq.")
TY_MERGE_FRAME = "(merge_input * merge_output) * (entries * entries * entries)"
META = {
    "text": "Proof (merge algebra, unbounded): unset objects are neutral, merge is associative, commutative "
            "modulo the element order of Concat fields (UseFirst/UseLast classes excluded and reported), hence a "
            "fold of merge over handler outputs does not depend on their order (equal modulo Concat order, or an "
            "error in every order); lifted to the executor model: the keyed rule loops return the same sessions for "
            "every permutation of rule registration (C15_handler_order_indirect/_direct/_virtual), and execute_for as a "
            "whole returns the same peers and address records or raises in every order (C15_handler_order_exec) for "
            "flat DTO classes when no indirect session names a plain ifname the device lacks before the run -- without "
            "that guard it is refuted (C15_exec_order_refuted; reproduced on the real executor by the order probe, "
            "known/C15.json). Proof (executor model Model/MeshExec.v = execute_for with its three rule loops, "
            "the three interface decision tables, InterfaceChanges and to_bgp_peer; all inputs): the interface of a "
            "direct / indirect session is decided by a declarative table for every DTO, port list, device state and "
            "adapter naming (port, LAG, sub-interface n for every integer n incl. 0, SVI; ValueError exactly on the "
            "refused combinations), the local address is assigned on exactly that interface, and for a whole "
            "execute_for run the peers' interfaces and the assigned addresses are those the merged DTOs select "
            "(C15_interface, C15_interface_indirect, C15_subif_unit, C15_interface_run); an attribute present in the "
            "session with a device C was set by a handler call for the pair (device, C), through any number of keyed "
            "merges (C15_no_leak, C15_no_leak_direct); a rule match is mirrored on the other end for direct and "
            "indirect rules (C15_mirror, C15_mirror_indirect), a virtual session is exactly what its one handler call "
            "wrote (C15_virtual_session). Correspondence: Coq evaluates model==implementation and the law predicate on "
            "the outputs of the real annet.mesh.basemodel.merge over random and exhaustive small instances of the "
            "real DTO classes (mergers read from the classes); on real MeshExecutor.execute_for results over stub "
            "storages it evaluates (a) the declarative interface predicate on exhaustive decision tables (lag/svi in "
            "{unset, None, 0, 1} x subif in {unset, 0, 1, 7} on either end, 1-2 links, united/separate ports; "
            "indirect ifname x svi x subif; virtual svi), (b) equality of the whole-executor model with the "
            "implementation (every Peer field, PeerOptions, interface, and the (interface, address, vrf) log) on "
            "generated registries with direct, indirect and virtual rules, (c) permutation invariance of handler "
            "registration, mirror of both ends, and a no-leak predicate (every option of a peer was set by a call "
            "for its pair), (d) NO LOSS: every handler call of a matching rule shows on both ends -- a peer towards the "
            "other end at the address the call gave, carrying every option / policy / family / AS number / vrf the "
            "call wrote (Spec.P_C15_seq.P_C15_no_loss; proved for the model per merge, per n-ary merge and per handler "
            "call: C15_merge_no_loss, C15_merge_all_no_loss, C15_call_no_loss; through the keyed merge, conv_* and "
            "mk_peer for execute_for as a whole: C15_no_loss, for all registries and handler tables whose rows are "
            "answers of calls the run makes, under schema premises the check evaluates on the real classes; the "
            "unguarded C15_no_loss_statement is refuted by a never-called table row) -- with rules whose name template is a literal host name (no "
            "placeholder) on the left, the right or both sides, direct and indirect, alone (decision tables) and next "
            "to pattern rules, (e) every address family of a peer was assigned by a call for its pair (value level), "
            "(f) HISTORY: one registry whose handlers assign shared constant objects (equal values are one object), a "
            "first executor computing every device in turn and a second executor computing them in reverse order; "
            "Coq compares every run of the sequence with the fresh run of that device (P_C15_history; the model is a "
            "pure function, C15_sequence_is_pointwise, so this is model = implementation for sequences) and "
            "evaluates no-leak / families-assigned on the later runs, (g) FRAME of merge: the operands of every "
            "merge() call are compared, in Coq, with what they were before the call (P_C15_frame), (h) REGISTRY "
            "LAYOUTS: half of the executor cases run over a tree of registries joined with include() (one level, two "
            "levels, two siblings), match_short_name drawn per registry, device names with a domain part or bare; the "
            "rule masks keep their meaning (a registry matching full names gets mask + escaped domain), so the "
            "flat executor model with the same match table must agree and every clause above is evaluated on these "
            "runs too. Proved for the registry model Model/MeshNested.v (all trees, all matchers): inclusion is "
            "flattening -- the pairs found through the tree are those of the flat pre-order rule list with each rule's "
            "own normalisation, as a multiset and, per neighbour, as a list (C15_include_is_flattening, _pair); that "
            "flat lookup is Mesh.lookup_direct for the per-registry-normalised match relation "
            "(C15_flat_lookup_is_mesh_lookup); matched pairs always carry the caller's original names "
            "(C15_include_keeps_names).",
    "technique": "Coq induction over rule-match lists, keyed accumulators and nested model values; vm_compute "
                 "differential check of the Gallina model against the real code",
    "note": "partial: the mirror theorems are per rule match (after the keyed merge of several handlers the two ends "
            "group by different keys: statement kept in Proofs/MeshProofs.v, checked by the correspondence only); "
            "handler and matcher are abstract pure functions in the theorems -- name-template regexes, Left/Right "
            "filters, adaptix type coercion of PeerOptions and the storage adapter (stubbed per the "
            "annet.storage.Device contract 'add or return existing') are exercised by the correspondence only; "
            "lookup_global (registry.device rules) is not generated; the link between the nested-registry theorems and "
            "the executor theorems is the match table (the executor model takes the flat rule list)",
}

# ---------------------------------------------------------------------------------------------
# Coq printers


def catom(e: dict) -> str:
    k = e["k"]
    if k == "int":
        return f"(AInt {cZ(e['v'])})"
    if k == "bool":
        return f"(ABool {cbool(e['v'])})"
    if k == "str":
        return f"(AStr {cstr(e['v'])})"
    if k == "none":
        return "ANone"
    if k == "rec":
        return "(ARec " + cstr(e["cls"] + "(" + ", ".join(repr(x) for x in e["v"]) + ")") + ")"
    raise core.CheckFailure(f"value outside the modelled domain (not an atom): {e}")


def cval(e: dict) -> str:
    k = e["k"]
    if k in ("list", "tuple"):
        return "(VList " + clist(catom(x) for x in e["v"]) + ")"
    if k == "set":
        return "(VSet " + clist(catom(x) for x in e["v"]) + ")"
    if k == "dict":
        return "(VDict " + centries(e["v"]) + ")"
    if k == "obj":
        return "(VObj " + centries(e["v"]) + ")"
    return "(VAtom " + catom(e) + ")"


def centries(d: dict) -> str:
    return clist(cpair(cstr(f), cval(v)) for f, v in d.items())


def cres(o: dict) -> str:
    if "ok" in o:
        if o["ok"]["k"] != "obj":
            raise core.CheckFailure(f"merge returned a non-model: {o}")
        return "(Ok " + centries(o["ok"]["v"]) + ")"
    return "(Err EForbidden)" if o["err"] == "forbidden" else "(Err EType)"


def cmerger(m) -> str:
    if isinstance(m, str):
        return {"FC": "MForbidChange", "F": "MForbid", "UF": "MUseFirst", "UL": "MUseLast",
                "CC": "MConcat", "UN": "MUnite"}[m]
    if "M" in m:
        return f"(MMerge sch_{m['M']})"
    return f"(MDictMerge {cmerger(m['D'])})"


def schema_defs(tbl: dict) -> str:
    """Definition sch_<Class> : schema, nested classes first."""
    done, out = set(), []

    def deps(m):
        if isinstance(m, str):
            return []
        if "M" in m:
            return [m["M"]]
        return deps(m["D"])

    def emit(name):
        if name in done:
            return
        done.add(name)
        for f in tbl[name]:
            for d in deps(f["merger"]):
                emit(d)
        body = clist(cpair(cstr(f["name"]), cmerger(f["merger"])) for f in tbl[name])
        out.append(f"Definition sch_{name} : schema := {body}.")

    for n in tbl:
        emit(n)
    return "\n".join(out)


def order_free(tbl: dict, name: str) -> bool:
    def mf(m):
        if isinstance(m, str):
            return m not in ("UF", "UL")
        if "M" in m:
            return order_free(tbl, m["M"])
        return mf(m["D"])
    return all(mf(f["merger"]) for f in tbl[name])


# ---------------------------------------------------------------------------------------------
# instance generator (instructions for the runner; the realised instances come back from it)

FAMILIES = ["ipv4_unicast", "ipv6_unicast", "l2vpn_evpn"]
POOL = {
    "int": [0, 1, 2, 65001],
    "str": ["a", "b", "POL"],
    "int|str": [65001, 65002, "65001", "1.10"],
    "bool": [True, False],
}
KEYS = ["k1", "k2", "k3"]


def scalar(v) -> dict:
    if isinstance(v, bool):
        return {"k": "bool", "v": v}
    if isinstance(v, int):
        return {"k": "int", "v": v}
    return {"k": "str", "v": v}


def gen_val(rng, kind, tbl, dens, depth):
    if isinstance(kind, str):
        if kind in POOL:
            return scalar(rng.choice(POOL[kind]))
        if kind == "BFDTimers":
            return {"k": "rec", "cls": "BFDTimers", "v": [rng.choice([500, 300]), rng.choice([4, 3])]}
        if kind == "Redistribute":
            return {"k": "rec", "cls": "Redistribute", "v": [rng.choice(["static", "connected"]), rng.choice(["", "P1"])]}
        if kind == "opaque":
            return {"k": "str", "v": "devA"}
        raise core.CheckFailure(f"unknown kind {kind}")
    if "opt" in kind:
        return {"k": "none"} if rng.random() < 0.3 else gen_val(rng, kind["opt"], tbl, dens, depth)
    if "lit" in kind:
        return {"k": "str", "v": rng.choice(kind["lit"])}
    if "list" in kind or "tuple" in kind:
        t = "list" if "list" in kind else "tuple"
        return {"k": t, "v": [gen_val(rng, kind[t], tbl, dens, depth) for _ in range(rng.choice([0, 1, 1, 2, 3]))]}
    if "set" in kind:
        e = kind["set"]
        pool = e["lit"][:4] if isinstance(e, dict) and "lit" in e else POOL[e]
        pick = [x for x in pool if rng.random() < 0.4]
        return {"k": "set", "v": [scalar(x) for x in pick]}
    if "dict" in kind:
        ks = [k for k in KEYS if rng.random() < 0.4]
        return {"k": "dict", "v": {k: gen_val(rng, kind["dict"], tbl, dens, depth + 1) for k in ks}}
    if "obj" in kind:
        return gen_obj(rng, kind["obj"], tbl, dens * 0.8, depth + 1)
    raise core.CheckFailure(f"unknown kind {kind}")


def gen_obj(rng, cls, tbl, dens, depth):
    d = dens if depth < 3 else min(dens, 0.15)
    return {"k": "obj", "cls": cls,
            "v": {f["name"]: gen_val(rng, f["kind"], tbl, dens, depth) for f in tbl[cls] if rng.random() < d}}


def derive_val(rng, kind, va, tbl, dens, depth, p_same):
    """a value for the same field of a second object, related to va"""
    r = rng.random()
    if isinstance(kind, dict) and "obj" in kind and va["k"] == "obj" and r < 0.8:
        return derive_obj(rng, kind["obj"], va, tbl, dens * 0.8, depth + 1, p_same)
    if isinstance(kind, dict) and "dict" in kind and va["k"] == "dict" and r < 0.8:
        out = {}
        for k in KEYS:
            if k in va["v"] and rng.random() < 0.5:
                out[k] = derive_val(rng, kind["dict"], va["v"][k], tbl, dens, depth + 1, p_same)
            elif k not in va["v"] and rng.random() < 0.3:
                out[k] = gen_val(rng, kind["dict"], tbl, dens, depth + 1)
        return {"k": "dict", "v": out}
    if r < p_same:
        return copy.deepcopy(va)
    return gen_val(rng, kind, tbl, dens, depth)


def derive_obj(rng, cls, oa, tbl, dens, depth, p_same):
    d = dens if depth < 3 else min(dens, 0.15)
    out = {}
    for f in tbl[cls]:
        n = f["name"]
        if n in oa["v"]:
            if rng.random() < 0.6:
                out[n] = derive_val(rng, f["kind"], oa["v"][n], tbl, dens, depth, p_same)
        elif rng.random() < d:
            out[n] = gen_val(rng, f["kind"], tbl, dens, depth)
    return {"k": "obj", "cls": cls, "v": out}


def small_values(kind):
    """two or three distinct small values of a kind, for the exhaustive per-field scope"""
    if isinstance(kind, str):
        if kind in POOL:
            return [scalar(x) for x in POOL[kind][:2]]
        return None
    if "opt" in kind:
        s = small_values(kind["opt"])
        return None if s is None else [{"k": "none"}, s[0]]
    if "list" in kind or "tuple" in kind:
        t = "list" if "list" in kind else "tuple"
        s = small_values(kind[t])
        return None if s is None else [{"k": t, "v": [s[0]]}, {"k": t, "v": [s[1], s[0]]}, {"k": t, "v": []}]
    if "set" in kind:
        e = kind["set"]
        pool = e["lit"][:2] if isinstance(e, dict) and "lit" in e else POOL[e][:2]
        return [{"k": "set", "v": [scalar(pool[0])]}, {"k": "set", "v": [scalar(pool[1]), scalar(pool[0])]},
                {"k": "set", "v": []}]
    if "dict" in kind:
        s = small_values(kind["dict"])
        if s is None:
            return None
        return [{"k": "dict", "v": {"k1": s[0]}}, {"k": "dict", "v": {"k1": s[1]}}, {"k": "dict", "v": {"k2": s[0]}}]
    return None


def gen_merge_cases(ctx, tbl) -> list[dict]:
    rng = ctx.rng("merge")
    cases = []
    # exhaustive small scope: every field of the synthetic classes, a/b/c in {unset, v1, v2(, v3)}
    for cls in ("SynFree", "SynLeaf", "SynNodeFree", "SynNode"):
        for f in tbl[cls]:
            vals = small_values(f["kind"])
            if vals is None:
                continue
            opts = [None] + vals
            for combo in itertools.product(opts, repeat=3):
                objs = [{"k": "obj", "cls": cls, "raw": True, "v": ({} if v is None else {f["name"]: v})} for v in combo]
                cases.append({"cls": cls, "a": objs[0], "b": objs[1], "c": objs[2], "src": "exhaustive-field"})
    n_exh = len(cases)
    classes = list(tbl)
    n_rand = 12000 if ctx.thorough else 1100
    hist = {}
    for i in range(n_rand):
        cls = classes[i % len(classes)]
        mode = rng.choice(["compat", "compat", "nearmiss", "random"])
        dens = rng.choice([0.1, 0.25, 0.5])
        if cls in ("GlobalOptionsDTO", "VrfOptions"):
            dens = min(dens, 0.25)
        p_same = {"compat": 1.0, "nearmiss": 0.93, "random": 0.4}[mode]
        a = gen_obj(rng, cls, tbl, dens, 0)
        b = derive_obj(rng, cls, a, tbl, dens, 0, p_same)
        c = derive_obj(rng, cls, rng.choice([a, b]), tbl, dens, 0, p_same)
        raw = rng.random() < 0.5
        for o in (a, b, c):
            o["raw"] = raw
        cases.append({"cls": cls, "a": a, "b": b, "c": c, "src": mode})
        hist[mode] = hist.get(mode, 0) + 1
    # ill-typed near misses: containers of the wrong sort under Concat/Unite/Merge
    bad = [
        ("SynFree", "cc", {"k": "set", "v": [scalar("a")]}),
        ("SynFree", "un", {"k": "list", "v": [scalar("a")]}),
        ("SynNodeFree", "leaf", {"k": "tuple", "v": [scalar("a")]}),
        ("SynNodeFree", "d_m", {"k": "list", "v": [scalar("a")]}),
    ]
    for cls, f, v in bad:
        o = {"k": "obj", "cls": cls, "raw": True, "v": {f: v}}
        e = {"k": "obj", "cls": cls, "raw": True, "v": {}}
        cases.append({"cls": cls, "a": o, "b": copy.deepcopy(o), "c": e, "src": "ill-typed"})
    ctx.coverage["merge_input_distribution"] = {
        "exhaustive_per_field": n_exh, "random": hist, "ill_typed": len(bad),
        "classes": classes,
        "exhaustive_scope": "every field of SynFree/SynLeaf/SynNodeFree/SynNode, (a,b,c) over {unset, 2-3 small values}^3",
    }
    return cases


def merge_term(tbl, case, out) -> str:
    a, b, c = out["inputs"]
    x = cpair(f"sch_{case['cls']}", cpair(centries(a["v"]), centries(b["v"]), centries(c["v"])))
    y = cpair(clist(cres(o) for o in out["outs"]), clist(cres(o) for o in out["perms"]))
    return cpair(x, y)


def top_overlap(out) -> int:
    a, b, _ = out["inputs"]
    return len(set(a["v"]) & set(b["v"]))


def run_merge_part(ctx, tbl):
    cases = gen_merge_cases(ctx, tbl)
    outs = core.run_impl_sharded("c15_runner.py", cases, wrap=lambda c: {"op": "merge", "cases": c})
    # the operands as they are after the calls ride along: Coq decides whether merge left them alone
    terms = [cpair(merge_term(tbl, c, o), cpair(*(centries(x["v"]) for x in o["after"]))) for c, o in zip(cases, outs)]
    preds = {"agree": "fun c => agree_merge (fst (fst c)) (snd (fst c))",
             "holds": "fun c => P_C15_merge (fst (fst c)) (snd (fst c))",
             "wf": "fun c => wf_C15_merge (fst (fst c))",
             "frame": "fun c => P_C15_frame (fst (fst c)) (snd c)"}
    res = core.run_case_files(ID, TY_MERGE_FRAME, IMPORTS_SEQ, preds, terms, per_file=120, tag="merge",
                              extra_defs=schema_defs(tbl))
    for i in res["frame"][:2]:
        ctx.add_violation(core.Violation(
            signature=f"C15/merge-mutates-operand/{cases[i]['cls']}",
            what="annet.mesh.basemodel.merge changed one of its operands (an object a handler or an earlier "
                 "session still refers to): merged data leaks into whatever shares that object",
            replay={"kind": "merge", "case": cases[i],
                    "impl": {"inputs": outs[i]["inputs"], "after": outs[i]["after"]}}))
    illtyped = {i for i, c in enumerate(cases) if c["src"] == "ill-typed"}
    unexpected_wf = [i for i in res["wf"] if i not in illtyped]
    if unexpected_wf:
        i = unexpected_wf[0]
        raise core.CheckFailure(f"generator produced an instance outside the model's domain: {json.dumps(cases[i])[:800]}")
    seen, nontrivial = set(), 0
    hist = {"ok": 0, "forbidden": 0, "other": 0}
    for c, o in zip(cases, outs):
        r = o["outs"][0]
        hist["ok" if "ok" in r else r["err"]] += 1
        h = core.canon_hash(o["inputs"])
        if h in seen:
            continue
        seen.add(h)
        if top_overlap(o) >= 1:
            nontrivial += 1
    excluded = sorted(n for n in tbl if not order_free(tbl, n))
    for i in res["holds"]:
        o = outs[i]
        ctx.add_violation(core.Violation(
            signature=f"C15/merge-law-violated/{cases[i]['cls']}",
            what="annet.mesh.basemodel.merge output violates the merge laws (field laws, unset neutrality, "
                 "associativity, commutativity / order independence modulo Concat order)",
            replay={"kind": "merge", "case": cases[i], "impl": o}))
    if not res["holds"]:
        for i in res["agree"][:1]:
            ctx.add_violation(core.Violation(
                signature="C15/merge-model-impl-disagree",
                what="Coq model Merge.merge and annet.mesh.basemodel.merge differ (correspondence broken); "
                     "the law predicate holds on all implementation outputs explored",
                replay={"correspondence": "Model.Merge.merge vs annet.mesh.basemodel.merge", "kind": "merge",
                        "case": cases[i], "impl": outs[i]}, no_input=True))
    return {
        "evaluations": len(cases), "distinct_nontrivial": nontrivial, "outcome_histogram(a+b)": hist,
        "disagreements": len(res["agree"]), "order_dependent_classes_excluded_from_commutativity": excluded,
        "operands_changed_by_merge": len(res["frame"]),
        "samples": [{"input": c, "impl": {"outs": o["outs"][:2]}} for c, o in list(zip(cases, outs))[n_sample_at(cases):][:2]],
    }


def n_sample_at(cases):
    return max(0, len(cases) - 40)



# ---------------------------------------------------------------------------------------------
# executor cases

import re as _re

MASKS = {  # template -> (regex the generator uses to know what it matches, has {n})
    "a{n}": (r"a(\d+)", True), "b{n}": (r"b(\d+)", True), "c{n}": (r"c(\d+)", True),
    "{r:[ab]}{n}": (r"[ab](\d+)", True), "{r:[bc]}{n}": (r"[bc](\d+)", True),
    "{x:.*}": (r".*", False), "{r:\\w}{n}": (r"\w(\d+)", True),
    # literal host names: PeerNameTemplate.match gives an empty (falsy) dict of groups
    "a1": (r"a1", False), "a2": (r"a2", False), "b1": (r"b1", False), "b2": (r"b2", False),
    "b3": (r"b3", False), "c1": (r"c1", False),
}
LITERALS = ["a1", "a2", "b1", "b2", "b3", "c1"]
PATTERNS = [m for m in MASKS if m not in LITERALS]
CONDS = {"none": lambda l, r: True, "eq": lambda l, r: l == r, "lt": lambda l, r: l < r, "ne": lambda l, r: l != r}
FAMS = ["ipv4_unicast", "ipv6_unicast", "l2vpn_evpn"]
SESSION_OPTS = ["add_path", "multipath", "send_labeled"]           # _SharedOptionsDTO: may be set on the session
OPTION_POOL = SESSION_OPTS + ["rr_client", "next_hop_self", "passive", "as_override"]


def mask_n(mask, name):
    name = name.split(".", 1)[0]          # masks are written for the host name without its domain part (see add_layout)
    rx, has_n = MASKS[mask]
    m = _re.fullmatch(rx, name)
    if not m:
        return None
    return (int(m.group(1)),) if has_n else ()


def rule_matches(rule, left, right) -> bool:
    l, r = mask_n(rule["left"], left), mask_n(rule["right"], right)
    if l is None or r is None:
        return False
    if rule["cond"] == "none":
        return True
    if not l or not r:
        return False          # Left.n raises AttributeError -> match_safe is False
    return CONDS[rule["cond"]](l[0], r[0])


def sv(v):
    if isinstance(v, (set, frozenset, list)):
        return {"k": "set", "v": [scalar(x) for x in sorted(v)]}
    return scalar(v)


def gen_exec_case(rng, big: bool) -> dict:
    pool = ["a1", "a2", "b1", "b2", "c1", "b3"]
    devs = rng.sample(pool, rng.randint(2, 5))
    idx = {d: i + 1 for i, d in enumerate(pool)}
    ports = {d: [] for d in devs}
    links = {}
    for i, x in enumerate(devs):
        for y in devs[i + 1:]:
            k = rng.choice([0, 0, 1, 1, 2, 3])
            for _ in range(k):
                px, py = f"e{len(ports[x]) + 1}", f"e{len(ports[y]) + 1}"
                ports[x].append([px, y, py])
                ports[y].append([py, x, px])
                links.setdefault((x, y), []).append((px, py))
                links.setdefault((y, x), []).append((py, px))
    for d in devs:
        if rng.random() < 0.5:
            rng.shuffle(ports[d])
    # local port order of `x` towards `y` as the stub storage reports it
    def conn(x, y):
        return [(p, nbp) for p, nb, nbp in ports[x] if nb == y]
    n_rules = rng.choice([1, 2, 2, 3, 3, 4] if big else [1, 2, 2, 3, 3, 3])
    # "constants" flavour: the handlers draw the families from a few recurring sets (as handlers that assign module
    # level constants do) and several rules describe the same session, so that the sets of one rule meet the sets of
    # another in a keyed merge while the same sets are in use for other pairs and in later runs
    consts_flavour = rng.random() < 0.35
    fam_pool = [{"ipv4_unicast"}, {"ipv4_unicast", "ipv6_unicast"}, {"l2vpn_evpn"}, {"ipv6_unicast"}]
    if consts_flavour:
        n_rules = max(n_rules, 2)
    case_kind, case_extra = ("direct" if rng.random() < 0.6 else "indirect"), rng.random()
    shared_mask = rng.choice(PATTERNS), rng.choice(PATTERNS)
    rules = []
    for ri in range(n_rules):
        kind = "direct" if rng.random() < 0.65 else "indirect"
        if consts_flavour and rng.random() < 0.8:
            kind = case_kind
        if rng.random() < 0.6:
            lm, rm = shared_mask
        else:
            lm, rm = rng.choice(PATTERNS), rng.choice(PATTERNS)
        if kind == "indirect" and rng.random() < 0.5:
            lm, rm = "{r:\\w}{n}", rng.choice(["{r:\\w}{n}", "{x:.*}"])   # several indirect sessions per device
        cond = rng.choice(["none", "none", "eq", "lt", "ne"])
        lit = rng.random()
        if lit < 0.3:
            # a literal host name (a template without placeholder) on the left, the right or both sides, alone or
            # next to pattern rules for the same pair
            side = rng.choice(["l", "r", "lr"])
            if "l" in side:
                lm = rng.choice(devs)
            if "r" in side:
                rm = rng.choice([d for d in devs if d != lm] or devs)
            if rng.random() < 0.85:
                cond = "none"                     # Left.n / Right.n do not exist for a literal name
        rule = {"kind": kind, "left": lm, "right": rm, "cond": cond,
                "pp": rng.choice(["united", "united", "separate"]), "table": {}}
        variant = 0 if rng.random() < 0.7 else ri + 1      # variant 0: same session as other handlers
        if consts_flavour:
            variant = 0
            rule_fams = rng.choice(fam_pool)
        extra = rng.random()
        if consts_flavour:
            extra = case_extra                         # the rules agree on where the AS number is written
        for L in devs:
            for R in devs:
                if not rule_matches(rule, L, R):
                    continue
                if kind == "direct":
                    c = conn(L, R)
                    if not c:
                        continue
                    groups = [c] if rule["pp"] == "united" else [[x] for x in c]
                else:
                    groups = [None]
                for g in groups:
                    if rng.random() < 0.08:
                        continue                        # handler sets nothing for this call
                    if g is None:
                        key, gi = f"{L}|{R}|", 0
                    else:
                        key = f"{L}|{R}|" + ",".join(sorted(p for p, _ in g))
                        gi = min(int(p[1:]) for p, _ in g)
                    base = f"10.{idx[L] * 8 + idx[R]}.{variant * 16 + gi}" if kind == "direct" \
                        else f"172.{idx[L] * 8 + idx[R]}.{variant}"
                    l = {"addr": base + ".1/30"}
                    r = {"addr": base + ".2/30"}
                    s = {}
                    if extra < 0.4:
                        s["asnum"] = 65000
                    else:
                        l["asnum"], r["asnum"] = 65000 + idx[L], 65000 + idx[R]
                    if rng.random() < 0.05:
                        l["asnum"] = 64999 - ri                     # conflicting AS numbers
                        s.pop("asnum", None)
                        r.setdefault("asnum", 65000 + idx[R])
                    if consts_flavour:
                        if rng.random() < 0.85:
                            s["families"] = set(rule_fams if rng.random() < 0.5 else rng.choice(fam_pool))
                    elif rng.random() < 0.7:
                        s["families"] = set(f for f in FAMS if rng.random() < 0.5)
                    if rng.random() < 0.3:
                        s["vrf"] = rng.choice(["V1", "V1", "V2"]) if variant else "V1"
                    if rng.random() < 0.3:
                        s["group_name"] = "G1" if rng.random() < 0.9 else f"G{ri}"
                    if rng.random() < 0.3:
                        s["bfd"] = True
                    if rng.random() < 0.3:
                        s["import_policy"] = "IMP" if rng.random() < 0.9 else f"IMP{ri}"
                    if "import_policy" not in s and rng.random() < 0.15:
                        l["import_policy"] = f"IMP_{L}"                # per side: read from the device's own DTO
                    if rng.random() < 0.15:
                        r["export_policy"] = f"EXP_{R}"
                    if rng.random() < 0.4:
                        l["mtu"], r["mtu"] = 9000, 9000 + (ri if rng.random() < 0.1 else 0)
                    if rng.random() < 0.3:
                        l["description"] = f"to {R}"
                        r["description"] = f"to {L}"
                    if rng.random() < 0.2:
                        l["send_community"] = True
                    for f in OPTION_POOL:
                        if rng.random() < 0.12:
                            rng.choice([l, r, s] if f in SESSION_OPTS else [l, r])[f] = True
                    if kind == "direct":
                        many = len(g) > 1
                        mode = rng.random()
                        if many and mode < 0.75:
                            l["lag"] = r["lag"] = rng.choice([1 + gi, gi - 1, 0])
                            if rng.random() < 0.3:
                                l["lag_links_min"] = r["lag_links_min"] = 1
                            if rng.random() < 0.35:
                                l["subif"] = rng.choice([0, 0, 100])
                                r["subif"] = rng.choice([0, l["subif"], l["subif"]])
                        elif many and mode < 0.85:
                            l["svi"] = r["svi"] = rng.choice([10 + gi, 0, 1])
                        elif many and mode < 0.93:
                            l["lag"] = 1 + gi                    # one side only: the other end must raise
                        elif not many and mode < 0.25:
                            l["subif"] = rng.choice([0, 0, 1, 200 + ri])
                            r["subif"] = rng.choice([0, l["subif"], l["subif"]])
                        elif not many and mode < 0.35:
                            l["svi"] = r["svi"] = rng.choice([20 + gi, 0, 1])
                        elif not many and mode < 0.39:
                            l["svi"], l["lag"] = 5, 6             # InterfaceChanges refuses the pair
                        elif not many and mode < 0.45:
                            l["lag"] = r["lag"] = rng.choice([0, 3])   # a LAG of one link
                            if rng.random() < 0.5:
                                l["subif"] = r["subif"] = rng.choice([0, 5])
                    else:
                        m = rng.random()
                        if m < 0.4:
                            l["ifname"] = r["ifname"] = "lo0"
                        elif m < 0.65:
                            l["svi"] = r["svi"] = rng.choice([30 + idx[L] + idx[R], 0, 1])
                        elif m < 0.9:
                            l["ifname"] = r["ifname"] = "lo0"
                            l["subif"] = r["subif"] = rng.choice([7, 0, 0])
                        else:
                            l["ifname"], r["svi"] = "lo0", 2
                    rule["table"][key] = {"l": {f: sv(v) for f, v in l.items()},
                                          "r": {f: sv(v) for f, v in r.items()},
                                          "s": {f: sv(v) for f, v in s.items()}}
        rules.append(rule)
    if rng.random() < 0.25:
        rules.append(gen_virtual_rule(rng, devs, idx, len(rules)))
    return {"devices": devs, "ports": ports, "rules": rules}


LAYOUT_SHAPES = {"flat": [-1], "include": [-1, 0], "include2": [-1, 0, 1], "fork": [-1, 0, 0]}
DOMAIN = ".dc1.example.net"


def add_layout(rng, case) -> dict:
    """The same case over a TREE of registries (MeshRulesRegistry.include, one and two levels, two siblings),
    match_short_name drawn per registry, device names with or without a domain part.  The rule masks stay written
    for the short host name; c15_exec.make_registry appends the domain for registries that match full names, so the
    rule -> device-pair relation (the match table handed to the Coq model) is the same as for the flat registry:
    inclusion is flattening, name normalisation is per registry and never changes the names a matched pair carries
    (Model/MeshNested.v, C15_include_*)."""
    shape = rng.choice(["flat", "include", "include", "include2", "fork"])
    parent = LAYOUT_SHAPES[shape]
    domain = DOMAIN if rng.random() < 0.7 else ""
    short = [rng.random() < 0.5 for _ in parent]
    if shape != "flat" and domain and rng.random() < 0.5:
        short[0] = True                   # the including registry normalises, the included ones as drawn
    n = len(case["rules"])
    of_rule = [rng.randrange(len(parent)) for _ in range(n)]
    if n and len(parent) > 1:
        of_rule[rng.randrange(n)] = len(parent) - 1          # the deepest registry is never empty
    q = lambda d: d + domain  # noqa: E731

    def qkey(rule, key):
        if rule["kind"] == "virtual":
            d, num = key.split("|")
            return f"{q(d)}|{num}"
        l, r, ports = key.split("|")
        return f"{q(l)}|{q(r)}|{ports}"
    out = dict(case)
    out["devices"] = [q(d) for d in case["devices"]]
    out["ports"] = {q(d): [[p, q(nb), nbp] for p, nb, nbp in pl] for d, pl in case["ports"].items()}
    out["rules"] = [dict(r, table={qkey(r, k): v for k, v in r["table"].items()}) for r in case["rules"]]
    out["layout"] = {"shape": shape, "parent": parent, "short": short, "of_rule": of_rule, "domain": domain}
    return out


def gen_virtual_rule(rng, devs, idx, ri) -> dict:
    rule = {"kind": "virtual", "left": rng.choice(["a{n}", "b{n}", "{r:[ab]}{n}", "{x:.*}"]),
            "num": rng.choice([[0], [1, 2], [0, 3]]), "table": {}}
    for d in devs:
        if mask_n(rule["left"], d) is None:
            continue
        for num in rule["num"]:
            if rng.random() < 0.1:
                continue
            l = {"asnum": 65000 + idx[d], "svi": rng.choice([0, 1, 40 + num])}
            v = {"addr": f"192.0.{idx[d]}.{10 + num}", "asnum": 64600 + num}
            s = {}
            if rng.random() < 0.05:
                del l["svi"]                                   # "did not provide `svi` number"
            if rng.random() < 0.5:
                s["families"] = {"ipv4_unicast"}
            if rng.random() < 0.3:
                s["bfd"] = True
            if rng.random() < 0.3:
                l["rr_client"] = True
            if rng.random() < 0.3:
                v["description"] = f"vm {num}"
            rule["table"][f"{d}|{num}"] = {"l": {f: sv(x) for f, x in l.items()}, "r": {f: sv(x) for f, x in v.items()},
                                           "s": {f: sv(x) for f, x in s.items()}}
    return rule


def iface_kind(i) -> str:
    if i is None:
        return "none"
    base = "lag" if i.startswith("Trunk") else "svi" if i.startswith("Vlan") else "loopback" if i.startswith("lo") else "port"
    if "." in i:
        return base + (".0" if i.endswith(".0") else ".n")
    return base + ("0" if base in ("lag", "svi") and i[-1] == "0" and not i[-2].isdigit() else "")


def cxres(o: dict) -> str:
    if "ok" in o:
        peers = clist(centries(p) for p in o["ok"]["peers"])
        addrs = clist(cpair(cstr(i), cstr(a)) for i, a, _ in o["ok"]["addrs"])
        return f"(XOk {peers} {addrs})"
    return "XValueError" if o["err"] == "ValueError" else "XOther"


def exec_term(case, out) -> str:
    per_dev = []
    for d in case["devices"]:
        seen, distinct = set(), []
        for o in out["out"][d]:
            key = json.dumps({k: v for k, v in o.items() if k not in ("msg",)}, sort_keys=True)
            if key not in seen:
                seen.add(key)
                distinct.append(o)
        per_dev.append(cpair(cstr(d), clist(cxres(o) for o in distinct)))
    return clist(per_dev)


def run_exec_part(ctx, tbl):
    rng = ctx.rng("exec")
    n = 2000 if ctx.thorough else 260
    cases = [dict(gen_exec_case(rng, ctx.thorough), seq=True) for _ in range(n)]
    # half of the cases run over included registries / short-name registries / names with a domain part (own random
    # stream: the base cases are the ones generated before this family existed)
    lrng = ctx.rng("exec_layout")
    cases = [add_layout(lrng, c) if lrng.random() < 0.5 else c for c in cases]
    outs = core.run_impl_sharded("c15_runner.py", cases, wrap=lambda c: {"op": "exec", "cases": c},
                                 shards=min(core.NPROC, max(1, len(cases) // 10)))
    terms = [exec_term(c, o) for c, o in zip(cases, outs)]
    res = core.run_case_files(ID, "exec_output", IMPORTS, {"holds": "fun c => P_C15_exec c"}, terms,
                              per_file=40, tag="exec")
    eterms = [cpair(ecase_term(c, o), seq_term(o)) for c, o in zip(cases, outs)]
    # noloss_domain is not a clause: it counts the generated registries inside the domain of the theorem C15_no_loss_b
    res2 = core.run_case_files(ID, TY_EXEC_SEQ, IMPORTS_SEQ + "\nFrom Annet Require Import Spec.P_C15_noloss_wf.",
                               dict(EXEC_SEQ_PREDS, noloss_domain=(
                                   "fun c => noloss_case_b sch_DirectPeerDTO sch_IndirectPeerDTO (fst (fst c))")),
                               eterms, per_file=20, tag="exec_model", extra_defs=schema_defs(tbl))
    ctx.coverage["noloss_domain"] = {
        "cases": len(cases), "inside_domain_of_C15_no_loss_b": len(cases) - len(res2["noloss_domain"]),
        "guard": "Spec.P_C15_noloss_wf.noloss_case_b sch_DirectPeerDTO sch_IndirectPeerDTO (every table row the "
                 "predicate speaks about is the first row a call of the run finds; handler outputs well-formed)"}
    stats = {"runs": 0, "ok": 0, "ValueError": 0, "other": 0, "peers": 0,
             "cases_with_peers_on_both_ends": 0, "permutations": 0,
             "devices_with_2plus_indirect_peers": 0, "virtual_peers": 0, "peers_without_interface": 0,
             "peer_interface_kinds": {}}
    seen, nontrivial = set(), 0
    for c, o in zip(cases, outs):
        both = 0
        for d in c["devices"]:
            for r in o["out"][d]:
                stats["runs"] += 1
                if "ok" in r:
                    stats["ok"] += 1
                    stats["peers"] += len(r["ok"]["peers"])
                else:
                    stats[r["err"]] += 1
            r0 = o["out"][d][0]
            if "ok" in r0 and r0["ok"]["peers"]:
                both += 1
            if "ok" in r0:
                ind = 0
                for p in r0["ok"]["peers"]:
                    a, i = p["addr"]["v"], p["interface"].get("v")
                    ind += a.startswith("172.")
                    stats["virtual_peers"] += a.startswith("192.0.")
                    stats["peers_without_interface"] += i is None
                    kind = iface_kind(i)
                    stats["peer_interface_kinds"][kind] = stats["peer_interface_kinds"].get(kind, 0) + 1
                stats["devices_with_2plus_indirect_peers"] += ind >= 2
        stats["permutations"] += len(o["orders"])
        h = core.canon_hash(c)
        if h in seen:
            continue
        seen.add(h)
        if both >= 2 and len(c["rules"]) >= 2:
            nontrivial += 1
            stats["cases_with_peers_on_both_ends"] += 1
    for i in res["holds"]:
        c, o = cases[i], outs[i]
        kinds = sorted({r.get("err", "ok") for d in c["devices"] for r in o["out"][d]})
        ctx.add_violation(core.Violation(
            signature="C15/executor-not-mirrored-or-order-dependent/" + "+".join(kinds),
            what="MeshExecutor.execute_for: results differ between permutations of rule registration, or the two "
                 "ends of a session do not mirror each other (addr / AS number / families / vrf / group)",
            replay={"kind": "exec", "case": c, "impl": {d: o["out"][d][:2] for d in c["devices"]}}))
    for i in res2["noleak"][:2]:
        c, o = cases[i], outs[i]
        ctx.add_violation(core.Violation(
            signature="C15/session-data-leaks-between-pairs",
            what="MeshExecutor.execute_for: a peer carries an option / policy / family no handler call for its "
                 "device pair has set (data of another pair's session leaked into it)",
            replay={"kind": "exec", "case": c, "impl": {d: o["out"][d][:1] for d in c["devices"]}}))
    lit_rule = lambda c: any(r.get("left") in LITERALS or r.get("right") in LITERALS for r in c["rules"])  # noqa: E731
    for i in res2["noloss"][:2]:
        c, o = cases[i], outs[i]
        ctx.add_violation(core.Violation(
            signature="C15/handler-data-lost/" + ("literal-name-rule" if lit_rule(c) else "pattern-rules"),
            what="MeshExecutor.execute_for: a handler call of a rule matching a device pair does not show in the "
                 "outcome of one of its ends (no peer towards the other end at the address the handler gave, or the "
                 "peer lacks an option / policy / family / AS number / vrf the call wrote)",
            replay={"kind": "exec", "case": c, "impl": {d: o["out"][d][:1] for d in c["devices"]}}))
    for key, where in (("families", "a fresh run"), ("families_seq", "a later run of a sequence in one process")):
        for i in res2[key][:1]:
            c, o = cases[i], outs[i]
            ctx.add_violation(core.Violation(
                signature="C15/family-nobody-assigned/" + ("fresh" if key == "families" else "sequence"),
                what=f"MeshExecutor.execute_for ({where}; handlers assign shared constant sets): a peer has an address "
                     "family no handler call for its device pair assigned",
                replay={"kind": "exec", "case": c, "impl": {"fresh": {d: o["out"][d][:1] for d in c["devices"]},
                                                            "sequence": o.get("seq")}}))
    for i in (res2["history"] + [j for j in res2["noleak_seq"] if j not in res2["history"]])[:2]:
        c, o = cases[i], outs[i]
        ctx.add_violation(core.Violation(
            signature="C15/result-depends-on-earlier-runs",
            what="MeshExecutor.execute_for: the outcome for a device as the k-th execute_for call of a process (one "
                 "registry whose handlers assign constant objects, two executors) differs from the outcome in a fresh "
                 "process: data of earlier sessions got into objects the handlers own",
            replay={"kind": "exec", "case": c, "impl": {"fresh": {d: o["out"][d][:1] for d in c["devices"]},
                                                        "sequence": o.get("seq")}}))
    stats["literal_name_rules"] = sum(1 for c in cases for r in c["rules"]
                                      if r.get("left") in LITERALS or r.get("right") in LITERALS)
    stats["cases_literal_rule_next_to_pattern_rule"] = sum(
        1 for c in cases if lit_rule(c) and any(r["kind"] != "virtual" and r["left"] not in LITERALS
                                                and r["right"] not in LITERALS for r in c["rules"]))
    stats["literal_rule_calls"] = sum(len(r["table"]) for c in cases for r in c["rules"]
                                      if r.get("left") in LITERALS or r.get("right") in LITERALS)
    lay_hist = {}
    for c in cases:
        lay = c.get("layout")
        k = "none" if not lay else (f"{lay['shape']}/short={''.join('1' if x else '0' for x in lay['short'])}/"
                                    f"{'fqdn' if lay['domain'] else 'bare'}")
        lay_hist[k] = lay_hist.get(k, 0) + 1
    stats["registry_layouts"] = dict(sorted(lay_hist.items()))
    stats["cases_short_parent_with_rules_in_included_registry_and_fqdns"] = sum(
        1 for c in cases if c.get("layout") and c["layout"]["domain"] and c["layout"]["short"][0]
        and any(n > 0 for n in c["layout"]["of_rule"]))
    stats["sequence_runs"] = sum(len(o.get("seq", [])) for o in outs)
    stats["sequence_runs_ok"] = sum(1 for o in outs for _, r in o.get("seq", []) if "ok" in r)
    new_bad = res2["noloss"] or res2["families"] or res2["families_seq"] or res2["history"] or res2["noleak_seq"]
    if not res["holds"] and not res2["noleak"] and not new_bad:
        for i in res2["agree"][:1]:
            c, o = cases[i], outs[i]
            ctx.add_violation(core.Violation(
                signature="C15/executor-model-impl-disagree",
                what="Coq model MeshExec.execute_for and MeshExecutor.execute_for differ (peers, interfaces or assigned "
                     "addresses; correspondence broken); mirror / order / no-leak predicates hold on all outputs explored",
                replay={"correspondence": "Model.MeshExec.execute_for vs annet.mesh.executor.MeshExecutor.execute_for",
                        "kind": "exec_model", "case": c, "impl": {d: o["out"][d][:1] for d in c["devices"]}},
                no_input=True))
    stats["model_disagreements"] = len(res2["agree"])
    return {"evaluations": len(cases), "distinct_nontrivial": nontrivial, "stats": stats,
            "samples": [{"input": cases[-1], "impl": {d: outs[-1]["out"][d][:1] for d in cases[-1]["devices"]}}]}



# ---------------------------------------------------------------------------------------------
# interface clause: decision tables through the public API, and the whole-executor model

IMPORTS_IFACE = "From Annet Require Import Model.Merge Model.Mesh Model.MeshExec Spec.P_C15 Spec.P_C15_iface."
UNSET = object()


def _put(d, f, v):
    if v is not UNSET:
        d[f] = v


def sv2(v):
    return {"k": "none"} if v is None else sv(v)


def _enc_tbl2(l, r, s):
    return {"l": {f: sv2(v) for f, v in l.items()}, "r": {f: sv2(v) for f, v in r.items()},
            "s": {f: sv2(v) for f, v in s.items()}}


DIRECT_COMBOS = [(lag, svi, sub) for lag in (UNSET, None, 0, 1) for svi in (UNSET, None, 0, 1)
                 for sub in (UNSET, 0, 1, 7)]
INDIRECT_COMBOS = [(ifn, svi, sub) for ifn in (UNSET, None, "", "lo0", "e1", "nope") for svi in (UNSET, None, 0, 1)
                   for sub in (UNSET, 0, 1, 7)]


def gen_table_cases() -> list[dict]:
    """Exhaustive decision tables: one rule per case, every combination of the selecting attributes
    (unset / None / 0 / other) on either end; `expect` is the bookkeeping of which DTO each device got."""
    cases = []
    n = len(DIRECT_COMBOS)
    for k in (1, 2):
        for pp in ("united", "separate"):
            for i, cl in enumerate(DIRECT_COMBOS):
                cr = DIRECT_COMBOS[(i * 5 + 3) % n]
                ports = {"a1": [[f"e{j + 1}", "b1", f"e{j + 4}"] for j in range(k)],
                         "b1": [[f"e{j + 4}", "a1", f"e{j + 1}"] for j in range(k)]}
                if i % 2:
                    ports["b1"].reverse()
                conn_a = [(p, q) for p, _, q in ports["a1"]]
                groups = [conn_a] if pp == "united" else [[x] for x in conn_a]
                table, exp_a, exp_b = {}, [], []
                for gi, g in enumerate(groups):
                    l = {"addr": f"10.1.{gi}.1/30", "asnum": 65001}
                    r = {"addr": f"10.1.{gi}.2/30", "asnum": 65002}
                    s = {"families": {"ipv4_unicast"}}
                    for d, c in ((l, cl), (r, cr)):
                        _put(d, "lag", c[0]); _put(d, "svi", c[1]); _put(d, "subif", c[2])
                    if i % 4 == 0:
                        s["vrf"] = "V1"
                    if i % 3 == 0 and isinstance(cl[0], int):
                        l["lag_links_min"] = 1
                    t = _enc_tbl2(l, r, s)
                    table["a1|b1|" + ",".join(sorted(p for p, _ in g))] = t
                    la, ra = dict(t["l"], **t["s"]), dict(t["r"], **t["s"])
                    exp_a.append({"ports": [p for p, _ in g], "local": la, "conn": ra, "host": "b1"})
                    # b1 sees its own connection order
                    own = [q for q, _, p in ports["b1"] if p in {x for x, _ in g}]
                    exp_b.append({"ports": own, "local": ra, "conn": la, "host": "a1"})
                if pp == "separate":
                    # b1 iterates its own connection order
                    order = [q for q, _, _ in ports["b1"]]
                    exp_b.sort(key=lambda e: order.index(e["ports"][0]))
                lm, rm = [("a{n}", "b{n}"), ("a1", "b{n}"), ("a{n}", "b1"), ("a1", "b1")][(i // 2) % 4]
                rule = {"kind": "direct", "left": lm, "right": rm, "cond": "none", "pp": pp, "table": table}
                cases.append({"devices": ["a1", "b1"], "ports": ports, "rules": [rule], "table_kind": "direct",
                              "expect": {"a1": exp_a, "b1": exp_b}})
    n = len(INDIRECT_COMBOS)
    for i, cl in enumerate(INDIRECT_COMBOS):
        ports = {"a1": [["e1", "b1", "e1"], ["e2", "c1", "e1"]], "b1": [["e1", "a1", "e1"]], "c1": [["e1", "a1", "e2"]]}
        table, exp = {}, {"a1": [], "b1": [], "c1": []}
        for j, other in enumerate(("b1", "c1")):
            ca = INDIRECT_COMBOS[(i + 7 * j) % n]
            co = INDIRECT_COMBOS[((i + 7 * j) * 5 + 3) % n]
            l = {"addr": f"172.16.{j}.1/32", "asnum": 65001}
            r = {"addr": f"172.16.{j}.2/32", "asnum": 65002 + j}
            s = {"families": {"ipv4_unicast"}}
            for d, c in ((l, ca), (r, co)):
                _put(d, "ifname", c[0]); _put(d, "svi", c[1]); _put(d, "subif", c[2])
            if (i + j) % 4 == 0:
                s["vrf"] = "V1"
            t = _enc_tbl2(l, r, s)
            table[f"a1|{other}|"] = t
            la, ra = dict(t["l"], **t["s"]), dict(t["r"], **t["s"])
            exp["a1"].append({"ports": [], "local": la, "conn": ra, "host": other})
            exp[other].append({"ports": [], "local": ra, "conn": la, "host": "a1"})
        lm, rm = [("a{n}", "{r:[bc]}{n}"), ("a1", "{r:[bc]}{n}")][(i // 3) % 2]
        rule = {"kind": "indirect", "left": lm, "right": rm, "cond": "none", "pp": "united", "table": table}
        cases.append({"devices": ["a1", "b1", "c1"], "ports": ports, "rules": [rule], "table_kind": "indirect",
                      "expect": exp})
    svis = (UNSET, 0, 1, 30)
    for i, combo in enumerate(itertools.product(svis, repeat=2)):
        table, exp = {}, []
        for num, svi in zip((0, 5), combo):
            l = {"asnum": 65001}
            v = {"addr": f"192.168.{num}.1", "asnum": 65100 + num}
            s = {"families": {"ipv4_unicast"}}
            _put(l, "svi", svi)
            if i % 2:
                l["addr"] = f"192.168.{num}.254/24"
            t = _enc_tbl2(l, v, s)
            table[f"a1|{num}"] = t
            exp.append({"ports": [], "local": dict(t["l"], **{k: x for k, x in t["s"].items() if k != "families"}),
                        "conn": dict(t["r"], **t["s"]), "host": ""})
        rule = {"kind": "virtual", "left": "a{n}", "num": [0, 5], "table": table}
        cases.append({"devices": ["a1", "b1"], "ports": {"a1": [["e1", "b1", "e1"]], "b1": [["e1", "a1", "e1"]]},
                      "rules": [rule], "table_kind": "virtual", "expect": {"a1": exp, "b1": []}})
    return cases


def ceres(o: dict) -> str:
    if "ok" in o:
        peers = clist(centries(p) for p in o["ok"]["peers"])
        log = clist(cpair(cstr(i), cstr(a), "None" if v is None else f"(Some {cstr(v)})") for i, a, v in o["ok"]["addrs"])
        return f"(EOk {peers} {log})"
    return "EValueError" if o["err"] == "ValueError" else "EOther"


def tcase_term(case, dev, out) -> str:
    kind = {"direct": "KDirect", "indirect": "KIndirect", "virtual": "KVirtual"}[case["table_kind"]]
    ifs = clist(cstr(x) for x in ["lo0"] + [p for p, _, _ in case["ports"][dev]])
    ss = clist("(TSess " + clist(cstr(p) for p in e["ports"]) + " " + centries(e["local"]) + " " +
               centries(e["conn"]) + " " + cstr(e["host"]) + ")" for e in case["expect"][dev])
    return cpair(cpair(kind, ifs, ss), ceres(out["out"][dev][0]))


def parse_key(rule, key):
    if rule["kind"] == "virtual":
        d, num = key.split("|")
        return d, int(num)
    l, r, ports = key.split("|")
    return l, r, [p for p in ports.split(",") if p]


def ctriple(t) -> str:
    return cpair(centries(t["l"]), centries(t["r"]), centries(t["s"]))


def ecase_term(case, out) -> str:
    devs = case["devices"]
    rules = case["rules"]
    ports = clist(cpair(cstr(d), clist(cpair(cstr(p), cstr(nb), cstr(nbp)) for p, nb, nbp in case["ports"][d]))
                  for d in devs)

    def crule(i, r):
        return f"(Rule {i} {'Separate' if r.get('pp') == 'separate' else 'United'})"
    drules = clist(crule(i, r) for i, r in enumerate(rules) if r["kind"] == "direct")
    irules = clist(crule(i, r) for i, r in enumerate(rules) if r["kind"] == "indirect")
    vrules = clist(f"(VRule {i} {clist(cZ(n) for n in r['num'])})" for i, r in enumerate(rules) if r["kind"] == "virtual")
    mt, vmt, tbl, vtbl = [], [], [], []
    for i, r in enumerate(rules):
        if r["kind"] == "virtual":
            vmt += [cpair(str(i), cstr(d)) for d in devs if mask_n(r["left"], d) is not None]
            for key, t in r["table"].items():
                d, num = parse_key(r, key)
                vtbl.append(cpair(cpair(str(i), cstr(d), cZ(num)), ctriple(t)))
            continue
        mt += [cpair(str(i), cstr(L), cstr(R)) for L in devs for R in devs if rule_matches(r, L, R)]
        for key, t in r["table"].items():
            L, R, ps = parse_key(r, key)
            tbl.append(cpair(cpair(str(i), cstr(L), cstr(R), clist(cstr(p) for p in ps)), ctriple(t)))
    ec = ("(ECase " + " ".join([clist(cstr(d) for d in devs), ports, drules, irules, vrules, clist(mt), clist(vmt),
                                clist(tbl), clist(vtbl), clist(cstr(f) for f in out["option_fields"])]) + ")")
    obs = clist(cpair(cstr(d), ceres(out["out"][d][0])) for d in devs)
    return cpair(ec, obs)


def seq_term(out) -> str:
    """the runs of the in-process sequence (shared handler constants, two executors), in the order they were made"""
    return clist(cpair(cstr(d), ceres(o)) for d, o in out.get("seq", []))


TY_EXEC_SEQ = "(ecase * list (string * eres)) * list (string * eres)"
AGREE_EXEC = ("fun c => agree_exec sch_DirectPeerDTO sch_IndirectPeerDTO sch_VirtualLocalDTO sch_VirtualPeerDTO "
              "sch_PairDirect (fst c) (snd c)")


EXEC_SEQ_PREDS = {
    "agree": "fun c => (" + AGREE_EXEC + ") (fst c)",
    "noleak": "fun c => P_C15_no_leak (fst (fst c)) (snd (fst c))",
    # every handler call of a matching rule shows in the outcome of both ends (presence and content)
    "noloss": "fun c => P_C15_no_loss (fst (fst c)) (snd (fst c))",
    # every address family of a peer was assigned by a call for its pair: fresh runs, and runs of the sequence
    "families": "fun c => P_C15_families_assigned (fst (fst c)) (snd (fst c))",
    "families_seq": "fun c => P_C15_families_assigned (fst (fst c)) (snd c)",
    "noleak_seq": "fun c => P_C15_no_leak (fst (fst c)) (snd c)",
    # a run inside a sequence of runs in one process = the run in a fresh state
    "history": "fun c => P_C15_history (snd (fst c)) (snd c)",
}


def run_iface_part(ctx, tbl):
    cases = gen_table_cases()
    outs = core.run_impl_sharded("c15_runner.py", cases, wrap=lambda c: {"op": "exec", "cases": c},
                                 shards=min(core.NPROC, max(1, len(cases) // 40)))
    terms, owner = [], []
    for ci, (c, o) in enumerate(zip(cases, outs)):
        for d in c["devices"]:
            terms.append(tcase_term(c, d, o))
            owner.append((ci, d))
    res = core.run_case_files(ID, "tcase * eres", IMPORTS_IFACE,
                              {"holds": "fun c => P_C15_iface stub_naming (fst c) (snd c)"}, terms,
                              per_file=150, tag="iface")
    eterms = [ecase_term(c, o) for c, o in zip(cases, outs)]
    res2 = core.run_case_files(ID, "ecase * list (string * eres)", IMPORTS_IFACE, {"agree": AGREE_EXEC}, eterms,
                               per_file=60, tag="iface_model", extra_defs=schema_defs(tbl))
    hist = {"direct": 0, "indirect": 0, "virtual": 0}
    outcome = {"ok": 0, "ValueError": 0, "other": 0}
    for c, o in zip(cases, outs):
        hist[c["table_kind"]] += 1
        for d in c["devices"]:
            r = o["out"][d][0]
            outcome["ok" if "ok" in r else r["err"]] += 1
    for i in res["holds"][:3]:
        ci, d = owner[i]
        c = cases[ci]
        ctx.add_violation(core.Violation(
            signature=f"C15/interface-not-the-selected-one/{c['table_kind']}",
            what="MeshExecutor.execute_for: a peer (or the local address of the session) does not sit on the "
                 "interface the rule's DTO selects (port / LAG / sub-interface n>=0 / SVI), or a refused "
                 "combination was accepted",
            replay={"kind": "iface", "case": c, "device": d, "impl": outs[ci]["out"][d][:1]}))
    if not res["holds"]:
        for i in res2["agree"][:1]:
            ctx.add_violation(core.Violation(
                signature="C15/executor-model-impl-disagree/table",
                what="Coq model MeshExec.execute_for and MeshExecutor.execute_for differ on a decision-table case "
                     "(correspondence broken); the interface predicate holds on all implementation outputs explored",
                replay={"correspondence": "Model.MeshExec.execute_for vs annet.mesh.executor.MeshExecutor.execute_for",
                        "kind": "exec_model", "case": cases[i], "impl": {d: outs[i]["out"][d][:1] for d in cases[i]["devices"]}},
                no_input=True))
    return {"evaluations": len(terms), "distinct_nontrivial": len(terms), "cases": hist, "device_outcomes": outcome,
            "model_disagreements": len(res2["agree"]),
            "scope": "direct: (lag, svi) over {unset, None, 0, 1} x subif over {unset, 0, 1, 7} on either end x 1-2 links x "
                     "united/separate ports; indirect: ifname over {unset, None, '', lo0, e1, missing} x svi x subif, two "
                     "sessions on a1; virtual: svi over {unset, 0, 1, 30} for two nums",
            "samples": [{"input": {k: v for k, v in cases[6].items()}, "impl": outs[6]["out"]["a1"][:1]}]}


def _sv(v):
    return {"k": "bool", "v": v} if isinstance(v, bool) else scalar(v)


KNOWN_VRF_CASE = {
    "devices": ["a1", "b1"], "ports": {"a1": [["e1", "b1", "e1"]], "b1": [["e1", "a1", "e1"]]},
    "rules": [
        {"kind": "direct", "left": "a{n}", "right": "b{n}", "cond": "none", "pp": "united",
         "table": {"a1|b1|e1": {"l": {"addr": _sv("10.0.0.1/30"), "asnum": _sv(65001), "vrf": _sv("VA")},
                                "r": {"addr": _sv("10.0.0.2/30"), "asnum": _sv(65002)}, "s": {}}}},
        {"kind": "direct", "left": "a{n}", "right": "b{n}", "cond": "none", "pp": "united",
         "table": {"a1|b1|e1": {"l": {"addr": _sv("10.0.0.1/30"), "asnum": _sv(65001)},
                                "r": {"addr": _sv("10.0.0.2/30"), "asnum": _sv(65002)}, "s": {"bfd": _sv(True)}}}},
    ]}


def run_known_probe(ctx, tbl):
    """The witness of C15_mirror_merged_refuted on the real executor (known/C15.json): reported while it reproduces."""
    c = KNOWN_VRF_CASE
    out = core.run_impl("c15_runner.py", {"op": "exec", "cases": [c]})[0]
    res = core.run_case_files(ID, "exec_output", IMPORTS, {"holds": "fun c => P_C15_exec c"}, [exec_term(c, out)],
                              tag="known_probe")
    res2 = core.run_case_files(ID, "ecase * list (string * eres)", IMPORTS_IFACE, {"agree": AGREE_EXEC},
                               [ecase_term(c, out)], tag="known_probe_model", extra_defs=schema_defs(tbl))
    if res["holds"]:
        ctx.add_violation(core.Violation(
            signature="C15/mirror-merged/per-side-vrf-splits-session",
            what="two handlers for one pair, vrf set on one peer object by one of them: one end merges both results into one "
                 "session, the other end keeps two sessions to the same address",
            replay={"kind": "exec", "case": c, "impl": {d: out["out"][d][:1] for d in c["devices"]}}))
    if res2["agree"]:
        ctx.add_violation(core.Violation(
            signature="C15/executor-model-impl-disagree/known-probe",
            what="Coq model and MeshExecutor.execute_for differ on the witness of C15_mirror_merged_refuted",
            replay={"correspondence": "Model.MeshExec.execute_for vs MeshExecutor.execute_for", "kind": "exec_model",
                    "case": c, "impl": {d: out["out"][d][:1] for d in c["devices"]}}, no_input=True))
    ctx.coverage["known_probe"] = {"reproduces": bool(res["holds"]), "model_agrees": not res2["agree"]}


KNOWN_ORDER_CASE = {
    "devices": ["a1", "b1"], "ports": {"a1": [], "b1": []},
    "rules": [
        {"kind": "indirect", "left": "a{n}", "right": "b{n}", "cond": "none", "pp": "united",
         "table": {"a1|b1|": {"l": {"addr": _sv("10.0.0.1/32"), "asnum": _sv(65001), "svi": _sv(5)},
                              "r": {"addr": _sv("10.0.0.2/32"), "asnum": _sv(65002)}, "s": {}}}},
        {"kind": "indirect", "left": "a{n}", "right": "b{n}", "cond": "none", "pp": "united",
         "table": {"a1|b1|": {"l": {"addr": _sv("10.0.1.1/32"), "asnum": _sv(65001), "ifname": _sv("Vlan5")},
                              "r": {"addr": _sv("10.0.1.2/32"), "asnum": _sv(65002)}, "s": {}}}},
    ]}


def run_order_probe(ctx, tbl):
    """The witness of C15_exec_order_refuted on the real executor (known/C15.json): reported while it reproduces."""
    c = KNOWN_ORDER_CASE
    out = core.run_impl("c15_runner.py", {"op": "exec", "cases": [c]})[0]
    res = core.run_case_files(ID, "exec_output", IMPORTS, {"holds": "fun c => P_C15_exec c"}, [exec_term(c, out)],
                              tag="order_probe")
    res2 = core.run_case_files(ID, "ecase * list (string * eres)", IMPORTS_IFACE, {"agree": AGREE_EXEC},
                               [ecase_term(c, out)], tag="order_probe_model", extra_defs=schema_defs(tbl))
    if res["holds"]:
        ctx.add_violation(core.Violation(
            signature="C15/handler-order/indirect-ifname-needs-svi-of-later-rule",
            what="two indirect rules for one pair with different peer addresses: the session of one creates SVI 5, the "
                 "session of the other names ifname='Vlan5'; registered in one order execute_for succeeds, in the other "
                 "it raises ValueError (Interface Vlan5 not found): the result depends on handler registration order",
            replay={"kind": "exec", "case": c, "impl": {d: out["out"][d] for d in c["devices"]}}))
    if res2["agree"]:
        ctx.add_violation(core.Violation(
            signature="C15/executor-model-impl-disagree/order-probe",
            what="Coq model and MeshExecutor.execute_for differ on the witness of C15_exec_order_refuted",
            replay={"correspondence": "Model.MeshExec.execute_for vs MeshExecutor.execute_for", "kind": "exec_model",
                    "case": c, "impl": {d: out["out"][d][:1] for d in c["devices"]}}, no_input=True))
    ctx.coverage["order_probe"] = {"reproduces": bool(res["holds"]), "model_agrees": not res2["agree"]}


def check_schema_guards(ctx, tbl):
    """The premises of C15_key_is_peer_addr, evaluated on the schemas read from the real classes."""
    g = ('match lookup "connected" {p} with Some (MMerge s) => '
         'match lookup "addr" s, lookup "addr" {d} with Some MForbidChange, Some MForbidChange => true | _, _ => false end '
         '| _ => false end')
    vals = core.coq_eval(ID, IMPORTS_IFACE + "\n" + schema_defs(tbl),
                         [g.format(p="sch_PairDirect", d="sch_DirectPeerDTO"),
                          g.format(p="sch_PairIndirect", d="sch_IndirectPeerDTO")], tag="schema_guards")
    if vals != ["true", "true"]:
        ctx.add_violation(core.Violation(
            signature="C15/pair-schema-guard",
            what="Pair.connected is no longer merged by Merge() or addr is no longer a ForbidChange field: the premises of "
                 "C15_key_is_peer_addr do not hold for the real classes",
            replay={"theorem": "C15_key_is_peer_addr", "evaluated": vals}, no_input=True))
    ctx.coverage["schema_guards"] = vals
    # the schema premises of C15_no_loss (Spec/P_C15_noloss_wf.noloss_schema), on the real classes and the real
    # PeerOptions fields: Pair.local / Pair.connected merged by Merge() of the direct DTO class (the class the model
    # is run with for both loops), attributes a Peer is read from ForbidChange, families Unite, no local_as attribute
    opt = core.run_impl("c15_runner.py", {"op": "option_fields"})
    optl = clist(cstr(f) for f in opt)
    n = ('match lookup "local" sch_PairDirect, lookup "connected" sch_PairDirect with '
         'Some (MMerge a), Some (MMerge b) => noloss_schema {o} a && noloss_schema {o} b | _, _ => false end')
    nvals = core.coq_eval(ID, IMPORTS_IFACE + "\nFrom Annet Require Import Spec.P_C15_seq Spec.P_C15_noloss_wf.\n"
                          + schema_defs(tbl),
                          [n.format(o=optl), f"noloss_schema {optl} sch_DirectPeerDTO",
                           f"noloss_schema {optl} sch_IndirectPeerDTO"], tag="noloss_schema_guards")
    if nvals != ["true", "true", "true"]:
        ctx.add_violation(core.Violation(
            signature="C15/noloss-schema-guard",
            what="a DTO attribute a Peer field is read from is no longer a ForbidChange field (or families no longer "
                 "Unite, or Pair.local / Pair.connected no longer Merge()): the premises of C15_no_loss do not hold for "
                 "the real classes",
            replay={"theorem": "C15_no_loss", "evaluated": nvals, "option_fields": opt}, no_input=True))
    ctx.coverage["noloss_schema_guards"] = nvals


def run(ctx):
    core.proof_stage(ctx, THEOREM_FILE)
    tbl = core.run_impl("c15_runner.py", {"op": "schemas"})
    check_schema_guards(ctx, tbl)
    run_known_probe(ctx, tbl)
    run_order_probe(ctx, tbl)
    m = run_merge_part(ctx, tbl)
    it = run_iface_part(ctx, tbl)
    x = run_exec_part(ctx, tbl)
    ctx.coverage.update({
        "evaluations": m["evaluations"] + x["evaluations"] + it["evaluations"],
        "distinct_nontrivial": m["distinct_nontrivial"] + x["distinct_nontrivial"] + it["distinct_nontrivial"],
        "rule": "merge: distinct by canonical hash of the realised (a,b,c); non-trivial = a and b set at least one "
                "common top-level attribute (so a merger actually runs). executor: distinct by hash of the case; "
                "non-trivial = at least 2 rules and at least two devices end up with peers",
        "samples": m["samples"][:1] + x["samples"],
        "traces_validated_against_impl": m["evaluations"],
        "disagreements_checked": m["disagreements"],
        "merge": {k: v for k, v in m.items() if k != "samples"},
        "executor": {k: v for k, v in x.items() if k != "samples"},
        "interface_tables": {k: v for k, v in it.items() if k != "samples"},
        "exhaustive": False,
    })
    ctx.assumptions += [
        "nested models are monomorphic: the runtime class of a Merge() field is the declared one",
        "values are well typed per field (Python's 1 == True and str+str under Concat are outside the model)",
        "handlers and matchers are pure functions of (left, right, ports)",
        "the storage returns every device it is asked for and its Device.make_lag/add_svi/add_subif add the named "
        "interface or return the existing one (annet.storage.Device contract); interface names as the stub gives them "
        "(Trunk<n>, Vlan<n>, <parent>.<n>)",
        "DTO attributes the interface selection reads are well typed (addr: str; lag/svi/subif: int or None)",
    ]


def replay(ctx, doc):
    r = doc["replay"]
    tbl = core.run_impl("c15_runner.py", {"op": "schemas"})
    if r.get("kind") == "merge":
        c = r["case"]
        out = core.run_impl("c15_runner.py", {"op": "merge", "cases": [c]})[0]
        res = core.run_case_files(ID, TY_MERGE, IMPORTS,
                                  {"holds": "fun c => P_C15_merge (fst c) (snd c)",
                                   "agree": "fun c => agree_merge (fst c) (snd c)"},
                                  [merge_term(tbl, c, out)], tag="replay", extra_defs=schema_defs(tbl))
        print("impl:", json.dumps(out)[:3000])
        fr = core.run_case_files(ID, TY_MERGE_FRAME, IMPORTS_SEQ, {"frame": "fun c => P_C15_frame (fst (fst c)) (snd c)"},
                                 [cpair(merge_term(tbl, c, out), cpair(*(centries(x["v"]) for x in out["after"])))],
                                 tag="replay_frame", extra_defs=schema_defs(tbl))
        print("holds:", not res["holds"], "agree:", not res["agree"], "operands unchanged:", not fr["frame"])
        return 1 if (res["holds"] or fr["frame"]) else 0
    if r.get("kind") == "exec":
        c = r["case"]
        out = core.run_impl("c15_runner.py", {"op": "exec", "cases": [c]})[0]
        res = core.run_case_files(ID, "exec_output", IMPORTS, {"holds": "fun c => P_C15_exec c"},
                                  [exec_term(c, out)], tag="replay")
        res2 = core.run_case_files(ID, TY_EXEC_SEQ, IMPORTS_SEQ, EXEC_SEQ_PREDS,
                                   [cpair(ecase_term(c, out), seq_term(out))], tag="replay2",
                                   extra_defs=schema_defs(tbl))
        print("impl:", json.dumps({d: out["out"][d][:2] for d in c["devices"]})[:4000])
        if "seq" in out:
            print("sequence:", json.dumps(out["seq"])[:4000])
        bad = [k for k in EXEC_SEQ_PREDS if k != "agree" and res2[k]]
        print("holds:", not res["holds"], "violated clauses:", bad, "model agrees:", not res2["agree"])
        return 1 if (res["holds"] or bad) else 0
    if r.get("kind") == "iface":
        c, d = r["case"], r["device"]
        out = core.run_impl("c15_runner.py", {"op": "exec", "cases": [c]})[0]
        res = core.run_case_files(ID, "tcase * eres", IMPORTS_IFACE,
                                  {"holds": "fun c => P_C15_iface stub_naming (fst c) (snd c)"},
                                  [tcase_term(c, d, out)], tag="replay")
        print("device:", d, "impl:", json.dumps(out["out"][d][:1])[:3000])
        print("holds:", not res["holds"])
        return 1 if res["holds"] else 0
    if r.get("kind") == "exec_model":
        c = r["case"]
        out = core.run_impl("c15_runner.py", {"op": "exec", "cases": [c]})[0]
        res = core.run_case_files(ID, "ecase * list (string * eres)", IMPORTS_IFACE,
                                  {"agree": AGREE_EXEC, "noleak": "fun c => P_C15_no_leak (fst c) (snd c)"},
                                  [ecase_term(c, out)], tag="replay", extra_defs=schema_defs(tbl))
        print("impl:", json.dumps({d: out["out"][d][:1] for d in c["devices"]})[:4000])
        print("agree:", not res["agree"], "noleak:", not res["noleak"])
        return 1 if (res["agree"] or res["noleak"]) else 0
    raise core.CheckFailure("unknown replay kind")
