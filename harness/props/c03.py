"""C03 — the diff is a faithful, lossless description of old versus new (DESIGN §3.C03)."""
from __future__ import annotations

from .. import core, pipeline as P

ID = "C03"
THEOREM_FILE = "Properties/C03.v"
META = {
    "text": "Proof (Coq, any rule matcher, any rulebook with default/ordered/rewrite diff logics, trees of any depth): "
            "theorems about the model of make_diff listed in coq/Properties/C03.v. Correspondence: the model's "
            "make_diff/strip_unchanged equal the implementation's on generated rulebooks and config pairs, and the "
            "declarative checker P_C03 (ops exact at every depth, every known row accounted for, ordered rows in "
            "new's order, MOVED iff the prefix deviates, self-diff empty) is evaluated by Coq on the real outputs.",
    "technique": "Coq induction over annotated config trees; vm_compute differential check on real make_diff outputs",
}

HOLDS = {
    "lossless": "fun c => lossless (annot_f pm (pc_rules c) (pc_old c)) (annot_f pm (pc_rules c) (pc_new c)) (pc_diff_full c)",
    "order": "fun c => order_ok (annot_f pm (pc_rules c) (pc_new c)) (pc_diff_full c)",
    "moved": "fun c => moved_ok_top (annot_f pm (pc_rules c) (pc_old c)) (annot_f pm (pc_rules c) (pc_new c)) (pc_diff_full c)",
    "self_empty": "fun c => negb (forest_eqb (pc_old c) (pc_new c)) || match strip_unchanged (pc_diff_full c) with [] => true | _ => false end",
    "projections": "fun c => has_rewrite (pc_rules c) || P_C03_proj pm (pc_rules c, pc_old c, pc_new c) (pc_diff_full c)",
    "stripped_is_strip_of_full": "fun c => match pc_patch c with None => true | Some _ => diff_eqb (strip_unchanged (pc_diff_full c)) (pc_diff c) end",
}
WHAT = {
    "lossless": "an op is not exact or a known row is not accounted for in make_diff's output",
    "order": "rows of an %ordered rule do not appear in new's order in the diff",
    "moved": "MOVED does not coincide with 'prefix of new deviates from old' in an %ordered block",
    "self_empty": "diff of a configuration with itself is not empty after strip_unchanged",
    "projections": "dropping added/removed entries does not give old|R / new|R",
    "stripped_is_strip_of_full": "the diff returned by _diff_and_patch is not strip_unchanged(make_diff)",
}


def tweak(rng, c, i):
    if i % 6 == 0:
        c = dict(c, new=c["old"])
    return c


def run(ctx):
    P.run_pipeline_property(
        ctx, THEOREM_FILE, holds=HOLDS, what=WHAT, extra_imports="From Annet Require Import Spec.P_C03.",
        tweak=tweak, agree=("diff_full", "diff"),
        nontrivial=lambda c, o: len(P.diff_ops(o.get("diff_full", [])) - {"unchanged"}) >= 2 and P.tree_depth(c["new"]) >= 2,
        rule_text="the real diff holds >= 2 different ops other than unchanged and new has depth >= 2")


def replay(ctx, doc):
    print("replay: re-run ./check C03 with VERIF_SEED=%s; case stored in the replay file" % doc.get("seed"))
    return 1
