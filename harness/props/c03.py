"""C03 — the diff is a faithful, lossless description of old versus new (DESIGN §3.C03)."""
from __future__ import annotations

import json
import random

from .. import core, pipeline as P
from ..core import cstr, clist, cpair

ID = "C03"
THEOREM_FILE = "Properties/C03.v"
META = {
    "text": (
        "PROVED for all inputs (Coq, closed under the global context; any rule matcher, any rulebook built from the "
        "default / %ordered / %rewrite diff logics, config trees of any depth whose sibling rows are distinct): "
        "(make_diff) ops are exact at every depth, every row the rulebook knows is accounted for exactly once per "
        "level, entries carry rule and key, and rows of %rewrite rules may be missing from the diff only when the "
        "whole %rewrite group of that level is unchanged at every depth (same rows, rule and key, same order where "
        "order matters, recursively) [C03_lossless]; hence dropping the ADDED entries gives old|R and dropping the "
        "REMOVED ones gives new|R as unordered trees with the nesting intact, on the side where no row is governed "
        "by a %rewrite rule [C03_projections]; self-diff empty [C03_self_empty]; %ordered rows in new's order "
        "[C03_ordered_in_new_order]; MOVED characterisation at EVERY depth: below a MOVED entry every surviving "
        "row is MOVED, elsewhere a surviving %ordered row is MOVED iff the prefix of new up to it deviates from "
        "old [C03_moved_all_depths, C03_moved_iff_prefix_deviates]; a %rewrite block that is shown is shown "
        "re-entered as a whole [C03_rewrite_shown_whole]; strip_unchanged is a projection without UNCHANGED entries "
        "[C03_strip_idem, C03_strip_no_unchanged]; the predicate P_C03 evaluated on real outputs holds of the model "
        "[C03_P_holds_of_model]. "
        "REFUTED (by design of base_diff, witness replayed on the real make_diff): the stricter reading 'MOVED only "
        "if the order relative to the other surviving rows changed' -- after a removal every later row is "
        "re-created [C03_moved_strict_reading_refuted]; the prefix characterisation above is what holds. "
        "(text views) a signed-line parser parse_signed is defined in Coq; for every formatter parameter set with an "
        "indent of n>=1 blanks (plain family, brace family \" {\" \"}\" \";\"/\"\", RouterOS \"/\") and every diff "
        "without UNCHANGED entries whose rows do not start with a blank, parse_signed fmt (diff_lines fmt d) gives "
        "back d's entries with signs and nesting, so formatter.diff is injective [C03_render_roundtrip, "
        "C03_render_injective]; every vendor's formatter parameters (table regenerated from the source) satisfy the "
        "guard [C03_every_vendor_formatter_ok]; gen_pre_as_diff(make_pre(d)) read back by the same parser gives d "
        "minus UNCHANGED (= what strip_unchanged leaves) up to a permutation of the entries of every level "
        "[C03_pre_render, C03_shown_is_stripped]; the boolean tests used on real outputs imply the relations of the "
        "theorems [C03_tests_sound]. "
        "CORRESPONDENCE (testing, bounded by the generators): Coq compares the model's make_diff / strip_unchanged / "
        "diff_lines / pre_lines with the real make_diff, _diff_and_patch, formatter.diff of every vendor's formatter "
        "(3 indents) and gen_pre_as_diff(make_pre(.)) (also after resort_diff), and evaluates P_C03 and the "
        "read-back predicates on the real outputs. Inputs: the shared pipeline stream, a separately seeded stream "
        "of reorderings of %ordered/%rewrite rows (reversal, swaps with fixed points, rotations, permutations, moves, "
        "nested-only changes, with insertions/removals, at depth 1-3), and diffs built directly (all five ops, "
        "depth <= 4, delimiter-like rows). "
        "EXTENDED DOMAIN (C03X_*, Model/DiffX.v, Model/DiffSort.v). PROVED for all inputs: on the domain xdom (after "
        "lowering no two rows of a side collide; a row spelled differently on the two sides has no known children and "
        "one rule; no rule is both %ignore_case and %multiline; no %multiline row under a %rewrite row) the diff of a "
        "rulebook with %ignore_case rules is a lossless description, in the sense of every theorem above, of the "
        "NORMALISED pair: rows of %ignore_case rules replaced by their lower-case spelling at every depth -- the "
        "spelling the diff shows, neither old's nor new's -- and a row spelled differently on the two sides carrying "
        "the match recorded last [C03X_lossless, C03X_ordered_in_new_order, C03X_moved_all_depths, "
        "C03X_rewrite_shown_whole, C03X_projections, C03X_norm_only_lowers, C03X_equal_modulo_case]; without "
        "%ignore_case rows the extended model is Model/Diff.v's make_diff, and without %multiline rows the extended "
        "differ is diff_t at every depth [C03X_conservative_ignore_case, C03X_conservative_multiline, "
        "C03X_full_model_without_multiline]; every level of resort_diff's output is a permutation of the input "
        "level, and where diff_cmp is a weak order on the level it is sorted by it and stable; a one-op level is "
        "untouched [C03X_resort_permutes_levels, C03X_resort_sorted_stable, C03X_resort_one_op]. REFUTED / "
        "reproduced by the model and replayed on the real code: diff_cmp is not a weak order (the displayed order "
        "then depends on TimSort's schedule) [C03X_diff_cmp_not_weak_order]; a childless new/removed %multiline "
        "row is invisible, an emptied body is UNCHANGED, a reordered body shows the whole block "
        "[C03X_multiline_losses]. PROVED for all inputs in the deepening round: (%multiline) on xdom a row of a "
        "%multiline rule is shown iff its bodies differ as ordered trees (absent = empty), exactly once, with an exact "
        "op and the whole body of the side it is read from, and no entry of the other three groups is such a row -- at "
        "the top level [C03X_multiline_level = the former C03X_multiline_level_statement], below any entry "
        "[C03X_multiline_level_any_depth] and at EVERY depth of the diff, through removed subtrees, rewrite_diff's "
        "AFFECTED->MOVED pass and mark_unchanged [C03X_multiline_every_depth, C03X_multiline_removed_subtree]; "
        "(%rewrite) the reconstruction law for EVERY rulebook: the projection of the diff plus, per level, the %rewrite "
        "rows of the other configuration that the diff does not mention gives old|R resp. new|R as unordered trees "
        "[C03X_projections_rewrite = the former C03X_projections_rewrite_statement; it follows from `lossless` alone, "
        "C03X_recon_of_lossless, hence holds of every real output P_C03 accepts; on xdom for the normalised pair, "
        "C03X_projections_rewrite_modulo_case; it is the plain projection without %rewrite rows, "
        "C03X_recon_is_projection_without_rewrite]; (modulo case, about the ORIGINAL pair) what the diff determines of "
        "each side is a re-spelling of it: same rows, order and nesting, only rows governed by an %ignore_case rule "
        "possibly lower-cased, multiline bodies verbatim [C03X_lossless_original_modulo_case]; a re-spelling equals "
        "the original up to the case of rows and is the original without %ignore_case rows [C03X_only_spelling_lost]; "
        "(resort_diff, no order hypothesis) diff_cmp is sign-antisymmetric [C03X_diff_cmp_antisymmetric], so no entry "
        "of the output is immediately followed by a strictly smaller one, at every depth "
        "[C03X_resort_no_adjacent_descent]; the strong form needs transitivity on the level only "
        "[C03X_resort_sorted_stable_transitive] and that cannot be dropped: a level whose output is not strongly "
        "sorted although a strongly sorted arrangement exists and is returned for another input order "
        "[C03X_resort_transitivity_needed]. CORRESPONDENCE for "
        "the extension: a separate stream of rulebooks with %ignore_case (parameter and inline (?i)) and %multiline "
        "rules (respellings, collisions, bodies edited / reordered / emptied) against the real make_diff on xdom, "
        "P_C03X on the real outputs; exceptions of the real make_diff outside xdom are classified by Coq predicates "
        "(four known classes, known/C03.json); the multiline law is evaluated at every depth of the real outputs "
        "(ml_ok); resort_diff's real output against the stable sort by the modelled diff_cmp wherever that is a weak "
        "order, per-level permutation always, and no adjacent descent at any depth wherever the first two words of "
        "the rows are modelled (adj_all)."),
    "technique": "Coq induction over annotated config trees, diffs and signed-line listings; vm_compute differential "
                 "check on real make_diff / formatter.diff / gen_pre_as_diff outputs",
    "note": "The theorems are about the Gallina model; the tie to the code is differential testing. Not modelled: "
            "vendor %diff_logic functions (out of the property's scope), colours and the show_rules comment lines of "
            "gen_pre_as_diff, %ignore_case / %multiline outside xdom (the real make_diff raises or drops rows there: "
            "known findings), resort_diff where diff_cmp is not a weak order (only the per-level permutation is "
            "claimed) and words int()/ip_interface() accept beyond sign+digits+underscores and dotted IPv4[/len]. "
            "%multiline: the model is compared with the code; the law of multiline blocks is proved at every depth, "
            "but the `lossless` / order / MOVED theorems themselves cover trees without %multiline rows only (the body "
            "of a multiline entry is not a compared level). With %rewrite rows the reconstruction needs the other "
            "configuration (C03X_projections_rewrite); C03_projections is its special case. The model of resort_diff "
            "is the linear stable insertion sort: where diff_cmp is not transitive CPython's binary insertion may give "
            "another order (both have no adjacent descent; only that and the per-level permutation are claimed there).",
}

AO = "(annot_f pm (pc_rules c) (pc_old c))"
AN = "(annot_f pm (pc_rules c) (pc_new c))"
HOLDS = {
    "lossless": f"fun c => lossless {AO} {AN} (pc_diff_full c)",
    "order": f"fun c => order_ok {AN} (pc_diff_full c)",
    "moved": f"fun c => moved_ok {AO} {AN} (pc_diff_full c)",
    "rewrite_whole": f"fun c => rewrite_whole {AO} {AN} (pc_diff_full c)",
    "self_empty": "fun c => negb (forest_eqb (pc_old c) (pc_new c)) || match strip_unchanged (pc_diff_full c) with [] => true | _ => false end",
    "projections": "fun c => has_rewrite (pc_rules c) || P_C03_proj pm (pc_rules c, pc_old c, pc_new c) (pc_diff_full c)",
    "stripped_is_strip_of_full": "fun c => match pc_patch c with None => true | Some _ => diff_eqb (strip_unchanged (pc_diff_full c)) (pc_diff c) end",
}
WHAT = {
    "lossless": "an op is not exact, or a known row is not accounted for in make_diff's output (a %rewrite row may be "
                "missing only when its whole group is unchanged at every depth)",
    "order": "rows of an %ordered rule do not appear in new's order in the diff",
    "moved": "MOVED does not coincide with 'prefix of new deviates from old' in an %ordered block (some depth)",
    "rewrite_whole": "a %rewrite block is shown but an entry at or below it is AFFECTED/UNCHANGED instead of MOVED",
    "self_empty": "diff of a configuration with itself is not empty after strip_unchanged",
    "projections": "dropping added/removed entries does not give old|R / new|R",
    "stripped_is_strip_of_full": "the diff returned by _diff_and_patch is not strip_unchanged(make_diff)",
}

# ------------------------------------------------------------------ reorder stream

KEYS = ["1", "2", "3", "x", "y", "10.0.0.1", "Eth1", "7", "z9", "lo0"]
KINDS = ["reverse", "swap", "swap_ends", "rotate", "perm", "move_one", "nested_only", "nested_only", "same"]


def _rule(pat, **kw):
    r = {"pat": pat, "ign": False, "glob": False, "logic": "default", "mode": "", "parent": False,
         "force_commit": False, "kids": []}
    r.update(kw)
    return r


def _body_rules(rng, levels: int) -> list[dict]:
    """child rules below an ordered/rewrite row: `levels` nested default-logic levels (0 = leaf rows only)"""
    if levels <= 0:
        return []
    out = [_rule("set *", kids=[]), _rule("opt * *")]
    blk = _rule("if *", kids=_body_rules(rng, levels - 1) or [_rule("set *")])
    if rng.random() < 0.3:
        blk["mode"] = rng.choice(["ordered", "rewrite"])
    out.append(blk)
    rng.shuffle(out)
    return out


def _body(rng, rules: list[dict], depth: int = 0) -> dict:
    t: dict = {}
    for r in rules:
        if rng.random() < 0.25:
            continue
        for _ in range(rng.choice([1, 1, 2, 3])):
            row = P.inst(rng, r["pat"], extra=False)
            if row in t:
                continue
            t[row] = _body(rng, r["kids"], depth + 1) if r["kids"] else {}
    items = list(t.items())
    rng.shuffle(items)
    return dict(items)


def _mutate_deep(rng, t: dict, min_depth: int, depth: int = 0) -> bool:
    """change one leaf at relative depth >= min_depth below t's rows (in place); True if done"""
    rows = list(t)
    rng.shuffle(rows)
    for row in rows:
        if t[row] and _mutate_deep(rng, t[row], min_depth, depth + 1):
            return True
    if depth >= min_depth and rows:
        row = rows[0]
        ws = row.split()
        new_row = " ".join(ws[:-1] + [ws[-1] + "9"])
        if new_row in t:
            return False
        op = rng.choice(["replace", "replace", "remove", "add"])
        items = list(t.items())
        i = [k for k, _ in items].index(row)
        if op == "replace":
            items[i] = (new_row, t[row])
        elif op == "remove":
            del items[i]
        else:
            items.insert(rng.randrange(len(items) + 1), (new_row, {}))
        t.clear()
        t.update(items)
        return True
    return False


def _deepcopy(t: dict) -> dict:
    return {k: _deepcopy(v) for k, v in t.items()}


def gen_reorder_case(rng: random.Random) -> dict:
    """A rulebook with one %ordered or %rewrite rule at config depth 1-3 and a pair (old, new) in which the
    rows of that rule are reordered (with fixed points), optionally with insertions / removals / nested edits."""
    v = rng.choice(P.BLOCK_VENDORS)
    mode = rng.choice(["ordered", "rewrite"])
    depth = rng.choice([1, 2, 2, 3])
    shape = rng.choice(["star", "star", "star2", "global"]) if depth > 1 else rng.choice(["star", "star", "star2"])
    body_levels = rng.choice([0, 1, 2, 2])
    if shape == "global":
        grule = _rule("stmt ~", glob=True, mode=mode)
        body_rules = None
    else:
        grule = _rule("entry *" if shape == "star" else "entry * *", mode=mode, kids=_body_rules(rng, body_levels))
        body_rules = grule["kids"]
    level_rules = [grule]
    if rng.random() < 0.6:
        level_rules.append(_rule("mtu *"))
    if rng.random() < 0.3:
        level_rules.append(_rule("peer *", mode=rng.choice(["ordered", "rewrite", ""])))
    rng.shuffle(level_rules)
    rules = level_rules
    parents = []
    for lvl in range(depth - 1):
        pat = ["alpha *", "beta *"][lvl]
        parents.insert(0, pat)
    for pat in parents[::-1]:
        sib = [_rule("name *")] if rng.random() < 0.4 else []
        rules = [_rule(pat, kids=rules)] + sib
    # ---- old
    n = rng.choice([3, 3, 4, 5, 6])
    keys = rng.sample(KEYS, n + 2)

    def grow(k):
        if shape == "global":
            return "stmt " + k + (" " + rng.choice(KEYS) if rng.random() < 0.4 else "")
        if shape == "star2":
            return f"entry {k} {rng.choice(KEYS)}"
        return "entry " + k + (" " + rng.choice(KEYS) if rng.random() < 0.3 else "")

    def gbody():
        if shape == "global":
            if body_levels == 0 or rng.random() < 0.3:
                return {}
            return {"stmt " + " ".join(rng.sample(KEYS, 2)): ({"stmt " + " ".join(rng.sample(KEYS, 2)): {}}
                                                              if body_levels > 1 and rng.random() < 0.7 else {})
                    for _ in range(rng.choice([1, 2]))}
        return _body(rng, body_rules)

    group = [(grow(k), gbody()) for k in keys[:n]]
    others = []
    if any(r["pat"] == "mtu *" for r in level_rules) and rng.random() < 0.8:
        others.append(("mtu " + rng.choice(KEYS), {}))
    if any(r["pat"] == "peer *" for r in level_rules):
        others += [("peer " + k, {}) for k in rng.sample(KEYS, rng.choice([1, 2, 3]))]

    def level(grp, oth, r):
        items = list(grp)
        for o in oth:
            items.insert(r.randrange(len(items) + 1), o)
        res = {}
        for k, b in items:
            res.setdefault(k, b)
        return res

    # ---- new
    kind = rng.choice(KINDS)
    g2 = [(k, _deepcopy(b)) for k, b in group]
    if kind == "reverse":
        g2.reverse()
    elif kind == "swap":
        i, j = sorted(rng.sample(range(n), 2))
        if j == i + 1 and n > 2:
            (i, j) = (i, j + 1) if j + 1 < n else (i - 1, j) if i > 0 else (i, j)
        g2[i], g2[j] = g2[j], g2[i]
    elif kind == "swap_ends":
        g2[0], g2[-1] = g2[-1], g2[0]
    elif kind == "rotate":
        k = rng.randrange(1, n)
        g2 = g2[k:] + g2[:k]
    elif kind == "perm":
        rng.shuffle(g2)
    elif kind == "move_one":
        x = g2.pop(rng.randrange(n))
        g2.insert(rng.randrange(n), x)
    nested = False
    if kind == "nested_only":
        cand = [b for _, b in g2 if b]
        rng.shuffle(cand)
        for b in cand:
            if _mutate_deep(rng, b, rng.choice([0, 1, 1])):
                nested = True
                break
    inserted = removed = False
    if kind not in ("nested_only", "same"):
        if rng.random() < 0.35:
            g2.insert(rng.randrange(len(g2) + 1), (grow(keys[n]), gbody()))
            inserted = True
        if rng.random() < 0.3 and len(g2) > 2:
            del g2[rng.randrange(len(g2))]
            removed = True
        if rng.random() < 0.3:
            cand = [b for _, b in g2 if b]
            if cand and _mutate_deep(rng, rng.choice(cand), 0):
                nested = True
    o2 = list(others)
    if o2 and rng.random() < 0.3:
        rng.shuffle(o2)
    r1, r2 = random.Random(rng.random()), random.Random(rng.random())
    old = level(group, others, r1)
    new = level(g2, o2, r2 if rng.random() < 0.5 else random.Random(0))
    for i, pat in enumerate(parents[::-1]):
        prow = pat.replace("*", rng.choice(KEYS))
        extra_o = {"name " + rng.choice(KEYS): {}} if rng.random() < 0.3 else {}
        old = dict({prow: old}, **extra_o)
        new = dict({prow: new}, **extra_o)
    # fixed point: a surviving group row that keeps its absolute index although the surviving rows before it changed
    ko, kn = [k for k, _ in group], [k for k, _ in g2]
    both = [k for k in ko if k in kn]
    fixed = any(ko.index(k) == kn.index(k) and
                [x for x in ko[:ko.index(k)] if x in both] != [x for x in kn[:kn.index(k)] if x in both]
                for k in both)
    c = {"vendor": v, "rules": rules, "orules": [], "old": old, "new": new,
         "patching": P.rules_text(rules), "ordering": "",
         "stream": "reorder",
         "tags": {"mode": mode, "depth": depth, "shape": shape, "kind": kind, "rows": n, "body_levels": body_levels,
                  "inserted": inserted, "removed": removed, "nested_edit": nested, "fixed_point": fixed}}
    return c


def reorder_histogram(cases: list[dict]) -> dict:
    h: dict = {"cases": 0}
    for c in cases:
        t = c.get("tags")
        if not t:
            continue
        h["cases"] += 1
        for k in ("mode", "depth", "shape", "kind", "rows", "body_levels"):
            d = h.setdefault(k, {})
            d[str(t[k])] = d.get(str(t[k]), 0) + 1
        for k in ("inserted", "removed", "nested_edit", "fixed_point"):
            h[k] = h.get(k, 0) + (1 if t[k] else 0)
        key = f"{t['mode']}/fixed_point" if t["fixed_point"] else None
        if key:
            h[key] = h.get(key, 0) + 1
        if t["kind"] == "nested_only" and t["nested_edit"]:
            k2 = f"{t['mode']}/nested_only_change"
            h[k2] = h.get(k2, 0) + 1
    return h


# ------------------------------------------------------------------ textual views

TEXT_IMPORTS = ("From Annet Require Import Base.Str Base.Tree Model.Rulebook Model.Diff Model.Order Model.Patch "
                "Model.DiffText Spec.P_C03Text.")
TEXT_TY = "(string * string) * list dnode * (option (list string) * list string * option (list string))"
TEXT_DEFS = """
Definition tcase := ((string * string) * list dnode * (option (list string) * list string * option (list string)))%type.
Definition t_vendor (c : tcase) := fst (fst (fst c)).
Definition t_indent (c : tcase) := snd (fst (fst c)).
Definition t_diff (c : tcase) := snd (fst c).
Definition t_confirm (c : tcase) := fst (fst (snd c)).
Definition t_pre (c : tcase) := snd (fst (snd c)).
Definition t_pre_resorted (c : tcase) := snd (snd c).
Definition with_fmt (c : tcase) (f : tfmt -> bool) : bool :=
  match vendor_tfmt (t_vendor c) (t_indent c) with Some F => f F | None => false end.
"""
TEXT_PREDS = {
    "agree_text_confirm": "fun c => with_fmt c (fun F => olines_eqb (diff_lines F (t_diff c)) (t_confirm c))",
    "agree_text_pre": "fun c => lines_eqb (pre_lines (t_indent c) 0 (make_pre (t_diff c))) (t_pre c)",
    "holds_text_confirm": "fun c => with_fmt c (fun F => confirm_ok F (t_diff c) (t_confirm c))",
    "holds_text_pre": "fun c => pre_ok (t_indent c) (t_diff c) (t_pre c)",
    "holds_text_pre_resorted": "fun c => match t_pre_resorted c with Some l => pre_ok (t_indent c) (t_diff c) l | None => true end",
}
TEXT_WHAT = {
    "text_confirm": "formatter.diff(d) read back by parse_signed does not give d's entries, signs and nesting",
    "text_pre": "gen_pre_as_diff(make_pre(d)) read back does not give, level by level, d's entries minus UNCHANGED",
    "text_pre_resorted": "gen_pre_as_diff(make_pre(resort_diff(d))) read back does not give d's entries level by level",
}
ALLV = sorted(P.VENDORS)
INDENTS = [" ", "  ", "  ", "    "]
TROWS = ["a", "b 1", "c d e", "}", "x {", "y;", "z/", "set 1", "if a then", "-q", "+p", "> r", "{", "e} f", "k ;"]
TOPS = ["added", "removed", "moved", "affected", "unchanged"]


def gen_direct_diff(rng, depth=0, max_depth=4, unchanged=True) -> list:
    """a diff built directly: all five ops, depth <= 4, delimiter-like rows, repeated (rule, key) slots"""
    out, seen = [], set()
    for _ in range(rng.choice([1, 2, 2, 3, 4]) if depth else rng.choice([1, 2, 3, 4, 5])):
        row = rng.choice(TROWS)
        op = rng.choice(TOPS if unchanged else TOPS[:4])
        if (row, op) in seen:
            continue
        seen.add((row, op))
        kids = gen_direct_diff(rng, depth + 1, max_depth, unchanged) if depth + 1 < max_depth and rng.random() < 0.45 else []
        out.append({"op": op, "row": row, "raw": rng.choice(["r1 *", "r2", "r3 ~"]), "key": rng.choice([[], ["1"], ["1", "x"]]),
                    "kids": kids})
    return out


def _has_unchanged(d) -> bool:
    return any(n["op"] == "unchanged" or _has_unchanged(n["kids"]) for n in d)


def _ddepth(d) -> int:
    return 0 if not d else 1 + max(_ddepth(n["kids"]) for n in d)


def text_stage(ctx, outs):
    rng = ctx.rng("text")
    tcases = []
    for i, o in enumerate(outs):
        if o.get("diff") and (ctx.thorough or i % 2 == 0 or i % 4 == 3):
            tcases.append({"src": "pipeline-stripped", "diff": o["diff"]})
        if o.get("diff_full") and i % 5 == 0:
            tcases.append({"src": "pipeline-full", "diff": o["diff_full"]})
    n_direct = 3000 if ctx.thorough else 300
    for k in range(n_direct):
        tcases.append({"src": "direct", "diff": gen_direct_diff(rng, unchanged=(k % 3 == 0))})
    for k, t in enumerate(tcases):
        t["vendor"] = ALLV[k % len(ALLV)]
        t["indent"] = INDENTS[(k // len(ALLV)) % len(INDENTS)]
    res_impl = core.run_impl_sharded("c03_runner.py", [{k: t[k] for k in ("vendor", "indent", "diff")} for t in tcases])
    fatal = [i for i, o in enumerate(res_impl) if "fatal" in o]
    for i in fatal[:1]:
        ctx.add_violation(core.Violation(signature="C03/text/implementation-raised",
                                         what="formatter.diff / make_pre / gen_pre_as_diff raised: " + res_impl[i]["fatal"][-300:],
                                         replay={"case": tcases[i], "impl": res_impl[i]}))
    keep = [i for i in range(len(tcases)) if i not in set(fatal)]

    terms = _text_terms([tcases[i] for i in keep], [res_impl[i] for i in keep])
    res = core.run_case_files(ctx.prop, "tcase", TEXT_IMPORTS, TEXT_PREDS, terms, per_file=120, tag="text",
                              extra_defs=TEXT_DEFS)
    res = {k: [keep[j] for j in v] for k, v in res.items()}
    any_holds = False
    for k in ("text_confirm", "text_pre", "text_pre_resorted"):
        bad = sorted(res["holds_" + k], key=lambda i: len(str(tcases[i]["diff"])))
        for i in bad[:1]:
            any_holds = True
            ctx.add_violation(core.Violation(signature=f"C03/{k}", what=TEXT_WHAT[k],
                                             replay={"case": tcases[i], "impl": res_impl[i], "clause": k}))
    if not any_holds:
        for k in ("text_confirm", "text_pre"):
            bad = sorted(res["agree_" + k], key=lambda i: len(str(tcases[i]["diff"])))
            for i in bad[:1]:
                ctx.add_violation(core.Violation(
                    signature=f"C03/model-impl-disagree/{k}",
                    what=f"Coq model of the textual view and the implementation differ on '{k}'; the read-back "
                         f"predicates hold on every real listing explored",
                    replay={"case": tcases[i], "impl": res_impl[i], "correspondence": k}, no_input=True))
    vh, ih, sh = {}, {}, {}
    for t in tcases:
        vh[t["vendor"]] = vh.get(t["vendor"], 0) + 1
        ih[repr(t["indent"])] = ih.get(repr(t["indent"]), 0) + 1
        sh[t["src"]] = sh.get(t["src"], 0) + 1
    ctx.coverage["text_views"] = {
        "cases": len(tcases), "validated_against_impl": len(keep), "source_histogram": sh, "vendor_histogram": vh,
        "indent_histogram": ih, "with_unchanged_entries": sum(1 for t in tcases if _has_unchanged(t["diff"])),
        "keyerror_cases": sum(1 for o in res_impl if o.get("confirm_err") == "KeyError"),
        "resort_errors": sum(1 for o in res_impl if "pre_resorted_err" in o),
        "max_depth": max((_ddepth(t["diff"]) for t in tcases), default=0),
        "lines_read_back": sum(len(o.get("confirm") or []) + len(o.get("pre") or []) for o in res_impl),
        "disagreements": sum(len(res[k]) for k in res if k.startswith("agree_")),
        "samples": [{"case": tcases[i], "impl": res_impl[i]} for i in keep[:1]],
    }
    ctx.coverage["evaluations"] = ctx.coverage.get("evaluations", 0) + len(tcases)
    ctx.coverage["traces_validated_against_impl"] = ctx.coverage.get("traces_validated_against_impl", 0) + len(keep)
    ctx.coverage["disagreements_checked"] = ctx.coverage.get("disagreements_checked", 0) + ctx.coverage["text_views"]["disagreements"]


IMPORTS = P.PIPE_IMPORTS + "\nFrom Annet Require Import Spec.P_C03."
CASE_KEYS = ("vendor", "patching", "ordering", "old", "new")
# one pass over all cases: model = implementation, and the whole predicate on the implementation's output
PASS1 = {
    "agree": "fun c => let d := p_make_diff (pc_rules c) (pc_old c) (pc_new c) in diff_eqb d (pc_diff_full c) && "
             "match pc_patch c with None => true | Some _ => diff_eqb (strip_unchanged d) (pc_diff c) end",
    "holds": "fun c => P_C03 pm (pc_rules c, pc_old c, pc_new c) (pc_diff_full c) && "
             "(has_rewrite (pc_rules c) || P_C03_proj pm (pc_rules c, pc_old c, pc_new c) (pc_diff_full c)) && "
             "match pc_patch c with None => true | Some _ => diff_eqb (strip_unchanged (pc_diff_full c)) (pc_diff c) end",
}
AGREE2 = {
    "agree_diff_full": "fun c => diff_eqb (p_make_diff (pc_rules c) (pc_old c) (pc_new c)) (pc_diff_full c)",
    "agree_diff": "fun c => match pc_patch c with None => true | Some _ => diff_eqb (strip_unchanged (p_make_diff "
                  "(pc_rules c) (pc_old c) (pc_new c))) (pc_diff c) end",
}


def slim_pcase(c: dict, o: dict) -> str:
    """PCase with only what C03 looks at: the two diffs and whether a patch was produced"""
    o2 = {"diff_full": o.get("diff_full", []), "diff": o.get("diff", []), "patch": [], "cmd_paths": [], "patch_lines": []}
    if o.get("err") == "AssertionError":
        o2["err"] = "AssertionError"
    return P.coq_pcase(c, o2)


def case_size(c: dict) -> int:
    return len(str(c["old"])) + len(str(c["new"])) + len(c["patching"])


def pipeline_stage(ctx, n: int):
    """make_diff / _diff_and_patch on the shared pipeline stream (3 of 4 cases) and the reorder stream (every
    4th case); Coq evaluates agreement with the model and P_C03 on the real outputs."""
    rng, rrng = ctx.rng("pipeline"), ctx.rng("reorder")     # the shared stream is the one C01/C08/C16 draw from
    cases = []
    while len(cases) < n:
        i = len(cases)
        c = P.gen_case(rng)
        if i % 4 == 3:
            c = gen_reorder_case(rrng)
            if i % 24 == 3:
                c = dict(c, new=c["old"])
        elif i % 6 == 0:
            c = dict(c, new=c["old"])
        cases.append(c)
    outs = core.run_impl_sharded("pipeline_runner.py", [P.impl_payload(c) for c in cases])

    def rep(i):
        r = {"case": {k: cases[i][k] for k in CASE_KEYS}, "impl": outs[i],
             "structured": {"rules": cases[i]["rules"], "orules": cases[i]["orules"]}}
        if cases[i].get("tags"):
            r["generator_tags"] = cases[i]["tags"]
        return r

    fatal = [i for i, o in enumerate(outs) if "fatal" in o or "diff_full_err" in o or
             ("err" in o and o["err"] != "AssertionError")]
    for i in fatal[:1]:
        ctx.add_violation(core.Violation(
            signature="C03/implementation-raised",
            what="the real pipeline raised an unexpected exception: " +
                 str(outs[i].get("fatal") or outs[i].get("err") or outs[i].get("diff_full_err"))[:300],
            replay=rep(i)))
    keep = [i for i in range(len(cases)) if i not in set(fatal)]
    terms = [slim_pcase(cases[i], outs[i]) for i in keep]
    res = core.run_case_files(ctx.prop, "pcase", IMPORTS, PASS1, terms, per_file=40)
    bad_holds = sorted((keep[j] for j in res["holds"]), key=lambda i: case_size(cases[i]))
    bad_agree = sorted((keep[j] for j in res["agree"]), key=lambda i: case_size(cases[i]))
    if bad_holds:
        # name the clause(s), smallest failing cases first
        sel = bad_holds[:60]
        res2 = core.run_case_files(ctx.prop, "pcase", IMPORTS, {f"holds_{k}": v for k, v in HOLDS.items()},
                                   [slim_pcase(cases[i], outs[i]) for i in sel], per_file=20, tag="clauses")
        for k in HOLDS:
            idx = [sel[j] for j in res2[f"holds_{k}"]]
            if idx:
                ctx.add_violation(core.Violation(signature=f"C03/{k}", what=WHAT[k],
                                                 replay=dict(rep(idx[0]), clause=k, failing_cases=len(bad_holds))))
    elif bad_agree:
        sel = bad_agree[:40]
        res2 = core.run_case_files(ctx.prop, "pcase", IMPORTS, AGREE2,
                                   [slim_pcase(cases[i], outs[i]) for i in sel], per_file=20, tag="clauses")
        for a in ("diff_full", "diff"):
            idx = [sel[j] for j in res2[f"agree_{a}"]]
            if idx:
                ctx.add_violation(core.Violation(
                    signature=f"C03/model-impl-disagree/{a}",
                    what=f"Coq model and implementation differ on '{a}' (correspondence broken); the property "
                         f"clauses hold on every implementation output explored",
                    replay=dict(rep(idx[0]), correspondence=a, disagreeing_cases=len(bad_agree)), no_input=True))
    seen, nt = set(), 0
    for i in keep:
        h = core.canon_hash([cases[i][k] for k in CASE_KEYS])
        if h in seen:
            continue
        seen.add(h)
        if len(P.diff_ops(outs[i].get("diff_full", [])) - {"unchanged"}) >= 2 and P.tree_depth(cases[i]["new"]) >= 2:
            nt += 1
    vend: dict = {}
    for c in cases:
        vend[c["vendor"]] = vend.get(c["vendor"], 0) + 1
    ctx.coverage.update({
        "evaluations": len(cases),
        "distinct_nontrivial": nt,
        "rule": "3 of 4 cases: the shared pipeline stream (random structured rulebooks, nesting<=4, *, ~, */re/, %global, "
                "%ordered, %rewrite, %parent, logics; old drawn from the rules, new = mutation of old; every 6th "
                "case new = old); every 4th case: a separately seeded stream of reorderings of the rows of one "
                "%ordered/%rewrite rule at config depth 1-3 (see reorder_stream); distinct by (vendor, rulebooks, "
                "old, new); non-trivial = the real diff holds >= 2 different ops other than unchanged and new has "
                "depth >= 2; textual views: see text_views",
        "samples": [rep(i) for i in keep[:2]],
        "traces_validated_against_impl": len(keep),
        "disagreements_checked": len(bad_agree),
        "assertion_error_cases": sum(1 for o in outs if o.get("err") == "AssertionError"),
        "vendor_histogram": vend,
        "max_tree_depth": max((P.tree_depth(c["old"]) for c in cases), default=0),
        "reorder_stream": reorder_histogram(cases),
    })
    ctx.assumptions += [
        "rule patterns restricted to the plain rule language of Model/Pattern.v (C07)",
        "not modelled: %comment/add_comments, vendor %logic/%diff_logic functions; %ignore_case / %multiline are modelled "
        "on the domain xdom of Spec/P_C03X.v (x_stream)",
        "textual views: colours and show_rules comment lines of gen_pre_as_diff are switched off; resort_diff is "
        "modelled as the stable sort by diff_cmp where diff_cmp is a weak order on every level (resort)",
    ]
    return cases, outs


# ------------------------------------------------------------------ C03X: %ignore_case and %multiline

X_IMPORTS = IMPORTS + "\nFrom Annet Require Import Model.DiffX Spec.P_C03X Spec.P_C03ML."
X_TY = "(pcase * list (string * (bool * bool)))%type"
_XAO = "(annot_f pm (pc_rules (fst c)) (pc_old (fst c)))"
_XAN = "(annot_f pm (pc_rules (fst c)) (pc_new (fst c)))"
_XFL = "(fl_of (snd c))"
X_PREDS = {
    "indom": f"fun c => xdom {_XFL} {_XAO} {_XAN}",
    "agree": f"fun c => negb (xdom {_XFL} {_XAO} {_XAN}) || diff_eqb (make_diffXM {_XFL} pm (pc_rules (fst c)) "
             f"(pc_old (fst c)) (pc_new (fst c))) (pc_diff_full (fst c))",
    "holds": f"fun c => P_C03X {_XFL} pm (pc_rules (fst c), pc_old (fst c), pc_new (fst c)) (pc_diff_full (fst c))",
    # the multiline law at EVERY depth of the real output (proved of the model: C03X_multiline_every_depth)
    "holds_deep": f"fun c => negb (xdom {_XFL} {_XAO} {_XAN}) || ml_ok {_XFL} (normO {_XFL} {_XAO} {_XAN}) "
                  f"(normN {_XFL} {_XAO} {_XAN}) (pc_diff_full (fst c))",
    # conservativity on real outputs: without flags the extended model is the old one
    "same_as_base": f"fun c => negb (is_nil (snd c)) || diff_eqb (make_diffXM {_XFL} pm (pc_rules (fst c)) (pc_old (fst c)) "
                    f"(pc_new (fst c))) (p_make_diff (pc_rules (fst c)) (pc_old (fst c)) (pc_new (fst c)))",
}
X_RAISED = {
    # signature of the known finding: a row of an %ignore_case rule spelled differently on the two sides and
    # having known children (or governed by different rules) -- outside [respell_ok]
    "respell_ok": f"fun c => respell_ok {_XFL} {_XAO} (AT {_XAN})",
    "no_ic_ml": f"fun c => no_ic_ml_t {_XFL} (AT {_XAO}) && no_ic_ml_t {_XFL} (AT {_XAN})",
    "nocollide": f"fun c => awfb (normO {_XFL} {_XAO} {_XAN}) && awfb (normN {_XFL} {_XAO} {_XAN})",
    "ml_rw_ok": f"fun c => ml_rw_ok_t {_XFL} false (AT {_XAO}) && ml_rw_ok_t {_XFL} false (AT {_XAN})",
}
XWORDS = ["a", "A", "b", "Eth1", "ETH1", "eth1", "lo0", "Lo0", "x", "X", "10.0.0.1", "7"]
BODY = ["l1", "l2 x", "ssh-rsa AAA", "BBB", "end", "L1"]


def _recase(rng, row: str) -> str:
    f = rng.choice([str.lower, str.upper, str.capitalize, lambda w: w, lambda w: w])
    return " ".join(f(w) for w in row.split())


def _x_rules(rng, kind: str) -> list[dict]:
    rules: list[dict] = []
    ic_on = kind in ("ic", "both")
    ml_on = kind in ("ml", "both")

    def icr(pat, **kw):
        r = _rule(pat, **kw)
        if ic_on and rng.random() < 0.75:
            r["ic"] = True
            r["icform"] = "inline" if rng.random() < 0.25 else "param"
        return r

    rules.append(icr(rng.choice(["desc *", "Desc *", "desc ~"]), mode=rng.choice(["", "", "", "ordered", "rewrite"])))
    if rng.random() < 0.7:
        rules.append(_rule("mtu *"))
    if rng.random() < 0.5:
        rules.append(icr("peer * *", mode=rng.choice(["", "ordered"])))
    blk_kids = [icr("set *"), _rule("opt *")]
    if ml_on and rng.random() < 0.5:
        blk_kids.append(dict(_rule("key *", kids=[_rule("~")] if rng.random() < 0.8 else []), ml=True))
    if rng.random() < 0.4:
        blk_kids.append(icr("if *", kids=[icr("set *")], mode=rng.choice(["", "ordered", "rewrite"])))
    blk = _rule("blk *", kids=blk_kids, mode=rng.choice(["", "", "ordered", "rewrite"]))
    if ic_on and rng.random() < 0.25:
        blk["ic"] = True
    rules.append(blk)
    if ml_on:
        m = _rule(rng.choice(["key *", "rsa key *"]), ml=True)
        x = rng.random()
        if x < 0.6:
            m["kids"] = [_rule("~")]
        elif x < 0.8:
            m["kids"] = [_rule("l1"), _rule("l2 *"), _rule("ssh-rsa *")]
        if rng.random() < 0.15:
            m["mode"] = rng.choice(["ordered", "rewrite"])          # then %multiline has no effect on the diff
        if ic_on and rng.random() < 0.08:
            m["ic"] = True                                          # outside the domain
        rules.append(m)
    rng.shuffle(rules)
    if ml_on and rng.random() < 0.35:
        rules.append(_rule("~", glob=True))                        # the shipped catch-all: ~ %global
    return rules


def _x_body(rng, depth=0) -> dict:
    t: dict = {}
    for _ in range(rng.choice([0, 1, 2, 3, 3])):
        row = rng.choice(BODY)
        if row not in t:
            t[row] = _x_body(rng, depth + 1) if depth < 2 and rng.random() < 0.25 else {}
    return t


def _x_config(rng, rules: list[dict], depth=0) -> dict:
    t: dict = {}
    for r in rules:
        if r["pat"] == "~" or rng.random() < 0.25:
            continue
        for _ in range(rng.choice([1, 1, 2, 3])):
            ws = []
            for tok in r["pat"].split():
                ws += [rng.choice(XWORDS)] if tok == "*" else rng.sample(XWORDS, rng.randint(1, 2)) if tok == "~" else [tok]
            row = " ".join(ws)
            if r.get("ic") and rng.random() < 0.5:
                row = _recase(rng, row)
            if row in t:
                continue
            if r.get("ml"):
                t[row] = _x_body(rng)
            elif r["kids"] and rng.random() < 0.8:
                t[row] = _x_config(rng, r["kids"], depth + 1)
            else:
                t[row] = {}
    items = list(t.items())
    rng.shuffle(items)
    return dict(items)


def _x_mutate(rng, t: dict, rules: list[dict], tags: dict) -> dict:
    out = []
    for row, kids in t.items():
        r = P.rule_for(row.lower(), [dict(q, pat=q["pat"].lower()) for q in rules])
        r = None if r is None else next(q for q in rules if q["pat"].lower() == r["pat"])
        x = rng.random()
        if x < 0.12:
            continue
        nrow, nk = row, kids
        if r is not None and r.get("ic") and x < 0.5:
            nrow = _recase(rng, row)
            if nrow != row:
                tags["respelled"] = tags.get("respelled", 0) + 1
                if kids:
                    tags["respelled_block"] = tags.get("respelled_block", 0) + 1
        if r is not None and r.get("ml"):
            y = rng.random()
            items = list(kids.items())
            if y < 0.25 and len(items) > 1:
                rng.shuffle(items)
                nk = dict(items)
                tags["ml_body_reordered"] = tags.get("ml_body_reordered", 0) + 1
            elif y < 0.45:
                nk = _x_body(rng)
            elif y < 0.55:
                nk = {}
            else:
                nk = _deepcopy(kids)
        elif r is not None and kids:
            nk = _x_mutate(rng, kids, r["kids"], tags) if rng.random() < 0.7 else _deepcopy(kids)
        out.append((nrow, nk))
    extra = _x_config(rng, rules)
    for k, v in extra.items():
        if rng.random() < 0.3:
            out.insert(rng.randrange(len(out) + 1), (k, v))
    if rng.random() < 0.25:
        rng.shuffle(out)
    res: dict = {}
    for k, v in out:
        res.setdefault(k, v)
    return res


def gen_x_case(rng) -> dict:
    kind = rng.choice(["ic", "ic", "ml", "ml", "both", "none"])
    rules = _x_rules(rng, kind)
    old = _x_config(rng, rules)
    tags = {"kind": kind}
    new = _x_mutate(rng, old, rules, tags)
    if rng.random() < 0.08:
        new = _deepcopy(old)
        tags["same"] = 1
    return {"vendor": rng.choice(P.BLOCK_VENDORS), "rules": rules, "orules": [], "old": old, "new": new,
            "patching": P.rules_text(rules), "ordering": "", "stream": "x", "tags": tags}


def _x_term(c: dict, o: dict) -> str:
    return cpair(slim_pcase(c, o), P.coq_flags(c["rules"]))


def _has_ml_entry(d, mlraws) -> bool:
    return any(n["raw"] in mlraws or _has_ml_entry(n["kids"], mlraws) for n in d)


def x_stage(ctx, n: int):
    """%ignore_case / %multiline: the extended model make_diffXM against the real make_diff on its domain [xdom],
    P_C03X on the real outputs; cases on which the real make_diff raises are classified by Coq."""
    rng = ctx.rng("c03x")
    cases = [gen_x_case(rng) for _ in range(n)]
    outs = core.run_impl_sharded("pipeline_runner.py", [P.impl_payload(c) for c in cases])

    def rep(i):
        return {"case": {k: cases[i][k] for k in CASE_KEYS}, "impl": outs[i],
                "structured": {"rules": cases[i]["rules"], "orules": []}, "generator_tags": cases[i]["tags"], "stream": "x"}

    raised = [i for i, o in enumerate(outs) if "fatal" in o or "diff_full_err" in o]
    keep = [i for i in range(len(cases)) if i not in set(raised)]
    res = core.run_case_files(ctx.prop, X_TY, X_IMPORTS, X_PREDS, [_x_term(cases[i], outs[i]) for i in keep],
                              per_file=40, tag="x")
    res = {k: [keep[j] for j in v] for k, v in res.items()}
    for i in sorted(res["holds"], key=lambda i: case_size(cases[i]))[:1]:
        ctx.add_violation(core.Violation(
            signature="C03/x/lossless-modulo-case",
            what="with %ignore_case / %multiline rules the real diff is not a lossless description of the normalised "
                 "(lower-cased) configurations, or a multiline block is not shown whole / shown although unchanged",
            replay=dict(rep(i), clause="P_C03X")))
    if not res["holds"]:
        for i in sorted(res["holds_deep"], key=lambda i: case_size(cases[i]))[:1]:
            ctx.add_violation(core.Violation(
                signature="C03/x/multiline-law-below-top-level",
                what="below the top level of the real diff a row of a %multiline rule is not shown exactly once with "
                     "its whole body when its bodies differ, or is shown although they are equal (Spec/P_C03ML.v ml_ok)",
                replay=dict(rep(i), clause="ml_ok")))
    if not res["holds"] and not res["holds_deep"]:
        for k in ("agree", "same_as_base"):
            for i in sorted(res[k], key=lambda i: case_size(cases[i]))[:1]:
                ctx.add_violation(core.Violation(
                    signature=f"C03/model-impl-disagree/x-{k}",
                    what="the extended Coq model (Model/DiffX.v) and the real make_diff differ on a case inside the "
                         "model's domain; P_C03X holds on every real output explored",
                    replay=dict(rep(i), correspondence=k, disagreeing_cases=len(res[k])), no_input=True))
    # the real make_diff raised: Coq says whether the case is the known class (respelled block / ic+multiline)
    known_raise = 0
    seen_cls: set = set()
    if raised:
        r2 = core.run_case_files(ctx.prop, X_TY, X_IMPORTS, X_RAISED,
                                 [_x_term(cases[i], {"diff_full": []}) for i in raised], per_file=40, tag="xraised")
        for j, i in enumerate(raised):
            err = outs[i].get("diff_full_err") or "fatal"
            if err == "KeyError" and j in r2["respell_ok"]:
                known_raise += 1
                if known_raise == 1:
                    ctx.add_violation(core.Violation(
                        signature="C03/x/ignore_case-respelled-block-raises-KeyError",
                        what="make_diff raises KeyError when a row of an %ignore_case rule is spelled differently in old "
                             "and new and has children the rulebook knows",
                        replay=rep(i)))
            elif err == "KeyError" and j in r2["nocollide"]:
                known_raise += 1
                if "coll" not in seen_cls:
                    seen_cls.add("coll")
                    ctx.add_violation(core.Violation(
                        signature="C03/x/ignore_case-colliding-blocks-raise-KeyError",
                        what="make_diff raises KeyError when two rows of a side differ only in case, are governed by an "
                             "%ignore_case rule and have children the rulebook knows",
                        replay=rep(i)))
            elif err == "KeyError" and j in r2["no_ic_ml"]:
                known_raise += 1
                if "icml" not in seen_cls:
                    seen_cls.add("icml")
                    ctx.add_violation(core.Violation(
                        signature="C03/x/ignore_case-with-multiline-raises-KeyError",
                        what="make_diff raises KeyError for a row of a rule that is both %ignore_case and %multiline "
                             "(multiline_diff looks the lower-cased row up in the dictionaries that were not re-keyed)",
                        replay=rep(i)))
            elif err == "AttributeError" and j in r2["ml_rw_ok"]:
                known_raise += 1
                if "mlrw" not in seen_cls:
                    seen_cls.add("mlrw")
                    ctx.add_violation(core.Violation(
                        signature="C03/x/multiline-inside-rewrite-raises-AttributeError",
                        what="make_diff raises AttributeError when a %multiline block that differs sits at or below a row of "
                             "a %rewrite rule (rewrite_diff reads .op of the body's plain tuples)",
                        replay=rep(i)))
            else:
                ctx.add_violation(core.Violation(
                    signature="C03/x/implementation-raised",
                    what="the real make_diff raised an unexpected exception: " + str(outs[i].get("fatal") or outs[i].get("err") or err)[:300],
                    replay=rep(i)))
                break
    kinds: dict = {}
    tagsum: dict = {}
    for c in cases:
        kinds[c["tags"]["kind"]] = kinds.get(c["tags"]["kind"], 0) + 1
        for k, v in c["tags"].items():
            if k != "kind":
                tagsum[k] = tagsum.get(k, 0) + (1 if v else 0)
    mlraws = [{P.raw_rule(r) for r in _all_rules(c["rules"]) if r.get("ml")} for c in cases]
    ctx.coverage["x_stream"] = {
        "cases": len(cases), "validated_against_impl": len(keep), "inside_domain": len(keep) - len(res["indom"]),
        "outside_domain": len(res["indom"]), "implementation_raised": len(raised), "raised_known_class": known_raise,
        "kind_histogram": kinds, "cases_with": tagsum,
        "real_diffs_with_multiline_entry": sum(1 for i in keep if _has_ml_entry(outs[i].get("diff_full", []), mlraws[i])),
        "real_diffs_with_lowered_row": sum(1 for i in keep if _lowered(cases[i], outs[i])),
        "disagreements": len(res["agree"]) + len(res["same_as_base"]),
        "samples": [rep(i) for i in keep[:1]],
    }
    ctx.coverage["evaluations"] = ctx.coverage.get("evaluations", 0) + len(cases)
    ctx.coverage["traces_validated_against_impl"] = ctx.coverage.get("traces_validated_against_impl", 0) + len(keep)
    ctx.coverage["disagreements_checked"] = ctx.coverage.get("disagreements_checked", 0) + ctx.coverage["x_stream"]["disagreements"]


def _all_rules(rules):
    for r in rules:
        yield r
        yield from _all_rules(r["kids"])


def _rows_of(t: dict, acc: set):
    for k, v in t.items():
        acc.add(k)
        _rows_of(v, acc)
    return acc


def _lowered(c, o) -> bool:
    """the real diff shows a row in a spelling that occurs in neither configuration"""
    have = _rows_of(c["old"], set()) | _rows_of(c["new"], set())

    def walk(d):
        return any(n["row"] not in have or walk(n["kids"]) for n in d)
    return walk(o.get("diff_full", []))


# ------------------------------------------------------------------ resort_diff's order

SORT_IMPORTS = ("From Annet Require Import Base.Str Base.Tree Model.Rulebook Model.Diff Model.Order Model.DiffSort Spec.P_C03Sort.")
SORT_TY = "(list dnode * list dnode)%type"
SORT_PREDS = {
    "guard": "fun c => forallb sort_modelled_n (fst c) && wo_all (fst c)",
    "agree": "fun c => negb (forallb sort_modelled_n (fst c) && wo_all (fst c)) || diff_eqb (resort (fst c)) (snd c)",
    "holds": "fun c => lvlperm (fst c) (snd c) && (negb (forallb sort_modelled_n (fst c) && wo_all (fst c)) || sorted_all (snd c))",
    # with NO order hypothesis: no entry is immediately followed by a strictly smaller one, at every depth
    # (C03X_resort_no_adjacent_descent for the model; any insertion by an antisymmetric comparison has it)
    "adjacent": "fun c => negb (forallb sort_modelled_n (fst c)) || adj_all (snd c)",
}
SW0 = ["peer", "rule", "a", "10", "2", "10.0.0.1", "10.0.0.2/24", "maximum"]
SW1 = ["1", "2", "10", "x", "y", "10.0.0.1", "10.0.0.9", "1_0", "+3", "-4", "10.0.0.0/8", ""]


def gen_sort_diff(rng, depth=0) -> list:
    out, seen = [], set()
    one_op = rng.random() < 0.15
    op0 = rng.choice(TOPS[:4])
    for _ in range(rng.choice([2, 3, 3, 4, 5, 6])):
        row = " ".join([rng.choice(SW0), rng.choice(SW1)] + ([rng.choice(SW1)] if rng.random() < 0.3 else []))
        op = op0 if one_op else rng.choice(TOPS[:4])
        if (row, op) in seen:
            continue
        seen.add((row, op))
        kids = gen_sort_diff(rng, depth + 1) if depth < 2 and rng.random() < 0.25 else []
        out.append({"op": op, "row": row, "raw": "r *", "key": [], "kids": kids})
    return out


def sort_stage(ctx, n: int):
    rng = ctx.rng("resort")
    ds = [gen_sort_diff(rng) for _ in range(n)]
    outs = core.run_impl_sharded("c03_runner.py", [{"vendor": "huawei", "indent": "  ", "diff": d, "want_resorted": True} for d in ds])
    keep = [i for i, o in enumerate(outs) if "resorted" in o]
    res = core.run_case_files(ctx.prop, SORT_TY, SORT_IMPORTS, SORT_PREDS,
                              [cpair(P.coq_diff(ds[i]), P.coq_diff(outs[i]["resorted"])) for i in keep], per_file=100, tag="sort")
    res = {k: [keep[j] for j in v] for k, v in res.items()}
    for i in res["holds"][:1]:
        ctx.add_violation(core.Violation(
            signature="C03/x/resort-not-a-sorted-permutation",
            what="resort_diff's output is not a per-level permutation of its input, or not sorted by diff_cmp on a level "
                 "where diff_cmp is a weak order",
            replay={"case": {"vendor": "huawei", "indent": "  ", "diff": ds[i], "want_resorted": True}, "impl": outs[i]}))
    for i in ([] if res["holds"] else res["adjacent"][:1]):
        ctx.add_violation(core.Violation(
            signature="C03/x/resort-adjacent-descent",
            what="resort_diff's output has an entry immediately followed by one that diff_cmp puts strictly before it",
            replay={"case": {"vendor": "huawei", "indent": "  ", "diff": ds[i], "want_resorted": True}, "impl": outs[i]}))
    if not res["holds"]:
        for i in res["agree"][:1]:
            ctx.add_violation(core.Violation(
                signature="C03/model-impl-disagree/resort",
                what="Coq model of resort_diff (stable sort by diff_cmp) and the implementation differ on a diff where "
                     "diff_cmp is a weak order on every level",
                replay={"case": {"vendor": "huawei", "indent": "  ", "diff": ds[i], "want_resorted": True}, "impl": outs[i]},
                no_input=True))
    ctx.coverage["resort"] = {
        "cases": len(ds), "validated_against_impl": len(keep),
        "weak_order_on_every_level": len(keep) - len(res["guard"]), "not_a_weak_order_or_unmodelled_word": len(res["guard"]),
        "reordered_by_impl": sum(1 for i in keep if [n["row"] for n in outs[i]["resorted"]] != [n["row"] for n in ds[i]]),
        "disagreements": len(res["agree"]),
    }
    ctx.coverage["evaluations"] = ctx.coverage.get("evaluations", 0) + len(ds)
    ctx.coverage["traces_validated_against_impl"] = ctx.coverage.get("traces_validated_against_impl", 0) + len(keep)


def run(ctx):
    core.proof_stage(ctx, THEOREM_FILE)
    cases, outs = pipeline_stage(ctx, 12000 if ctx.thorough else 1200)
    text_stage(ctx, outs)
    x_stage(ctx, 4000 if ctx.thorough else 240)
    sort_stage(ctx, 6000 if ctx.thorough else 300)


def _text_terms(tcases, res_impl):
    def olines(x):
        return core.copt(None if x is None else clist(cstr(l) for l in x))
    return [cpair(cpair(cpair(cstr(t["vendor"]), cstr(t["indent"])), P.coq_diff(t["diff"])),
                  cpair(cpair(olines(o["confirm"]), clist(cstr(l) for l in o["pre"])), olines(o.get("pre_resorted"))))
            for t, o in zip(tcases, res_impl)]


def replay(ctx, doc):
    """Re-run the stored failing input against the current implementation and let Coq evaluate the clauses
    again; exit status 1 while some clause is still false on the implementation's output."""
    r = doc["replay"]
    case = r.get("case")
    if not case:
        print("replay: no concrete input stored (%s)" % doc.get("signature"))
        return 1
    if case.get("want_resorted"):                    # resort_diff's order
        o = core.run_impl("c03_runner.py", [case])[0]
        if "resorted" not in o:
            print("replay: the implementation raised:", json.dumps(o)[-300:])
            return 1
        res = core.run_case_files(ctx.prop, SORT_TY, SORT_IMPORTS,
                                  {"holds_" + k: v for k, v in SORT_PREDS.items() if k in ("holds", "adjacent")} |
                                  {"agree": SORT_PREDS["agree"]},
                                  [cpair(P.coq_diff(case["diff"]), P.coq_diff(o["resorted"]))], tag="replay")
    elif "diff" in case and "indent" in case:        # textual views
        o = core.run_impl("c03_runner.py", [{k: case[k] for k in ("vendor", "indent", "diff")}])[0]
        res = core.run_case_files(ctx.prop, "tcase", TEXT_IMPORTS, TEXT_PREDS, _text_terms([case], [o]),
                                  tag="replay", extra_defs=TEXT_DEFS)
    else:
        st = r.get("structured")
        if not st:
            print("replay: the stored case has no structured rulebook; re-run ./check C03 with VERIF_SEED=%s" % doc.get("seed"))
            return 1
        c = dict(case, rules=st["rules"], orules=st["orules"])
        o = core.run_impl("pipeline_runner.py", [P.impl_payload(c)])[0]
        if "fatal" in o or "diff_full_err" in o:
            print("replay: the implementation raised:", str(o.get("fatal") or o.get("diff_full_err"))[-300:])
            return 1
        if r.get("stream") == "x":                   # %ignore_case / %multiline: the extended predicates
            preds = {"holds_P_C03X": X_PREDS["holds"], "holds_ml_ok": X_PREDS["holds_deep"], "agree": X_PREDS["agree"]}
            res = core.run_case_files(ctx.prop, X_TY, X_IMPORTS, preds, [_x_term(c, o)], tag="replay")
        else:
            preds = {f"holds_{k}": v for k, v in HOLDS.items()}
            preds.update(AGREE2)
            res = core.run_case_files(ctx.prop, "pcase", IMPORTS, preds, [slim_pcase(c, o)], tag="replay")
    bad = sorted(k for k, v in res.items() if v)
    print("replay %s: implementation output %s" % (doc.get("signature"), json.dumps(o)[:600]))
    print("replay: false on the current implementation:", ", ".join(bad) if bad else "nothing (all clauses hold, model agrees)")
    return 1 if any(k.startswith("holds_") for k in bad) else 0
