"""C11 — VLAN-list commands change exactly the VLANs that differ (DESIGN §3.C11)."""
from __future__ import annotations

import itertools
import json
import re
import time

from .. import core
from ..core import cstr, clist, cpair, cN, cbool, copt

ID = "C11"
THEOREM_FILE = "Properties/C11.v"
IMPORTS = "From Annet Require Import Base.Str Model.Vlan Model.VlanDb Model.VlanCisco Spec.P_C11."
TY = "case"
META = {
    "text": "Proof: for every VLAN set (Python set = AVL set over N) expand(collapse(S)) = S for both range "
            "syntaxes, tiny_ranges on/off and every chunk length; for the models of huawei single/multi/multi_all "
            "and cisco simple/swtrunk, for all old/new lists written as ranges split over any number of config lines "
            "(lines of the old list pairwise disjoint), every permutation of the emitted add/remove commands turns "
            "S_old into exactly S_new and every prefix keeps S_old & S_new. Huawei global VLAN database (`vlan batch` "
            "wrapped over any number of lines + `vlan N` blocks with or without option rows; model of vlan_diff over "
            "default_diff, mark_unchanged, multi, common.default): with S = batch lines + block ids, for every split of "
            "the sets between batch lines and blocks, every permutation of the emitted `vlan batch` / `undo vlan batch` / "
            "`vlan N` / `undo vlan N` commands turns S_old into S_new and no prefix drops a VLAN of S_old & S_new "
            "(C11_db_final, C11_db_no_transient_loss), under the guard that a VLAN with a block in the new configuration "
            "which was in the old batch is still in the new batch; without the guard the shipped code is refuted by a Coq "
            "witness replayed on the real code (C11_db_block_leaves_batch_refuted, known finding). Cisco/Nexus global `vlan` "
            "rule with blocks (list rows and `vlan N` blocks in one slot of cisco.vlandb.simple, Catalyst and non-Catalyst): "
            "the same two statements (C11_cisco_blocks_final, C11_cisco_blocks_no_transient_loss) under the guard that in "
            "the old configuration a VLAN is written on one row; for the Nexus shape (VLAN in the list row and as a block) "
            "refuted by a witness replayed on the real code (C11_cisco_block_removed_refuted, known finding). The shipped-before-fix "
            "huawei multi_all/single shortcut is refuted by a Coq witness (undo ... vlan all while other lines stay). "
            "Correspondence: Coq evaluates model==implementation (rows up to order, rows inside a `vlan N` patch block "
            "included) and the predicates on the rows really emitted by annet.api._diff_and_patch over the shipped "
            "huawei/cisco/nexus rulebooks.",
    "technique": "Coq induction over sorted element lists / command lists, MSet decision procedure; vm_compute "
                 "differential check on real patch rows parsed back into set effects by Coq",
    "note": "Theorems are stated over structured inputs (lines = range lists, blocks = id + option rows) AND over the "
            "text: the tie between the two levels is proved, not sampled. For every rule whose texts satisfy the "
            "computable rule_text_ok (true of all shipped rule kinds, Example C11_shipped_rule_texts_ok) and every input "
            "of wf_C11: print/parse round trips of range lists (` to ` words and `a-b,c` word, any list), annet's "
            "expanders and _parse_vlancfg on printed lines return the rule prefix and the set of the line, the device "
            "reader of command rows inverts the command printer on every emittable command, and the text-level model "
            "(row diff by text, _parse_vlancfg_actions, _process_vlandb, command printing with the parsed prefixes) "
            "equals the structured model composed with the printers (C11_struct_is_text; likewise C11_db_struct_is_text "
            "for vlan_diff's batch_new over every `vlan batch` row and the split of top-level rows, and "
            "C11_cisco_struct_is_text for the row diff by text and block ids read from parsed sets). Hence C11_rows_final / "
            "C11_rows_no_transient_loss / C11_db_rows_* / C11_cisco_rows_* quantify over configuration ROWS in the "
            "printer's range (rows_wf = read, print again, same rows), any permutation of the emitted ROWS, with S_old / "
            "S_new = what annet itself parses from the rows (C11_rows_set_is_parsed); P_C11 / P_C11_db / P_C11_cdb are "
            "proved true of the text-level models' own output (C11_rows_holds, ...). struct_is_text* is still evaluated on "
            "every case (now a regression test of the proved statement). The tie of the text-level models to /repo is the "
            "correspondence run (agree, holds evaluated by Coq on every case; for the VLAN database Coq reads the "
            "structured input back from the very rows given to the implementation, parse_db, proved to invert print_db). "
            "The check drives annet.api._diff_and_patch (device mode); file mode (_read_old_new_diff_patch) has been "
            "repaired (C16) and builds the patch the same way, make_pre over the unstripped diff, so unchanged rows reach "
            "the rule logics in either mode. Device semantics of the commands (vlan batch / undo vlan batch / vlan N / "
            "undo vlan N / undo ... all / none) are definitions of the property (Model.Vlan.step, Model.VlanDb.effect), "
            "supported by sanity theorems: frame, idempotence, a command and its inverse, commutation of commands naming "
            "disjoint VLAN sets (any order for pairwise disjoint lists), `undo ... all` = removal of the whole current set "
            "however written, replace = clear then add, block enter / undo vlan N inverse. "
            "Option rows inside a huawei `vlan N` block: `name`, `description` and catch-all rows, no `undo ...` rows "
            "(model restriction, unchanged). Same option rows (negation `no`) inside a cisco/nexus `vlan N` block; a "
            "many-VLAN row with child rows is outside the model; the cisco block model is now proved total inside wf_cdb "
            "(C11_cisco_blocks_total). A cisco block row without option rows prints like `vlan N` and is read back as "
            "the batch add of N (same effect): the cisco rows theorems are stated through effects. Not modelled: "
            "the per-line keyed huawei `vlan pool * / vlan *` rule. Trusted: Coq kernel + VM, harness "
            "generators/printers/runner.",
}

# the rule kinds of the shipped rulebooks that hold a VLAN list
KINDS = {
    "hw_trunk": dict(hw="Huawei CE6870", block="interface GE1/0/1", logic="HwMultiAll",
                     prefix="port trunk allow-pass vlan", reverse="undo port trunk allow-pass vlan", catalyst=False),
    "hw_hybrid_tagged": dict(hw="Huawei CE6870", block="interface GE1/0/1", logic="HwMultiAll",
                             prefix="port hybrid tagged vlan", reverse="undo port hybrid tagged vlan", catalyst=False),
    "hw_hybrid_untagged": dict(hw="Huawei CE6870", block="interface GE1/0/1", logic="HwMultiAll",
                               prefix="port hybrid untagged vlan", reverse="undo port hybrid untagged vlan",
                               catalyst=False),
    "hw_batch": dict(hw="Huawei CE6870", block=None, logic="HwMulti",
                     prefix="vlan batch", reverse="undo vlan batch", catalyst=False),
    "hw_stp": dict(hw="Huawei CE6870", block="stp region-configuration", logic="HwSingle",
                   prefix="instance 1 vlan", reverse="undo instance 1", catalyst=False),
    "cisco_swtrunk": dict(hw="Cisco Catalyst 2960", block="interface GigabitEthernet1/0/1", logic="CiscoSwtrunk",
                          prefix="switchport trunk allowed vlan", reverse="no switchport trunk allowed vlan",
                          catalyst=True),
    "cisco_vlan": dict(hw="Cisco Catalyst 2960", block=None, logic="CiscoSimple",
                       prefix="vlan", reverse="no vlan", catalyst=True),
    "cisco_vlan_group": dict(hw="Cisco Catalyst", block=None, logic="CiscoSimple",
                             prefix="vlan group G vlan-list", reverse="no vlan group G vlan-list", catalyst=False),
    "nexus_swtrunk": dict(hw="Cisco Nexus", block="interface Ethernet1/1", logic="CiscoSwtrunk",
                          prefix="switchport trunk allowed vlan", reverse="no switchport trunk allowed vlan",
                          catalyst=False),
    "nexus_vlan": dict(hw="Cisco Nexus", block=None, logic="CiscoSimple",
                       prefix="vlan", reverse="no vlan", catalyst=False),
    "nexus_vlan_group": dict(hw="Cisco Nexus", block=None, logic="CiscoSimple",
                             prefix="vlan group G vlan-list", reverse="no vlan group G vlan-list", catalyst=False),
}
MULTILINE_KINDS = [k for k, v in KINDS.items() if v["logic"] != "HwSingle"]


# ---------------------------------------------------------------------------------------
# writing sets as range lists over lines (input side only; nothing here judges outputs)

def ranges_of(vlans) -> list[tuple[int, int]]:
    out: list[list[int]] = []
    for v in sorted(set(vlans)):
        if out and out[-1][1] == v - 1:
            out[-1][1] = v
        else:
            out.append([v, v])
    return [(a, b) for a, b in out]


def split_at(rs: list, cuts: tuple) -> list[list]:
    idx = [0, *cuts, len(rs)]
    return [rs[idx[i]:idx[i + 1]] for i in range(len(idx) - 1)]


def all_splittings(rs: list, max_lines: int) -> list[list[list]]:
    if not rs:
        return [[]]
    out = []
    for n in range(1, min(max_lines, len(rs)) + 1):
        for cuts in itertools.combinations(range(1, len(rs)), n - 1):
            out.append(split_at(rs, cuts))
    return out


def random_splitting(rng, rs: list, max_lines: int) -> list[list]:
    if not rs:
        return []
    n = rng.randint(1, min(max_lines, len(rs)))
    cuts = tuple(sorted(rng.sample(range(1, len(rs)), n - 1)))
    return split_at(rs, cuts)


def mk_lines(kind: str, parts: list[list[tuple[int, int]]]) -> list[tuple[bool, list]]:
    """structured lines: Cisco trunk continuation lines carry the `add` form"""
    sw = KINDS[kind]["logic"] == "CiscoSwtrunk"
    return [(sw and i > 0, list(p)) for i, p in enumerate(parts)]


def line_text(kind: str, line) -> str:
    k = KINDS[kind]
    flag, rs = line
    if k["logic"].startswith("Hw"):
        return k["prefix"] + " " + " ".join(str(a) if a == b else f"{a} to {b}" for a, b in rs)
    if not rs:
        return k["prefix"] + " none"
    return k["prefix"] + (" add " if flag else " ") + ",".join(str(a) if a == b else f"{a}-{b}" for a, b in rs)


def mk_case(kind: str, old_parts, new_parts, src: str) -> dict:
    old = mk_lines(kind, old_parts)
    new = mk_lines(kind, new_parts)
    return {"kind": kind, "old": old, "new": new, "src": src,
            "old_rows": [line_text(kind, l) for l in old], "new_rows": [line_text(kind, l) for l in new]}


# ---------------------------------------------------------------------------------------
# generators

def random_set(rng, size_class: str) -> set[int]:
    s: set[int] = set()
    if size_class == "small":
        n_runs, max_run, lo, hi = rng.randint(0, 5), 6, 1, rng.choice([40, 200, 4094])
    elif size_class == "medium":
        n_runs, max_run, lo, hi = rng.randint(3, 25), 30, 1, 4094
    else:
        n_runs, max_run, lo, hi = rng.randint(10, 60), 120, 1, 4094
    for _ in range(n_runs):
        a = rng.randint(lo, hi)
        b = min(4094, a + (0 if rng.random() < 0.4 else rng.randint(1, max_run)))
        s.update(range(a, b + 1))
    if rng.random() < 0.1:
        s.add(1)
    if rng.random() < 0.1:
        s.add(4094)
    return s


def perturb_lines(rng, parts: list[list[tuple[int, int]]], taken: set[int]) -> list[list[tuple[int, int]]]:
    """new list derived line by line from the old one: keep / drop / edit lines, add lines"""
    out = []
    for p in parts:
        r = rng.random()
        if r < 0.45:
            out.append(list(p))
        elif r < 0.65:
            continue
        else:
            vl = {v for a, b in p for v in range(a, b + 1)}
            for _ in range(rng.randint(1, 3)):
                if vl and rng.random() < 0.5:
                    a = rng.choice(sorted(vl))
                    for v in range(a, a + rng.randint(1, 4)):
                        vl.discard(v)
                else:
                    a = rng.randint(1, 4090)
                    for v in range(a, a + rng.randint(1, 4)):
                        if v not in taken and v <= 4094:
                            vl.add(v)
            taken |= vl
            if vl:
                out.append(ranges_of(vl))
    for _ in range(rng.choice([0, 0, 1, 1, 2])):
        a = rng.randint(1, 4000)
        vl = {v for v in range(a, a + rng.randint(1, 30)) if v not in taken}
        taken |= vl
        if vl:
            out.append(ranges_of(vl))
    rng.random() < 0.3 and rng.shuffle(out)
    return out


def gen_cases(ctx) -> list[dict]:
    rng = ctx.rng("gen")
    cases: list[dict] = []
    kinds = list(KINDS)

    # (1) corpus: the finding of DESIGN §7 F3 and its neighbours, whole-list removal, none, chunk borders
    for kind in MULTILINE_KINDS:
        cases.append(mk_case(kind, [[(10, 20), (30, 30)], [(40, 40), (50, 50)]], [[(10, 20), (30, 30)]], "corpus"))
        cases.append(mk_case(kind, [[(10, 20), (30, 30)], [(40, 40), (50, 50)]], [], "corpus"))
        cases.append(mk_case(kind, [[(10, 20)], [(40, 40)], [(50, 60)]], [[(40, 40)]], "corpus"))
        cases.append(mk_case(kind, [], [[(2, 2), (4, 4)], [(7, 9)]], "corpus"))
        many = [(2 * i, 2 * i) for i in range(1, 38)]
        cases.append(mk_case(kind, [many[:10], many[10:20], many[20:]], [many[:10]], "corpus"))
        cases.append(mk_case(kind, [many[:10]], [many[:10], many[10:20], many[20:]], "corpus"))
        cases.append(mk_case(kind, [[(1, 2), (4, 5)], [(7, 8)]], [[(1, 2), (4, 5)], [(7, 8), (10, 11), (13, 13)]], "corpus"))
    for kind in ("cisco_swtrunk", "nexus_swtrunk"):
        cases.append(mk_case(kind, [[(1, 10), (20, 20)], [(30, 30)]], [[]], "corpus"))
        cases.append(mk_case(kind, [[]], [[(1, 2), (4, 5)]], "corpus"))
        cases.append(mk_case(kind, [[]], [], "corpus"))
    cases.append(mk_case("hw_stp", [[(1, 10)], [(20, 20)]], [[(1, 10)]], "corpus"))
    cases.append(mk_case("hw_stp", [[(1, 10), (20, 20)]], [[(1, 5), (21, 21)]], "corpus"))
    cases.append(mk_case("hw_stp", [[(1, 10), (20, 20)]], [], "corpus"))
    cases.append(mk_case("hw_stp", [[(1, 10)], [(20, 20)]], [[(1, 5)], [(21, 21)]], "corpus-out-of-domain"))
    n_corpus = len(cases)

    # (3) random over 1..4094, 1..4 lines
    n_rand = 12000 if ctx.thorough else 1100
    for i in range(n_rand):
        kind = kinds[i % len(kinds)]
        single = KINDS[kind]["logic"] == "HwSingle"
        size = rng.choice(["small", "small", "small", "medium", "medium", "medium"] if i % 25 else ["large"])
        so = random_set(rng, size)
        old_parts = random_splitting(rng, ranges_of(so), 1 if single and rng.random() < 0.6 else 4)
        mode = rng.random()
        if mode < 0.55:
            new_parts = perturb_lines(rng, old_parts, set(so))
            src = "random-perturbed"
        elif mode < 0.9:
            sn = random_set(rng, size)
            if rng.random() < 0.5:
                sn |= set(rng.sample(sorted(so), len(so) // 2)) if so else set()
            new_parts = random_splitting(rng, ranges_of(sn), 4)
            src = "random-independent"
        else:
            new_parts = [list(p) for p in old_parts]
            rng.shuffle(new_parts)
            if new_parts and rng.random() < 0.5:
                new_parts.pop()
            src = "random-reordered"
        if single:
            # keep `single` inside its asserted domain most of the time: at most one changed line per side
            if len(new_parts) > 1 and rng.random() < 0.8:
                keep = [p for p in new_parts if p in old_parts]
                chg = [p for p in new_parts if p not in old_parts][:1]
                new_parts = keep + chg
            if rng.random() < 0.8:
                gone = [p for p in old_parts if p not in new_parts]
                if len(gone) > 1:
                    new_parts = new_parts + gone[1:]
        if KINDS[kind]["logic"] == "CiscoSwtrunk" and rng.random() < 0.04:
            new_parts = [[]]
        if KINDS[kind]["logic"] == "CiscoSwtrunk" and rng.random() < 0.03:
            old_parts = [[]]
        cases.append(mk_case(kind, old_parts, new_parts, src))
    ctx.coverage["input_distribution"] = {"corpus": n_corpus, "random": n_rand}
    return cases


def exhaustive_scopes(ctx) -> list[tuple[str, list[int]]]:
    if ctx.thorough:
        return [("hw_trunk", [1, 2, 3, 5, 6, 8, 10, 11]),
                ("cisco_swtrunk", [1, 2, 3, 5, 6, 8]), ("nexus_vlan", [1, 2, 3, 5, 6, 8]),
                ("hw_batch", [1, 2, 3, 5, 6, 8]), ("hw_hybrid_tagged", [1, 2, 3, 5, 6, 8]),
                ("hw_hybrid_untagged", [1, 2, 4, 6]), ("cisco_vlan", [1, 2, 4, 6]), ("nexus_swtrunk", [1, 2, 4, 6]),
                ("cisco_vlan_group", [1, 2, 4]), ("nexus_vlan_group", [1, 2, 4])]
    return [("hw_trunk", [1, 2, 4, 6]), ("nexus_swtrunk", [1, 2, 4]), ("hw_batch", [1, 2, 4]),
            ("cisco_vlan", [1, 2, 4])]


def gen_exhaustive(ctx, slab: int = 120000):
    """exhaustive small scope, yielded in slabs: all pairs of subsets of a universe x all splittings of
    both range lists into <= 3 lines; for `single`: one line per side, with/without an unchanged line"""
    scope_txt = []
    buf: list[dict] = []
    n = 0
    for kind, uni in exhaustive_scopes(ctx):
        subsets = [[v for i, v in enumerate(uni) if m >> i & 1] for m in range(1 << len(uni))]
        confs = [sp for s in subsets for sp in all_splittings(ranges_of(s), 3)]
        scope_txt.append(f"{kind}: all pairs of subsets of {uni} x all splittings of both range lists into <= 3 lines "
                         f"({len(confs)} configurations, {len(confs) ** 2} cases)")
        for o in confs:
            for nn in confs:
                buf.append(mk_case(kind, o, nn, "exhaustive"))
            if len(buf) >= slab:
                n += len(buf)
                yield buf
                buf = []
    uni = [1, 2, 3, 5, 6, 8] if ctx.thorough else [1, 2, 4, 6]
    subsets = [[v for i, v in enumerate(uni) if m >> i & 1] for m in range(1 << len(uni))]
    for o in subsets:
        for nn in subsets:
            op = [ranges_of(o)] if o else []
            np_ = [ranges_of(nn)] if nn else []
            buf.append(mk_case("hw_stp", op, np_, "exhaustive"))
            buf.append(mk_case("hw_stp", [[(100, 110)]] + op, [[(100, 110)]] + np_, "exhaustive"))
    scope_txt.append(f"hw_stp: all pairs of subsets of {uni} on one line, with and without an unchanged second line")
    n += len(buf)
    ctx.coverage["input_distribution"]["exhaustive"] = n
    ctx.coverage["input_distribution"]["exhaustive_scope"] = scope_txt
    yield buf


# ---------------------------------------------------------------------------------------
# Coq terms

def c_rulek_def(kind: str) -> str:
    k = KINDS[kind]
    return f"(RK {k['logic']} {cstr(k['prefix'])} {cstr(k['reverse'])} {cbool(k['catalyst'])})"


# one Coq constant per rule kind (keeps the case terms small)
KIND_DEFS = "\n".join(f"Definition k_{kind} : rulek := {c_rulek_def(kind)}." for kind in KINDS)


def c_rulek(kind: str) -> str:
    return f"k_{kind}"


def c_line(line) -> str:
    flag, rs = line
    return cpair(cbool(flag), clist(cpair(cN(a), cN(b)) for a, b in rs))


def c_input(c: dict) -> str:
    return cpair(c_rulek(c["kind"]), clist(c_line(l) for l in c["old"]), clist(c_line(l) for l in c["new"]))


def c_out(o: dict) -> str:
    if "rows" in o:
        return "(Some " + clist(cstr(r) for r, _kids in o["rows"]) + ")"
    return "None"


def c_case(c: dict, o: dict) -> str:
    # the rows given to the implementation are part of the term (Coq checks that they are the
    # text of the structured lines) except in the exhaustive scope, where Coq prints them itself
    if c["src"] == "exhaustive":
        rows = "None"
    else:
        rows = "(Some " + cpair(clist(cstr(r) for r in c["old_rows"]), clist(cstr(r) for r in c["new_rows"])) + ")"
    return cpair(cpair(c_input(c), rows), c_out(o))


def impl_payload(c: dict) -> dict:
    k = KINDS[c["kind"]]
    return {"hw": k["hw"], "block": k["block"], "old": c["old_rows"], "new": c["new_rows"]}


PER_FILE = 200

# ---------------------------------------------------------------------------------------
# compact case files (Spec.P_C11.check_data): all cases of a file in one string literal


def enc_line(line) -> str:
    flag, rs = line
    if not rs:
        return "n"
    return ("+" if flag else "") + ",".join(str(a) if a == b else f"{a}-{b}" for a, b in rs)


def enc_case(i: int, c: dict, o: dict) -> str:
    for r in c["old_rows"] + c["new_rows"] + [r for r, _ in o.get("rows", [])]:
        if not r or re.search(r"[|/~\n\"]", r) or not r.isascii():
            raise core.CheckFailure(f"row cannot be encoded in a compact case file: {r!r}")
    given = "=" if c["src"] == "exhaustive" else "/".join(c["old_rows"]) + "~" + "/".join(c["new_rows"])
    out = "!" if "exc" in o else "/".join(r for r, _ in o["rows"])
    return "|".join([str(i), c["kind"], ";".join(enc_line(l) for l in c["old"]),
                     ";".join(enc_line(l) for l in c["new"]), given, out])


def run_compact(cases: list[dict], outs: list[dict], per_file: int, tag: str = "compact", *,
                enc=None, check: str = "check_data kinds", coded: bool = False) -> list:
    """indices of the cases on which agree && holds && struct_is_text is false (evaluated by Coq);
    coded: (index, fail code) pairs as computed by the Coq checker"""
    enc = enc or enc_case
    import shutil
    from concurrent.futures import ThreadPoolExecutor
    d = core.BUILD / "cases" / ID / tag
    if d.exists():
        shutil.rmtree(d)
    d.mkdir(parents=True)
    kinds = "Definition kinds : list (string * rulek) := " + clist(
        cpair(cstr(k), c_rulek_def(k)) for k in KINDS) + "."
    head = ("From Coq Require Import List String Bool Arith NArith Ascii.\nImport ListNotations.\n"
            "Open Scope string_scope.\n" + IMPORTS + "\n" + kinds + "\n")
    files = []
    for k in range(0, len(cases), per_file):
        # string constants of <= ~8 KB each (deeper literals overflow coqc's default stack)
        consts, cur, size = [], [], 0
        for i in range(k, min(len(cases), k + per_file)):
            l = enc(i, cases[i], outs[i])
            if cur and size + len(l) > 8000:
                consts.append("\n".join(cur))
                cur, size = [], 0
            cur.append(l)
            size += len(l) + 1
        if cur:
            consts.append("\n".join(cur))
        f = d / f"{tag}_{k // per_file}.v"
        f.write_text(head + "".join(f'Definition d{j} : string := "{b}".\n' for j, b in enumerate(consts)) +
                     f"Eval vm_compute in flat_map ({check}) " +
                     clist(f"d{j}" for j in range(len(consts))) + ".\n")
        files.append((f, k, min(len(cases), k + per_file)))

    def one(job):
        f, lo, hi = job
        for attempt in range(4):
            p = core.coqc_file(f, timeout=1200)
            # killed from outside (OOM killer on a crowded machine) with nothing on stderr: run the file again
            if p.returncode in (-9, 137) and not p.stderr.strip() and attempt < 3:
                time.sleep(3 * (attempt + 1))
                continue
            break
        if p.returncode != 0:
            raise core.CheckFailure(f"case file {f} failed to compile:\n{(p.stdout + p.stderr)[-3000:]}")
        parts = re.split(r"^\s*=\s", p.stdout, flags=re.M)[1:]
        if len(parts) != 1:
            raise core.CheckFailure(f"unexpected coqc output for {f}: {p.stdout[-2000:]}")
        body = parts[0].rsplit(":", 1)[0]
        if coded:
            pairs = [(int(a), int(b)) for a, b in re.findall(r"\(\s*(\d+)%N,\s*(\d+)%N\s*\)", body)]
            if len(pairs) != body.count("("):
                raise core.CheckFailure(f"case file {f}: cannot read the checker's answer {body[:300]}")
            idx = [i for i, _ in pairs]
        else:
            idx = [int(x) for x in re.findall(r"\d+", body)]
        if any(not lo <= i < hi for i in idx):
            raise core.CheckFailure(f"case file {f}: undecodable line or foreign index in {idx[:10]}")
        return pairs if coded else idx

    bad: list[int] = []
    with ThreadPoolExecutor(max_workers=core.NPROC) as ex:
        for idx in ex.map(one, files):
            bad.extend(idx)
    for f, _, _ in files:
        for ext in (".vo", ".vok", ".vos", ".glob"):
            f.with_suffix(ext).unlink(missing_ok=True)
        (f.parent / ("." + f.stem + ".aux")).unlink(missing_ok=True)
    return sorted(bad)


PREDS = {"agree": "agree", "holds": "holds", "struct_is_text": "struct_is_text"}


def diagnose(cases: list[dict], outs: list[dict], idx: list[int]) -> dict[int, str]:
    """signature class of failing cases, computed by Coq (Spec.P_C11.diagnose)"""
    if not idx:
        return {}
    exprs = [f"diagnose {c_input(cases[i])} {c_out(outs[i])}" for i in idx]
    vals = core.coq_eval(ID, IMPORTS + "\n" + KIND_DEFS, exprs, tag="diag")
    return {i: re.sub(r'^"|"(%string)?$', "", v.strip()) for i, v in zip(idx, vals)}


class Stats:
    def __init__(self):
        self.seen: set[int] = set()
        self.n = 0
        self.nontrivial = 0
        self.with_unchanged = 0
        self.kind: dict[str, int] = {}
        self.lines: dict[str, int] = {}
        self.out = {"rows": 0, "exc": 0, "no_commands": 0}
        self.failing = 0
        self.bad = {l: 0 for l in PREDS}
        self.samples: list = []

    def add(self, cases, outs):
        for c, o in zip(cases, outs):
            self.n += 1
            self.kind[c["kind"]] = self.kind.get(c["kind"], 0) + 1
            key = f"{len(c['old'])}->{len(c['new'])}"
            self.lines[key] = self.lines.get(key, 0) + 1
            if "exc" in o:
                self.out["exc"] += 1
            elif not o["rows"]:
                self.out["no_commands"] += 1
            else:
                self.out["rows"] += 1
            h = hash((c["kind"], tuple(c["old_rows"]), tuple(c["new_rows"])))
            if h in self.seen:
                continue
            self.seen.add(h)
            new_rows = set(c["new_rows"])
            old_rows = set(c["old_rows"])
            changed = old_rows != new_rows
            if changed and old_rows & new_rows:
                self.with_unchanged += 1
            if changed and o.get("rows"):
                self.nontrivial += 1


def process(ctx, cases: list[dict], stats: Stats, tag: str) -> None:
    """implementation on every case; pass 1: compact files, one conjunction over every case; pass 2: the
    failing cases only, as structured terms, to tell which predicate failed"""
    outs = core.run_impl_sharded("c11_runner.py", [impl_payload(c) for c in cases])
    stats.add(cases, outs)
    stats.samples = [{"input": {"kind": c["kind"], "old_rows": c["old_rows"], "new_rows": c["new_rows"]}, "impl": o}
                     for c, o in list(zip(cases, outs))[-3:]]
    per_file = max(40, min(8000, len(cases) // (2 * core.NPROC) + 1))
    failing = run_compact(cases, outs, per_file, tag="compact_" + tag)
    stats.failing += len(failing)
    sub = failing[:600]
    if not sub:
        return
    r2 = core.run_case_files(ID, TY, IMPORTS, PREDS, [c_case(cases[i], outs[i]) for i in sub],
                             per_file=PER_FILE, extra_defs=KIND_DEFS, tag="cases_" + tag)
    res = {l: [sub[j] for j in v] for l, v in r2.items()}
    if not any(res.values()):
        raise core.CheckFailure("compact and structured case files disagree on failing cases")
    for l in PREDS:
        stats.bad[l] += len(res[l])
    bad = res["holds"]
    diag = diagnose(cases, outs, bad[:200])
    for i in bad[:200]:
        c = cases[i]
        lg = KINDS[c["kind"]]["logic"]
        ctx.add_violation(core.Violation(
            signature=f"C11/{lg}/{diag[i]}",
            what=f"{c['kind']}: old {c['old_rows']} -> new {c['new_rows']}: emitted {outs[i]} ({diag[i]})",
            replay={"case": c, "impl": outs[i]}))
    if not bad:
        for i in res["agree"][:1]:
            ctx.add_violation(core.Violation(
                signature="C11/model-impl-disagree",
                what="Coq model model_rows and the rows of _diff_and_patch differ (correspondence broken); "
                     "P_C11 holds on all implementation outputs explored",
                replay={"correspondence": "Model.Vlan.model_rows vs annet.api._diff_and_patch (shipped rulebooks)",
                        "case": cases[i], "impl": outs[i]}, no_input=True))
        for i in res["struct_is_text"][:1]:
            ctx.add_violation(core.Violation(
                signature="C11/struct-text-model-disagree",
                what="structured model (theorems) and text-level model differ on a generated case",
                replay={"correspondence": "Model.Vlan.model_struct vs Model.Vlan.model_rows", "case": cases[i]},
                no_input=True))


# ---------------------------------------------------------------------------------------
# the Huawei global VLAN database: `vlan batch` lines (wrapped over several rows) and `vlan N` blocks
# (Model.VlanDb; vlan_diff + multi + common.default over the shipped huawei rulebook)

DB_HW = "Huawei CE6870"
TY_DB = "case_db"
PREDS_DB = {"agree": "agree_db", "holds": "holds_db", "struct_is_text": "struct_is_text_db"}
# option rows of a block: the rules `name`, `description` (global) and rows no rule matches
KID_STATES = [[], [], ["name a"], ["name a"], ["name b"], ["description d"], ["name a", "description d"],
              ["name b", "description e"], ["statistic enable"], ["name a", "statistic enable"]]


def wrap_device(rs: list, per_line: int = 10) -> list[list]:
    """the device wraps a VLAN list after 10 ranges"""
    return [rs[i:i + per_line] for i in range(0, len(rs), per_line)]


def db_rows(parts, blocks) -> list:
    rows = [line_text("hw_batch", (False, p)) for p in parts]
    for n, kids in blocks:
        rows.append([f"vlan {n}", list(kids)] if kids else f"vlan {n}")
    return rows


def mk_db_case(old_parts, new_parts, old_blocks, new_blocks, src: str, rng=None) -> dict:
    c = {"kind": "hw_vlandb", "src": src,
         "old": [(False, list(p)) for p in old_parts], "new": [(False, list(p)) for p in new_parts],
         "old_blocks": [(int(n), list(k)) for n, k in old_blocks],
         "new_blocks": [(int(n), list(k)) for n, k in new_blocks]}
    for side in ("old", "new"):
        rows = db_rows([p for _, p in c[side]], c[side + "_blocks"])
        if rng is not None:
            r = rng.random()
            if r < 0.15:
                rng.shuffle(rows)                      # blocks between / before the batch rows
            elif r < 0.25:
                nb = len(c[side])
                rows = rows[nb:] + rows[:nb]           # blocks first
        c[side + "_rows"] = rows
    return c


def db_payload(c: dict) -> dict:
    return {"hw": DB_HW, "block": None, "old": c["old_rows"], "new": c["new_rows"]}


def _vl(parts) -> set[int]:
    return {v for p in parts for a, b in p for v in range(a, b + 1)}


def gen_db_cases(ctx) -> list[dict]:
    rng = ctx.rng("gen-db")
    cases: list[dict] = []
    iso = [(v, v) for v in range(100, 100 + 25 * 10, 10)]          # 25 isolated VLANs: three device lines
    # corpus: tests/annet/test_patch/huawei_vlan_global_and_batch.yaml and multi-line variants of it
    b5 = [[(333, 333), (688, 688), (700, 700), (788, 788), (999, 999)]]
    b4 = [[(333, 333), (688, 688), (700, 700), (788, 788)]]
    cases += [mk_db_case(b5, b5, [(999, [])], [], "corpus"), mk_db_case(b5, b5, [], [(999, [])], "corpus"),
              mk_db_case(b5, b4, [(999, ["name xxx"])], [], "corpus"),
              mk_db_case(b4, b5, [], [(999, ["name xxx"])], "corpus"),
              mk_db_case(b5, b5, [(999, ["name xxx"])], [], "corpus"),
              mk_db_case(b5, b5, [], [(999, ["name xxx"])], "corpus"),
              mk_db_case([[(1001, 1003), (1005, 1006), (2000, 2000), (3000, 3000)]],
                         [[(1001, 1002), (1004, 1006), (2000, 2000), (3000, 3000)]],
                         [(1001, []), (1003, ["name v1003"]), (1005, ["name v1005"]), (3000, ["name v3000"])],
                         [(1002, []), (1004, ["name v1004"]), (1006, ["name v1006"]), (3000, ["name v3000"])],
                         "corpus")]
    for named in (130, 230, 330):                                   # block on batch line 1 / 2 / 3
        new = [r for r in iso if r != (100, 100)] + [(4000, 4000)]
        for st_old, st_new in ((["name users"], None), (["name users"], []), (["name users"], ["name staff"]),
                               ([], None), (None, ["name users"]), (None, [])):
            cases.append(mk_db_case(wrap_device(iso), wrap_device(new),
                                    [] if st_old is None else [(named, st_old)],
                                    [] if st_new is None else [(named, st_new)], "corpus"))
        cases.append(mk_db_case(wrap_device(iso), wrap_device([r for r in iso if r[0] != named]),
                                [(named, ["name users"])], [], "corpus"))
    # the VLAN leaves the batch but stays / appears as a block (known finding) and its neighbours
    cases += [mk_db_case([[(10, 10), (20, 20)]], [[(10, 10)]], [], [(20, ["name foo"])], "corpus"),
              mk_db_case([[(10, 10), (20, 20)]], [[(10, 10)]], [(20, ["name foo"])], [(20, ["name foo"])], "corpus"),
              mk_db_case([[(10, 10)]], [[(10, 10)]], [(20, ["name foo"])], [(20, ["name foo"])], "corpus"),
              mk_db_case([], [[(20, 20)]], [(20, ["name x"])], [], "corpus"),
              mk_db_case([], [], [(20, ["name x"])], [], "corpus"),
              mk_db_case([], [], [], [(20, [])], "corpus")]
    n_corpus = len(cases)

    n_rand = 6000 if ctx.thorough else 700
    hist = {"block_on_first_new_line": 0, "block_on_later_new_line": 0, "block_not_in_new_batch": 0,
            "block_removed_keeps_options_undone": 0, "block_added": 0, "block_in_both": 0}
    for i in range(n_rand):
        shape = rng.random()
        if shape < 0.45:      # isolated VLANs / short runs: many ranges, wrapped by the device rule
            so: set[int] = set()
            for _ in range(rng.randint(1, 38)):
                a = rng.randint(1, 4094)
                so.update(range(a, min(4094, a + rng.choice([0, 0, 0, 1, 3])) + 1))
        elif shape < 0.9:
            so = random_set(rng, "small")
        else:
            so = random_set(rng, "medium")
        wrap = (lambda rs: wrap_device(rs)) if rng.random() < 0.5 else (lambda rs: random_splitting(rng, rs, 4))
        old_parts = wrap(ranges_of(so))
        mode = rng.random()
        if mode < 0.15:
            new_parts = [list(p) for p in old_parts]
            src = "db-same-batch"
        elif mode < 0.55:
            sn = set(so)
            for _ in range(rng.randint(0, 3)):
                if sn and rng.random() < 0.5:
                    sn.discard(rng.choice(sorted(sn)))
                else:
                    sn.add(rng.randint(1, 4094))
            new_parts = wrap(ranges_of(sn))
            src = "db-edited-set"
        elif mode < 0.8:
            new_parts = perturb_lines(rng, old_parts, set(so))
            src = "db-perturbed-lines"
        else:
            sn = random_set(rng, rng.choice(["small", "small", "medium"]))
            if so and rng.random() < 0.6:
                sn |= set(rng.sample(sorted(so), len(so) // 2))
            new_parts = wrap(ranges_of(sn))
            src = "db-independent"
        so, sn = _vl(old_parts), _vl(new_parts)
        ob: dict[int, list] = {}
        nb: dict[int, list] = {}
        for _ in range(rng.choice([0, 1, 1, 2, 2, 3, 5])):
            cat = rng.random()
            if cat < 0.55 and new_parts and (so & sn):
                # a VLAN that stays: pick the new batch line first (later lines as likely as the first)
                li = rng.randrange(len(new_parts))
                pool = sorted(_vl([new_parts[li]]) & so) or sorted(so & sn)
                n = rng.choice(pool)
            elif cat < 0.7 and so - sn:
                n = rng.choice(sorted(so - sn))
            elif cat < 0.85 and sn - so:
                n = rng.choice(sorted(sn - so))
            else:
                n = rng.randint(1, 4094)
            if n in ob or n in nb:
                continue
            st_old = rng.choice(KID_STATES + [None, None, None])
            st_new = rng.choice(KID_STATES + [None, None, None, None, None])
            if st_new is not None and n in so and n not in sn and rng.random() < 0.8:
                st_new = None          # keep the known-finding class a small share of the stream
            if st_old is None and st_new is None:
                continue
            if st_old is not None:
                ob[n] = st_old
            if st_new is not None:
                nb[n] = st_new
            on_line = [k for k, p in enumerate(new_parts) if n in _vl([p])]
            if not on_line:
                hist["block_not_in_new_batch"] += 1
            elif on_line[0] == 0:
                hist["block_on_first_new_line"] += 1
            else:
                hist["block_on_later_new_line"] += 1
            if st_new is None:
                hist["block_removed_keeps_options_undone"] += bool(on_line and st_old)
            elif st_old is None:
                hist["block_added"] += 1
            else:
                hist["block_in_both"] += 1
        cases.append(mk_db_case(old_parts, new_parts, sorted(ob.items()), sorted(nb.items()), src, rng))
    ctx.coverage["input_distribution"].update({"db_corpus": n_corpus, "db_random": n_rand, "db_blocks": hist})
    return cases


def gen_db_exhaustive(ctx) -> list[dict]:
    """all pairs of configurations: batch = every subset of a universe x every splitting of its range list into
    <= 2 (thorough: 3) lines; blocks: VLAN A absent / empty / name a / name b / description d"""
    uni = [1, 2, 4, 6] if ctx.thorough else [1, 2, 4]
    ida = uni[1]
    subsets = [[v for i, v in enumerate(uni) if m >> i & 1] for m in range(1 << len(uni))]
    batches = [sp for s in subsets for sp in all_splittings(ranges_of(s), 3 if ctx.thorough else 2)]
    blocks = [a + b for a in ([], [(ida, [])], [(ida, ["name a"])], [(ida, ["name b"])], [(ida, ["description d"])])
              for b in ([],)]
    confs = [(p, k) for p in batches for k in blocks]
    ctx.coverage["input_distribution"]["db_exhaustive"] = len(confs) ** 2
    ctx.coverage["input_distribution"]["db_exhaustive_scope"] = (
        f"all pairs of {len(confs)} configurations: `vlan batch` = every subset of {uni} x every splitting of its "
        f"range list into <= {3 if ctx.thorough else 2} lines; blocks: vlan {ida} absent/empty/name a/name b/"
        f"description d")
    return [mk_db_case(o[0], n[0], o[1], n[1], "exhaustive") for o in confs for n in confs]


def c_trow(r) -> str:
    row, kids = (r, []) if isinstance(r, str) else r
    return cpair(cstr(row), clist(cstr(k) for k in kids))


def c_blk(b) -> str:
    return cpair(cN(b[0]), clist(cstr(k) for k in b[1]))


def c_input_db(c: dict) -> str:
    return cpair(cpair(clist(c_line(l) for l in c["old"]), clist(c_blk(b) for b in c["old_blocks"])),
                 cpair(clist(c_line(l) for l in c["new"]), clist(c_blk(b) for b in c["new_blocks"])))


def c_out_db(o: dict) -> str:
    return "(Some " + clist(c_trow(r) for r in o["rows"]) + ")" if "rows" in o else "None"


def c_case_db(c: dict, o: dict) -> str:
    given = "None" if c["src"] == "exhaustive" else "(Some " + cpair(
        clist(c_trow(r) for r in c["old_rows"]), clist(c_trow(r) for r in c["new_rows"])) + ")"
    return cpair(cpair(c_input_db(c), given), c_out_db(o))


def enc_trow(r) -> str:
    row, kids = (r, []) if isinstance(r, str) else r
    for x in [row, *kids]:
        if not x or re.search(r"[|/~>;\n\"]", x) or not x.isascii():
            raise core.CheckFailure(f"row cannot be encoded in a compact case file: {x!r}")
    return ">".join([row, *kids])


def enc_case_db(i: int, c: dict, o: dict) -> str:
    """idx|given|out: Coq reads the structured database back from the rows given to the implementation"""
    given = "/".join(enc_trow(r) for r in c["old_rows"]) + "~" + "/".join(enc_trow(r) for r in c["new_rows"])
    out = "!" if "exc" in o else "/".join(enc_trow(r) for r in o["rows"])
    return "|".join([str(i), given, out])


def diagnose_db(cases: list[dict], outs: list[dict], idx: list[int]) -> dict[int, str]:
    if not idx:
        return {}
    exprs = [f"diagnose_db {c_input_db(cases[i])} {c_out_db(outs[i])}" for i in idx]
    vals = core.coq_eval(ID, IMPORTS, exprs, tag="diag_db")
    return {i: re.sub(r'^"|"(%string)?$', "", v.strip()) for i, v in zip(idx, vals)}


class DbStats:
    def __init__(self):
        self.seen: set[int] = set()
        self.n = 0
        self.nontrivial = 0
        self.lines: dict[str, int] = {}
        self.out = {"rows": 0, "exc": 0, "no_commands": 0}
        self.cmds: dict[str, int] = {}
        self.failing = 0
        self.bad = {l: 0 for l in PREDS_DB}
        self.classes: dict[str, int] = {}
        self.samples: list = []

    def add(self, cases, outs):
        for c, o in zip(cases, outs):
            self.n += 1
            key = f"{min(len(c['old']), 5)}->{min(len(c['new']), 5)}"
            self.lines[key] = self.lines.get(key, 0) + 1
            if "exc" in o:
                self.out["exc"] += 1
                continue
            self.out["rows" if o["rows"] else "no_commands"] += 1
            for r, kids in o["rows"]:
                w = r.split()
                k = ("undo vlan batch" if w[:3] == ["undo", "vlan", "batch"] else "vlan batch" if w[:2] == ["vlan", "batch"]
                     else "undo vlan N" if w[0] == "undo" else "no vlan (list)" if w[0] == "no"
                     else "vlan N (block)" if kids else "vlan (list)" if "cat" in c else "vlan N (plain)")
                self.cmds[k] = self.cmds.get(k, 0) + 1
            h = hash(json.dumps([c.get("cat"), c["old_rows"], c["new_rows"]]))
            if h in self.seen:
                continue
            self.seen.add(h)
            blocks = (c["old_blocks"] or c["new_blocks"]) if "old_blocks" in c else any(k for _, k in c["old"] + c["new"])
            if o["rows"] and blocks:
                self.nontrivial += 1


# ---------------------------------------------------------------------------------------
# the Cisco / Nexus global `vlan` rule: list rows and `vlan N` blocks in one rule slot (Model.VlanCisco)

CDB_HW = {"C": "Cisco Catalyst 2960", "N": "Cisco Nexus"}
CKID_STATES = [["name a"], ["name a"], ["name b"], ["description d"], ["name a", "description d"],
               ["name b", "description e"], ["state suspend"], ["name a", "state suspend"]]


def crow_text(rs) -> str:
    return "vlan " + ",".join(str(a) if a == b else f"{a}-{b}" for a, b in rs)


def mk_cdb_case(cat: str, old, new, src: str, rng=None) -> dict:
    """old/new: rows (ranges, child rows); child rows only under a row naming one VLAN"""
    c = {"kind": "cisco_vlandb", "cat": cat, "src": src,
         "old": [([tuple(r) for r in rs], list(k)) for rs, k in old],
         "new": [([tuple(r) for r in rs], list(k)) for rs, k in new]}
    for side in ("old", "new"):
        rows = [[crow_text(rs), list(k)] if k else crow_text(rs) for rs, k in c[side]]
        if rng is not None and rng.random() < 0.2:
            rng.shuffle(rows)
        c[side + "_rows"] = rows
    return c


def cdb_payload(c: dict) -> dict:
    return {"hw": CDB_HW[c["cat"]], "block": None, "old": c["old_rows"], "new": c["new_rows"]}


def cdb_config(rng, vlans: set[int], blocks: dict[int, list], nexus_shape: bool, max_rows: int = 3) -> list:
    """rows of one configuration: list rows (the VLANs of the blocks are repeated in them on a Nexus, left out on a
    Catalyst) + one block per entry of `blocks`; no two rows with the same text"""
    listed = set(vlans) if nexus_shape else set(vlans) - set(blocks)
    parts = random_splitting(rng, ranges_of(listed), max_rows)
    rows = [(p, []) for p in parts if not (len(p) == 1 and p[0][0] == p[0][1] and p[0][0] in blocks)]
    return rows + [([(n, n)], k) for n, k in sorted(blocks.items())]


def gen_cdb_cases(ctx) -> list[dict]:
    rng = ctx.rng("gen-cdb")
    cases: list[dict] = []
    l10 = [(1, 10)]
    for cat in ("C", "N"):
        cases += [
            mk_cdb_case(cat, [(l10, []), ([(5, 5)], ["name x"])], [(l10, [])], "corpus"),          # Nexus shape
            mk_cdb_case(cat, [(l10, []), ([(5, 5)], ["name x"])], [(l10, []), ([(5, 5)], ["name y"])], "corpus"),
            mk_cdb_case(cat, [(l10, [])], [(l10, []), ([(5, 5)], ["name x"])], "corpus"),
            mk_cdb_case(cat, [([(1, 4), (6, 10)], []), ([(5, 5)], ["name x"])], [(l10, [])], "corpus"),  # Catalyst shape
            mk_cdb_case(cat, [([(1, 4), (6, 10)], []), ([(5, 5)], ["name x"])], [([(1, 4), (6, 10)], [])], "corpus"),
            mk_cdb_case(cat, [(l10, [])], [([(1, 4), (6, 10)], []), ([(5, 5)], ["name x"])], "corpus"),
            mk_cdb_case(cat, [([(1, 4), (6, 10)], []), ([(5, 5)], [])], [([(1, 4), (6, 10)], []), ([(5, 5)], ["name x"])],
                        "corpus"),
            mk_cdb_case(cat, [([(5, 5)], ["name x", "description d"])], [([(5, 5)], [])], "corpus"),
            mk_cdb_case(cat, [], [([(2, 3), (7, 7)], []), ([(9, 9)], ["name n"])], "corpus"),
            mk_cdb_case(cat, [([(2, 3), (7, 7)], []), ([(9, 9)], ["name n"])], [], "corpus"),
        ]
    n_corpus = len(cases)
    n_rand = 6000 if ctx.thorough else 500
    hist = {"nexus_shape": 0, "catalyst_shape": 0, "block_removed": 0, "block_added": 0, "block_in_both": 0}
    for i in range(n_rand):
        cat = "CN"[i % 2]
        nexus_shape = rng.random() < (0.45 if cat == "N" else 0.15)
        hist["nexus_shape" if nexus_shape else "catalyst_shape"] += 1
        so = random_set(rng, "small") if rng.random() < 0.7 else \
            {v for _ in range(rng.randint(1, 20)) for v in [rng.randint(1, 4094)]}
        sn = set(so)
        if rng.random() < 0.75:
            for _ in range(rng.randint(1, 3)):
                if sn and rng.random() < 0.5:
                    sn.discard(rng.choice(sorted(sn)))
                else:
                    sn.add(rng.randint(1, 4094))
        ob: dict[int, list] = {}
        nb: dict[int, list] = {}
        for _ in range(rng.choice([0, 1, 1, 2, 3])):
            pool = sorted(so | sn)
            if not pool:
                break
            n = rng.choice(pool)
            if n in ob or n in nb:
                continue
            st_old = rng.choice(CKID_STATES + [None, None]) if n in so else None
            st_new = rng.choice(CKID_STATES + [None, None, None]) if n in sn else None
            if st_old is not None:
                ob[n] = st_old
            if st_new is not None:
                nb[n] = st_new
            hist["block_removed"] += st_old is not None and st_new is None
            hist["block_added"] += st_old is None and st_new is not None
            hist["block_in_both"] += st_old is not None and st_new is not None
        old = cdb_config(rng, so, ob, nexus_shape)
        if rng.random() < 0.35 and so == sn:
            # the list rows stay as they are, only blocks change
            keep = [r for r in old if not r[1]]
            new = [r for r in keep if not (len(r[0]) == 1 and r[0][0][0] == r[0][0][1] and r[0][0][0] in nb)] + \
                  [([(n, n)], k) for n, k in sorted(nb.items())]
        else:
            new = cdb_config(rng, sn, nb, nexus_shape)
        cases.append(mk_cdb_case(cat, old, new, "cdb-random", rng))
    ctx.coverage["input_distribution"].update({"cdb_corpus": n_corpus, "cdb_random": n_rand, "cdb_shapes": hist})
    return cases


def gen_cdb_exhaustive(ctx) -> list[dict]:
    """all pairs of configurations over a universe: list rows = every subset x every splitting into <= 2 rows;
    block on VLAN A: absent / name a / name b (A may or may not also be written in a list row); both hardware kinds"""
    uni = [1, 2, 4, 6] if ctx.thorough else [1, 2, 4]
    ida = uni[1]
    subsets = [[v for i, v in enumerate(uni) if m >> i & 1] for m in range(1 << len(uni))]
    lists = [sp for s in subsets for sp in all_splittings(ranges_of(s), 2)]
    confs = []
    for p in lists:
        for k in (None, ["name a"], ["name b"]):
            if k is not None and any(len(r) == 1 and r[0] == (ida, ida) for r in p):
                continue       # the row `vlan A` cannot be there twice
            confs.append([(r, []) for r in p] + ([] if k is None else [([(ida, ida)], k)]))
    ctx.coverage["input_distribution"]["cdb_exhaustive"] = 2 * len(confs) ** 2
    ctx.coverage["input_distribution"]["cdb_exhaustive_scope"] = (
        f"Catalyst and Nexus: all pairs of {len(confs)} configurations: list rows = every subset of {uni} x every "
        f"splitting into <= 2 rows; block vlan {ida}: absent / name a / name b")
    return [mk_cdb_case(cat, o, n, "exhaustive") for cat in ("C", "N") for o in confs for n in confs]


def c_crow(r) -> str:
    rs, kids = r
    return cpair(clist(cpair(cN(a), cN(b)) for a, b in rs), clist(cstr(k) for k in kids))


def c_input_cdb(c: dict) -> str:
    return cpair(cbool(c["cat"] == "C"), clist(c_crow(r) for r in c["old"]), clist(c_crow(r) for r in c["new"]))


def c_case_cdb(c: dict, o: dict) -> str:
    given = "(Some " + cpair(clist(c_trow(r) for r in c["old_rows"]), clist(c_trow(r) for r in c["new_rows"])) + ")"
    return cpair(cpair(c_input_cdb(c), given), c_out_db(o))


def enc_case_cdb(i: int, c: dict, o: dict) -> str:
    given = "/".join(enc_trow(r) for r in c["old_rows"]) + "~" + "/".join(enc_trow(r) for r in c["new_rows"])
    out = "!" if "exc" in o else "/".join(enc_trow(r) for r in o["rows"])
    return "|".join([str(i), c["cat"], given, out])


FAMILIES = {
    "hw_vlandb": dict(
        payload=db_payload, enc=enc_case_db, check="check_data_db", sig="HwVlanDb", title="huawei global VLAN database",
        diag={0: "ok", 1: "block-kept-but-vlan-dropped-from-batch", 2: "common-vlan-removed", 3: "final-set-differs",
              4: "raised", 5: "unreadable-command", 6: "outside-domain"},
        corr="Model.VlanDb.db_rows vs annet.api._diff_and_patch (shipped huawei rulebook)",
        struct="Model.VlanDb.db_struct vs Model.VlanDb.db_rows", tag="vlan-database"),
    "cisco_vlandb": dict(
        payload=cdb_payload, enc=enc_case_cdb, check="check_data_cdb", sig="CiscoVlanDb",
        title="cisco/nexus global vlan rule with blocks",
        diag={0: "ok", 1: "vlan-of-kept-row-removed-with-its-block", 2: "common-vlan-removed", 3: "final-set-differs",
              4: "raised", 5: "unreadable-command", 6: "outside-domain"},
        corr="Model.VlanCisco.cisco_rows vs annet.api._diff_and_patch (shipped cisco/nexus rulebooks)",
        struct="Model.VlanCisco.cisco_struct vs Model.VlanCisco.cisco_rows", tag="cisco-vlan-blocks"),
}


def process_blocks(ctx, fam_name: str, cases: list[dict], stats: DbStats, tag: str) -> None:
    """implementation on every case; Coq (Spec.P_C11.check_data_db / check_data_cdb) answers, for every case, which of
    agree / holds / struct_is_text is false and the class of a failure of the property"""
    fam = FAMILIES[fam_name]
    outs = core.run_impl_sharded("c11_runner.py", [fam["payload"](c) for c in cases])
    stats.add(cases, outs)
    stats.samples = [{"input": {"kind": fam_name, "old_rows": c["old_rows"], "new_rows": c["new_rows"]}, "impl": o}
                     for c, o in list(zip(cases, outs))[-2:]]
    per_file = max(60, min(8000, len(cases) // core.NPROC + 1))
    failing = sorted(run_compact(cases, outs, per_file, tag="compact_" + tag, enc=fam["enc"], check=fam["check"],
                                 coded=True))
    stats.failing += len(failing)
    if any(code == 255 for _, code in failing):
        raise core.CheckFailure(f"compact case file ({fam['title']}): a line could not be decoded by Coq")
    for l, bit in (("agree", 1), ("holds", 2), ("struct_is_text", 4)):
        stats.bad[l] += sum(1 for _, code in failing if code & bit)
    bad = [(i, fam["diag"][code >> 3]) for i, code in failing if code & 2]
    # smallest failing inputs first: the replay of a class is its simplest member
    bad.sort(key=lambda t: len(json.dumps([cases[t[0]]["old_rows"], cases[t[0]]["new_rows"]])))
    seen: dict[str, int] = {}
    for i, d in bad:
        seen[d] = seen.get(d, 0) + 1
        if seen[d] > 5:
            continue
        c = cases[i]
        hw = f" ({CDB_HW[c['cat']]})" if "cat" in c else ""
        ctx.add_violation(core.Violation(
            signature=f"C11/{fam['sig']}/{d}",
            what=f"{fam['title']}{hw}: old {c['old_rows']} -> new {c['new_rows']}: emitted {outs[i]} ({d})",
            replay={"case": c, "impl": outs[i]}))
    for d, n in seen.items():
        stats.classes[d] = stats.classes.get(d, 0) + n
    # correspondence failures are reported whatever the property verdicts are (core.finish keeps them only when no
    # violation with a failing input remains, known findings aside)
    for i in [i for i, code in failing if code & 1][:1]:
        ctx.add_violation(core.Violation(
            signature=f"C11/model-impl-disagree/{fam['tag']}",
            what=f"Coq model and the rows of _diff_and_patch differ (correspondence broken: {fam['corr']}); "
                 "the property predicate holds on all implementation outputs explored, known findings aside",
            replay={"correspondence": fam["corr"], "case": cases[i], "impl": outs[i]}, no_input=True))
    for i in [i for i, code in failing if code & 4][:1]:
        ctx.add_violation(core.Violation(
            signature=f"C11/struct-text-model-disagree/{fam['tag']}",
            what="structured model (theorems) and text-level model differ on a generated case",
            replay={"correspondence": fam["struct"], "case": cases[i]}, no_input=True))


def process_db(ctx, cases: list[dict], stats: DbStats, tag: str) -> None:
    process_blocks(ctx, "hw_vlandb", cases, stats, tag)


def run(ctx):
    core.proof_stage(ctx, THEOREM_FILE)
    stats = Stats()
    cases = gen_cases(ctx)
    ctx.rng("order").shuffle(cases)      # spread the large random cases evenly over the case files
    process(ctx, cases, stats, "main")
    for n, slab in enumerate(gen_exhaustive(ctx)):
        process(ctx, slab, stats, f"exh{n}")
    dbs = DbStats()
    db_cases = gen_db_cases(ctx)
    ctx.rng("order-db").shuffle(db_cases)
    process_db(ctx, db_cases, dbs, "db")
    db_samples = dbs.samples
    process_db(ctx, gen_db_exhaustive(ctx), dbs, "dbx")
    cbs = DbStats()
    cdb_cases = gen_cdb_cases(ctx)
    ctx.rng("order-cdb").shuffle(cdb_cases)
    process_blocks(ctx, "cisco_vlandb", cdb_cases, cbs, "cdb")
    cdb_samples = cbs.samples
    process_blocks(ctx, "cisco_vlandb", gen_cdb_exhaustive(ctx), cbs, "cdbx")
    ctx.coverage.update({
        "evaluations": stats.n + dbs.n + cbs.n,
        "distinct_nontrivial": stats.nontrivial + dbs.nontrivial + cbs.nontrivial,
        "rule": "VLAN lists: distinct by (rule kind, old rows, new rows); non-trivial = the two lists differ in at "
                "least one line and the implementation emitted at least one command row.  VLAN database: distinct by "
                "(old rows, new rows); non-trivial = at least one `vlan N` block on either side and at least one "
                "command row emitted; the same for the cisco/nexus `vlan` rule with blocks (distinct by hardware kind, "
                "old rows, new rows)",
        "samples": stats.samples + db_samples + cdb_samples,
        "traces_validated_against_impl": stats.n + dbs.n + cbs.n,
        "disagreements_checked": stats.bad["agree"] + dbs.bad["agree"] + cbs.bad["agree"],
        "cases_failing_any_predicate": stats.failing + dbs.failing + cbs.failing,
        "struct_vs_text_model_mismatches": stats.bad["struct_is_text"] + dbs.bad["struct_is_text"] +
        cbs.bad["struct_is_text"],
        "vlan_database": {"evaluations": dbs.n, "distinct_nontrivial": dbs.nontrivial, "lines_histogram": dbs.lines,
                          "outcome_histogram": dbs.out, "emitted_command_histogram": dbs.cmds,
                          "cases_failing_any_predicate": dbs.failing, "failure_classes": dbs.classes},
        "cisco_vlan_blocks": {"evaluations": cbs.n, "distinct_nontrivial": cbs.nontrivial, "rows_histogram": cbs.lines,
                              "outcome_histogram": cbs.out, "emitted_command_histogram": cbs.cmds,
                              "cases_failing_any_predicate": cbs.failing, "failure_classes": cbs.classes},
        "kind_histogram": stats.kind,
        "lines_histogram": stats.lines,
        "outcome_histogram": stats.out,
        "distinct_cases_with_unchanged_and_changed_lines": stats.with_unchanged,
        "exhaustive": False,
    })
    ctx.assumptions += [
        "device semantics of the commands: `undo P a to b` / `no P [remove] a-b` remove the written VLANs, `P ...` / "
        "`P add ...` add them, `undo P all`, `undo instance N`, `P none` empty the list (Model.Vlan.step; definitions of "
        "the property, with sanity theorems C11_step_frame_idempotent, C11_step_inverse, C11_step_commute, "
        "C11_undo_all_is_removal_of_current, C11_whole_list_commands, C11_block_enter_undo)",
        "rule texts: rule_text_ok (prefix = its words joined by single blanks, no comma, does not end in a number / "
        "`to` / `add`, does not start with `undo` / `no`; reverse of multi_all = `undo` + prefix) - proved true of all "
        "shipped rule kinds; configuration rows in the printer's range (single blanks, `a to b` / `a-b,c`)",
        "lines of the old list are pairwise disjoint (a VLAN is written on one line), ranges have lo <= hi",
        "ASCII rows; str.split/isdigit/int modelled for ASCII digits",
        "huawei single: at most one changed line per side (the code asserts it)",
        "huawei global VLAN database: the VLANs of the device are the union of the `vlan batch` lines and of the "
        "`vlan N` blocks; `vlan N` (entering the block) creates VLAN N, `undo vlan N` and `undo vlan batch ... N ...` "
        "wipe it (Model.VlanDb.effect); one block per VLAN id, at most one `name` and one `description` row per block, "
        "no `undo ...` option rows; theorems additionally: a VLAN with a block in the new configuration that was in "
        "the old batch is in the new batch (outside: known finding)",
        "cisco/nexus `vlan` rule with blocks: the VLANs of the device are the union of the list rows and of the "
        "`vlan N` blocks; `vlan a,b-c` adds, `no vlan a,b-c` removes, entering `vlan N` creates VLAN N; child rows only "
        "under a row naming one VLAN, at most one `name` / `description` row, no `no ...` child rows; theorems "
        "additionally: in the old configuration a VLAN is written on one row (outside: known finding)",
    ]


def replay(ctx, doc):
    c = doc["replay"]["case"]
    if c.get("kind") == "cisco_vlandb":
        c = dict(c, old=[([tuple(r) for r in rs], k) for rs, k in c["old"]],
                 new=[([tuple(r) for r in rs], k) for rs, k in c["new"]])
        out = core.run_impl("c11_runner.py", [cdb_payload(c)])[0]
        res = core.run_case_files(ID, "case_cdb", IMPORTS, {"holds": "holds_cdb"}, [c_case_cdb(c, out)], tag="replay")
        d = core.coq_eval(ID, IMPORTS, [f"diagnose_cdb {c_input_cdb(c)} {c_out_db(out)}"], tag="diag_cdb")[0]
        print("impl:", out, "holds:", not res["holds"], "diagnosis:", d)
        return 1 if res["holds"] else 0
    if c.get("kind") == "hw_vlandb":
        c = dict(c, old=[(bool(f), [tuple(r) for r in rs]) for f, rs in c["old"]],
                 new=[(bool(f), [tuple(r) for r in rs]) for f, rs in c["new"]])
        out = core.run_impl("c11_runner.py", [db_payload(c)])[0]
        res = core.run_case_files(ID, TY_DB, IMPORTS, {"holds": "holds_db"}, [c_case_db(c, out)], tag="replay")
        d = diagnose_db([c], [out], [0])[0]
        print("impl:", out, "holds:", not res["holds"], "diagnosis:", d)
        return 1 if res["holds"] else 0
    c = dict(c, old=[(bool(f), [tuple(r) for r in rs]) for f, rs in c["old"]],
             new=[(bool(f), [tuple(r) for r in rs]) for f, rs in c["new"]])
    out = core.run_impl("c11_runner.py", [impl_payload(c)])[0]
    res = core.run_case_files(ID, TY, IMPORTS, {"holds": "holds"}, [c_case(c, out)], tag="replay",
                              extra_defs=KIND_DEFS)
    d = diagnose([c], [out], [0])[0]
    print("impl:", out, "holds:", not res["holds"], "diagnosis:", d)
    return 1 if res["holds"] else 0
