"""C20 — results are independent of processing history and inputs are left unmodified (DESIGN §3.C20)."""
from __future__ import annotations

import hashlib
import json

from .. import core, pipeline as P
from ..core import cstr, clist, cpair, cbool, cforest, cnat, copt

ID = "C20"
THEOREM_FILE = "Properties/C20.v"
META = {
    "text": "Proof (Coq): the shared Python objects are an explicit store (compiled patching rulebook = immutable rule "
            "tree + one cell per rule for the fields %logic functions assign to; compiled ACLs = immutable tree + the "
            "scratch attrs['match'] cell; caller's old/new trees); every statement of the pipeline that writes to an "
            "object it did not create updates the store unless the defensive copy of that call site is present. Which "
            "copies/caches are present, the census of all mutating statements of the pipeline functions and the list of "
            "%logic functions that assign to rule[...] are re-read from the source on every run (coq/Gen/Src_frames.v). "
            "Theorems for every finite job sequence: C20_frame (a job leaves the rule dictionaries, old and new "
            "unchanged), C20_match_irrelevant (no result depends on the ACL scratch cells), C20_history (the i-th "
            "result in any sequence equals the result in a fresh store), instantiated with the generated flags "
            "(C20_source_frames breaks when a deepcopy is removed or an unclassified write appears). "
            "Correspondence (the stronger half for aliasing): sequences of 2-6 jobs (mixed vendors, shipped rulebooks "
            "through the real provider and synthetic rulebooks through lru-cached compile_*_text, rules whose logic "
            "writes to rule[...], ACL objects and config objects reused across jobs, repeated jobs) run in ONE process "
            "and each job alone in a FRESH process; deep snapshots of old, new, the compiled rulebook and the static "
            "part of the ACLs before/after every call; Coq evaluates P_C20 on these observations and the agreement of "
            "the store model with the real results and rule dictionaries.  Targeted sequence families besides the random "
            "ones (harness/props/c20_families.py; all judged by the same P_C20, i.e. each job against the same job in a "
            "fresh process): model strings that differ only in case/spacing for every hardware flag the shipped templates "
            "branch on, with configs instantiating the rules inside the `%if hw...` blocks; one ACL text used by vendors "
            "that share a reverse prefix (A, B, A again) with `inactive:` rows on the path of a change; jobs with a "
            "non-empty RefTracker; jobs whose patch generation raises half-way (with references) followed by healthy "
            "jobs on the same rulebook.",
    "technique": "Coq frame/induction proof over an explicit store with generated call-site flags; vm_compute check of "
                 "history independence and snapshots on real one-process vs fresh-process runs",
    "note": "partial: aliasing is represented in the model only at the call sites the translator knows (make_diff, "
            "apply_diff_rb, _select_match, make_patch, _find_acl_matches, the compile caches) and for the rule fields "
            "the repository's logic functions write (reverse, force_commit, comment); an alias introduced elsewhere, or "
            "state kept by vendor logic/diff_logic functions, is visible only to the correspondence run. The model "
            "covers the plain rule language and the common logics plus the three rule-writing logics of the repository. "
            "Not in the store model (correspondence only): the RefTracker / Orderer.ref_insert path of patch_from_pre, the "
            "provider cache keyed by HardwareView, the vendor stamp of compiled ACLs and Juniper's `inactive:` "
            "normalisation - jobs of the targeted families that use them carry no model job and are judged by P_C20 on "
            "the real outputs only.",
}
IMPORTS = P.PIPE_IMPORTS + "\nFrom Annet Require Import Model.Frame Spec.P_C20."

WRITERS = {"common.default_instead_undo": "WDefaultInsteadUndo", "huawei.bgp.undo_commit": "WUndoCommit",
           "cisco.misc.ssh_key": "WSshKey", "c20x.stamp": "WStamp"}
COMMENTS = ["!!c1!!", "!!c2!!", "!!timeout=5!!"]


# ------------------------------------------------------------------ synthetic rulebooks with rule-writing logics

def decorate(rng, rules, p_writer):
    for r in rules:
        r.setdefault("wlogic", None)
        r.setdefault("comment", [])
        if r["ign"]:
            continue
        if rng.random() < p_writer and not r["mode"]:
            r["wlogic"] = rng.choice(list(WRITERS))
            r["logic"] = "default"
        if rng.random() < 0.2:
            r["comment"] = rng.sample(COMMENTS, rng.randint(1, 2))
        decorate(rng, r["kids"], p_writer)


def raw_rule20(r) -> str:
    s = P.raw_rule(dict(r, logic="default") if r.get("wlogic") else r)
    if r["ign"]:
        return s
    if r.get("wlogic"):
        s += f" %logic={r['wlogic']}"
    if r.get("comment"):
        s += " %comment=" + ",".join(r["comment"])
    return s


def rules_text20(rules, level=0) -> str:
    lines = []
    for r in rules:
        lines.append("    " * level + raw_rule20(r))
        if r["kids"] and not r["ign"]:
            lines.append(rules_text20(r["kids"], level + 1))
    return "\n".join(lines)


def coq_srule(r) -> str:
    if r["ign"] or r["glob"]:
        kl, kg = "[]", "[]"
    else:
        kl, kg = coq_srset_parts(r["kids"])
    w = copt(WRITERS[r["wlogic"]] if r.get("wlogic") else None)
    cm = clist(cstr(c) for c in (r.get("comment") or [])) if not r["ign"] else "[]"
    return f"(SRule {cstr(raw_rule20(r))} {cbool(r['ign'])} {P.coq_attrs(r)} {w} {cm} None {kl} {kg})"


def coq_srset_parts(rules):
    loc = [coq_srule(r) for r in rules if not (r["glob"] and not r["ign"])]
    glo = [coq_srule(r) for r in rules if r["glob"] and not r["ign"]]
    return clist(loc), clist(glo)


def coq_srset(rules) -> str:
    kl, kg = coq_srset_parts(rules)
    return f"({kl}, {kg})"


# ------------------------------------------------------------------ ACLs

def gen_acl(rng, rules, depth=0, allow_ign=False):
    out, seen = [], set()
    for r in rules:
        if r["ign"] or rng.random() > 0.75:
            continue
        pat = r["pat"]
        x = rng.random()
        if x < 0.15 and len(pat.split()) > 1:
            pat = pat.split()[0] + " ~"
        if pat in seen:
            continue
        seen.add(pat)
        a = {"pat": pat, "ign": False, "cd": rng.random() < 0.25, "prio": 0, "kids": []}
        if r["kids"] and rng.random() < 0.75:
            a["kids"] = gen_acl(rng, r["kids"], depth + 1, allow_ign)
        if allow_ign and rng.random() < 0.1:
            a = {"pat": pat, "ign": True, "cd": False, "prio": 0, "kids": []}
        out.append(a)
    if out and depth == 0 and rng.random() < 0.2:
        # two rules matching the same rows whose children are merged by _select_match
        base = rng.choice(out)
        if not base["ign"] and " " in base["pat"] and not base["pat"].endswith("~"):
            twin = dict(base, pat=base["pat"].split()[0] + " ~", cd=rng.random() < 0.5)
            if twin["pat"] not in seen:
                out.append(twin)
    return out


def acl_text(acl, level=0) -> str:
    lines = []
    for a in acl:
        lines.append("    " * level + ("!" if a["ign"] else "") + a["pat"] + (" %cant_delete=1" if a["cd"] else ""))
        if a["kids"]:
            lines.append(acl_text(a["kids"], level + 1))
    return "\n".join(lines)


def coq_asrule(a) -> str:
    rid = ("!" if a["ign"] else "") + a["pat"]
    return (f"(ASRule {cstr(rid)} {cstr(a['pat'])} {cbool(a['ign'])} [{cbool(a['cd'])}] {cnat(a['prio'])} "
            f"{clist(coq_asrule(k) for k in a['kids'])} [])")


def coq_acl(key, acl) -> str:
    return copt(None if acl is None else f"({cstr(key)}, ({clist(coq_asrule(a) for a in acl)}, []))")


def sha(*xs) -> str:
    return hashlib.sha1(json.dumps(xs).encode()).hexdigest()[:16]


# ------------------------------------------------------------------ jobs and sequences

def gen_rulebook(rng, writers=True):
    v = rng.choice(P.BLOCK_VENDORS)
    rules = P.gen_rules(rng, max_depth=2, width=(1, 4))
    decorate(rng, rules, 0.3 if writers else 0.0)
    if writers and rng.random() < 0.25:
        rules.insert(rng.randrange(len(rules) + 1),
                     {"pat": "ip ssh version *", "ign": False, "glob": False, "logic": "default", "mode": "", "parent": False,
                      "force_commit": False, "kids": [], "wlogic": "cisco.misc.ssh_key", "comment": rng.sample(COMMENTS, rng.randint(0, 1))})
    if writers and rng.random() < 0.3:
        rules.insert(rng.randrange(len(rules) + 1),
                     {"pat": rng.choice(["bgp", "bgp *"]), "ign": False, "glob": False, "logic": "default", "mode": "", "parent": False,
                      "force_commit": rng.random() < 0.7, "kids": [], "wlogic": "huawei.bgp.undo_commit", "comment": []})
    orules = P.gen_ordering(rng, rules, P.VENDORS[v][0]) if rng.random() < 0.6 else []
    text = rules_text20(rules)
    return {"vendor": v, "rules": rules, "orules": orules, "patching": text, "ordering": P.ordering_text(orules),
            "key": sha("rb", v, text)}


def gen_synth_job(rng, rb, ids):
    old = P.gen_config(rng, rb["rules"])
    if any(r.get("wlogic") == "cisco.misc.ssh_key" for r in rb["rules"]) and rng.random() < 0.5:
        old.pop("ip ssh version 2", None)
    new = P.mutate_config(rng, old, rb["rules"], rate=rng.choice([0.3, 0.5, 0.7]))
    if any(r.get("wlogic") == "cisco.misc.ssh_key" for r in rb["rules"]) and rng.random() < 0.6:
        new["ip ssh version 2"] = {}
    if rng.random() < 0.3:
        old, new = new, old
    acl = facl = None
    if rng.random() < 0.3:
        if not rb.get("acls"):
            rb["acls"] = [gen_acl(rng, rb["rules"]) for _ in range(2)]
        acl = rng.choice(rb["acls"])
    if rng.random() < 0.1:
        if not rb.get("facls"):
            rb["facls"] = [gen_acl(rng, rb["rules"], allow_ign=True)]
        facl = rb["facls"][0]
    ids[0] += 1
    job = {"kind": "synth", "vendor": rb["vendor"], "rb": rb, "patching": rb["patching"], "ordering": rb["ordering"],
           "acl_s": acl, "facl_s": facl, "acl": None if acl is None else acl_text(acl),
           "facl": None if facl is None else acl_text(facl), "old": old, "new": new,
           "old_id": f"t{ids[0]}a", "new_id": f"t{ids[0]}b", "add_comments": rng.random() < 0.5}
    prev = rb.get("last_job")
    if prev is not None and rng.random() < 0.25:
        # a device processed again: what was `new` is now `old` — the very same object
        job["old"], job["old_id"] = prev["new"], prev["new_id"]
    rb["last_job"] = job
    return job


def gen_shipped_job(rng, corpus, ids, sample=None):
    hws = sorted({x["hw"] for x in corpus})
    hw = rng.choice(hws)
    s = sample or rng.choice([x for x in corpus if x["hw"] == hw])
    old, new = s["old"], s["new"]
    if rng.random() < 0.3:
        t = rng.choice([x for x in corpus if x["hw"] == s["hw"]])
        new = t[rng.choice(["old", "new"])]
    acl = None
    if rng.random() < 0.3:
        rows = list(dict.fromkeys(list(old) + list(new)))
        rng.shuffle(rows)
        keep = rows[: max(1, len(rows) // 2)]
        acl = "\n".join(sorted({(r.split()[0] + " ~") if len(r.split()) > 1 else r for r in keep
                                if r and all(ch not in r for ch in "%*~()[]|\\^$?+{}<>")}))
        acl = acl or None
    ids[0] += 1
    return {"kind": "shipped", "vendor": s["vendor"], "hw": s["hw"], "name": s["name"], "acl": acl, "facl": None,
            "old": old, "new": new, "old_id": f"s{ids[0]}a", "new_id": f"s{ids[0]}b", "add_comments": rng.random() < 0.3}


def gen_sequence(rng, corpus, kind):
    """kind: 'synth' (all jobs modelled), 'mixed' (shipped and synthetic), 'shipped'"""
    ids = [0]
    n = rng.randint(2, 6)
    rbs = [gen_rulebook(rng) for _ in range(rng.choice([1, 1, 2]))] if kind != "shipped" else []
    jobs = []
    for _ in range(n):
        if jobs and rng.random() < 0.25:
            j = dict(rng.choice(jobs))                      # the same job again: same objects, same ACL
            if rng.random() < 0.3 and j["kind"] == "synth":  # ... or the same trees under another comment mode
                j["add_comments"] = not j["add_comments"]
            jobs.append(j)
            continue
        if kind == "shipped" or (kind == "mixed" and rng.random() < 0.5):
            jobs.append(gen_shipped_job(rng, corpus, ids))
        else:
            jobs.append(gen_synth_job(rng, rng.choice(rbs), ids))
    return jobs


def payload_job(j) -> dict:
    return {k: j.get(k) for k in ("kind", "vendor", "hw", "patching", "ordering", "acl", "facl", "old", "new",
                                  "old_id", "new_id", "add_comments", "refs")}


# ------------------------------------------------------------------ Coq printers

class Share:
    """Term sharing inside one case: equal large subterms (the same tree handed in and observed before/after,
    the same result in the sequence and in the fresh process, the rulebook of several jobs) are printed once
    and let-bound.  Pure compression of the printed term: Coq still evaluates every comparison."""

    def __init__(self):
        self.names: dict[str, str] = {}

    def __call__(self, term: str) -> str:
        if len(term) < 60:
            return term
        if term not in self.names:
            self.names[term] = f"s{len(self.names)}"
        return self.names[term]

    def wrap(self, body: str) -> str:
        return "".join(f"let {n} := {t} in " for t, n in self.names.items()) + body


def coq_job(j, sh) -> str:
    rb = j["rb"]
    return ("(Job " + " ".join([
        P.coq_vendor(j["vendor"]), cstr(rb["key"]), sh(coq_srset(rb["rules"])), sh(P.coq_ordering(rb["orules"])),
        sh(coq_acl(sha("acl", j["vendor"], j["acl"]), j["acl_s"])), sh(coq_acl(sha("facl", j["vendor"], j["facl"]), j["facl_s"])),
        sh(cforest(j["old"])), sh(cforest(j["new"])), cbool(j["add_comments"])]) + ")")


def coq_jin(j, sh) -> str:
    job = coq_job(j, sh) if j["kind"] == "synth" and "rb" in j else None
    return f"(JIn {copt(job)} {sh(cforest(j['old']))} {sh(cforest(j['new']))})"


def coq_rres(r) -> str:
    if r is None or "fatal" in r:
        return '(RRes [] None "runner-failure" None)'
    patch = None if r.get("err") else P.coq_ptree(r["patch"])
    diff = "[]" if r.get("err") else P.coq_diff(r["diff"])
    ordered = None if "ordered" not in r else cforest(r["ordered"])
    return f"(RRes {diff} {copt(patch)} {cstr(r.get('err') or '')} {copt(ordered)})"


def coq_cells(cs) -> str:
    return clist(f"(Cell {cstr(c['reverse'])} {cbool(c['fc'])} {clist(cstr(x) for x in c['comment'])} "
                 f"{clist(cstr(x) for x in c.get('context', []))})" for c in (cs or []))


def coq_jobs20(o, sh) -> str:
    s = o["seq"]
    return ("(JObs " + " ".join([
        sh(coq_rres(s["result"])), sh(coq_rres(o["fresh"])),
        copt(sh(coq_rres(o["fresh_spawn"])) if "fresh_spawn" in o else None),
        sh(cforest(s["old_before"])), sh(cforest(s["old_after"])), sh(cforest(s["new_before"])), sh(cforest(s["new_after"])),
        cstr(s["rb_before"]), cstr(s["rb_after"]), cstr(s["acl_static_before"]), cstr(s["acl_static_after"]),
        sh(coq_cells(s.get("cells_before"))), sh(coq_cells(s.get("cells_after")))]) + ")")


def coq_seq(jobs, obs) -> str:
    sh = Share()
    body = f"({clist(coq_jin(j, sh) for j in jobs)}, {clist(coq_jobs20(o, sh) for o in obs['jobs'])})"
    return "(" + sh.wrap(body) + ")"


# ------------------------------------------------------------------ the correspondence run

CLAUSES = {
    "history": "a job's diff / patch / ordered config inside a sequence differs from the same job in a fresh process",
    "spawn": "a job in a process forked from the pristine state differs from the job in a newly started interpreter",
    "inputs": "the caller's old or new tree is not, before or after a call, the tree that was handed in",
    "rulebook": "the deep snapshot of the compiled rulebook after a call differs from the one before it",
    "acl_static": "a compiled ACL changed in something other than its scratch 'match' field",
}


FLAG_ORDER = ["diff_copy_old", "diff_copy_new", "diff_pops_old", "diff_pops_new", "select_copy", "patch_copy",
              "acl_match_write", "cache_patching", "cache_acl"]
_FRAMES = {"term": None}


def frames_term() -> tuple[str, str]:
    """(extra import, Coq term for the call-site flags of the current source).  The flags are the ones the
    translator has read in THIS run (a literal record, so that a concurrent run against another copy of the
    repository that rewrites coq/Gen cannot change what the model is compared with)."""
    if _FRAMES["term"] is None:
        from ..translators import tr_frames
        summary = tr_frames.translate(core.REPO)[0][2]
        _FRAMES["term"] = "(Frames " + " ".join(cbool(summary["flags"][k]) for k in FLAG_ORDER) + ")"
        _FRAMES["summary"] = summary
    return "", _FRAMES["term"]


def run_sequences(ctx, seqs, tag, spawn):
    payloads = [[payload_job(j) for j in s] for s in seqs]
    shards = min(core.NPROC, max(1, len(payloads) // 4))
    outs = core.run_impl_sharded("c20_runner.py", payloads, shards=shards, timeout=1500,
                                 wrap=lambda c: {"mode": "seqs", "seqs": c, "spawn": spawn})
    return outs


def evaluate(ctx, seqs, outs, tag):
    imp, fr = frames_term()
    good = [i for i, o in enumerate(outs) if "jobs" in o and all("fatal" not in (x.get("fresh") or {}) for x in o["jobs"])]
    for i, o in enumerate(outs):
        if i not in set(good):
            ctx.add_violation(core.Violation(
                signature="C20/runner-failure", what="the job runner failed: " + str(o)[:600],
                replay={"jobs": [payload_job(j) for j in seqs[i]], "impl": o}, no_input=True))
            break
    terms = [coq_seq(seqs[i], outs[i]) for i in good]
    preds = {"holds": "P_C20", "agree": f"agree_C20 {fr}", "cells_compile": "first_cells_stable",
             "conservative": f"conservative_C20 {fr}"}
    preds.update({f"cl_{k}": f"all2 c20_{k}" for k in CLAUSES})
    per_file = max(6, -(-len(terms) // core.NPROC))
    try:
        res = core.run_case_files(ID, "seq20", IMPORTS + "\n" + imp, preds, terms, per_file=per_file, tag=tag)
    except core.CheckFailure as e:
        # a coqc killed by the OOM killer on a saturated machine prints nothing: one more attempt, smaller files
        if str(e).strip().endswith("failed to compile:"):
            import time
            time.sleep(20)
            res = core.run_case_files(ID, "seq20", IMPORTS + "\n" + imp, preds, terms, per_file=max(4, per_file // 2), tag=tag)
        else:
            raise
    return good, {k: [good[j] for j in v] for k, v in res.items()}


def first_bad_job(seq, obs, clause):
    """index of the first job of the sequence for which the clause can be seen to fail (for the report only)"""
    for k, (j, o) in enumerate(zip(seq, obs["jobs"])):
        s = o["seq"]
        if clause == "history" and s["result"] != o["fresh"]:
            return k
        if clause == "inputs" and not (s["old_before"] == j["old"] == s["old_after"] and s["new_before"] == j["new"] == s["new_after"]):
            return k
        if clause == "rulebook" and (s["rb_before"] != s["rb_after"] or s.get("cells_before") != s.get("cells_after")):
            return k
        if clause == "acl_static" and s["acl_static_before"] != s["acl_static_after"]:
            return k
        if clause == "spawn" and "fresh_spawn" in o and o["fresh_spawn"] != o["fresh"]:
            return k
    return None


def shrink(ctx, seq, clause, imp_fr):
    """Drop jobs while Coq still finds the clause false on the real code's behaviour."""
    cur = list(seq)

    def fails(s):
        out = core.run_impl("c20_runner.py", {"mode": "seqs", "seqs": [[payload_job(j) for j in s]], "spawn": 0}, timeout=600)[0]
        if "jobs" not in out:
            return None
        r = core.run_case_files(ID, "seq20", IMPORTS + "\n" + imp_fr[0], {"c": f"all2 c20_{clause}"}, [coq_seq(s, out)], tag="shrink")
        return out if r["c"] else None
    best = None
    changed = True
    while changed and len(cur) > 1:
        changed = False
        for k in range(len(cur)):
            cand = cur[:k] + cur[k + 1:]
            out = fails(cand)
            if out is not None:
                cur, best, changed = cand, out, True
                break
    return cur, best


def signature_of(seq, obs, clause) -> str:
    k = first_bad_job(seq, obs, clause)
    kind = seq[k]["kind"] if k is not None else "?"
    extra = ""
    if k is not None and clause == "rulebook":
        ch = obs["jobs"][k]["seq"].get("rb_changed") or []
        fields = sorted({p.rsplit("/", 1)[-1] for p in ch})
        extra = "/" + "+".join(fields) if fields else ""
    if k is not None and clause == "history":
        a, b = obs["jobs"][k]["seq"]["result"], obs["jobs"][k]["fresh"]
        parts = [x for x in ("diff", "patch", "ordered", "err") if a.get(x) != b.get(x)]
        extra = "/" + "+".join(parts)
    return f"C20/{clause}/{kind}{extra}"


def correspondence(ctx, proof_ok=True):
    rng = ctx.rng("c20")
    corpus = core.run_impl("c20_runner.py", {"mode": "corpus"}, timeout=600)
    if not isinstance(corpus, list) or not corpus:
        raise core.CheckFailure("cannot load the shipped corpus: " + str(corpus)[:500])
    n_s, n_m, n_h = (900, 500, 300) if ctx.thorough else (150, 60, 40)
    if not proof_ok:
        n_s *= 2                           # broken obligation: search harder where the model says it matters
    seqs = [gen_sequence(rng, corpus, "synth") for _ in range(n_s)] + \
           [gen_sequence(rng, corpus, "mixed") for _ in range(n_m)] + \
           [gen_sequence(rng, corpus, "shipped") for _ in range(n_h)]
    if ctx.thorough or not proof_ok:
        # targeted part: every shipped sample (each vendor logic / diff_logic the corpus reaches) processed, then
        # processed again with the very same objects, then another sample of the same hardware
        for smp in corpus:
            ids = [0]
            a = gen_shipped_job(rng, corpus, ids, sample=smp)
            a["acl"] = None
            b = gen_shipped_job(rng, corpus, ids, sample=rng.choice([x for x in corpus if x["hw"] == smp["hw"]]))
            seqs.append([a, dict(a), b, dict(a, add_comments=not a["add_comments"])])
    # targeted families (harness/props/c20_families.py): re-spelt model strings on the `%if hw...` branches of the shipped
    # templates, one ACL text used by vendors sharing a reverse prefix (with `inactive:` rows), jobs with a non-empty
    # RefTracker, jobs that raise half-way followed by healthy jobs
    from . import c20_families
    fam_seqs, fam_info = c20_families.build(ctx, ctx.rng("c20fam"), corpus, gen_rulebook, gen_synth_job)
    # interleave (pure reordering): the sequences the store model evaluates are the expensive ones for Coq, spread them
    # over all case files
    import itertools
    seqs = [x for pair in itertools.zip_longest(seqs, fam_seqs) for x in pair if x is not None]
    ctx.coverage["targeted_families"] = fam_info
    import time
    t0 = time.time()
    outs = run_sequences(ctx, seqs, "seqs", spawn=2)
    t1 = time.time()
    good, res = evaluate(ctx, seqs, outs, "seqs")
    ctx.coverage["phase_seconds"] = {"real_code_runs": round(t1 - t0, 1), "coq_evaluation": round(time.time() - t1, 1)}
    imp_fr = frames_term()
    reported = set()
    for cl, what in CLAUSES.items():
        per_clause = 0
        for i in res[f"cl_{cl}"]:
            sig = signature_of(seqs[i], outs[i], cl)
            if sig in reported or per_clause >= 2:
                continue
            reported.add(sig)
            per_clause += 1
            small, out_small = shrink(ctx, seqs[i], cl, imp_fr) if len(reported) <= 3 else (seqs[i], None)
            out_small = out_small or outs[i]
            k = first_bad_job(small, out_small, cl)
            fam = seqs[i][0].get("family")
            ctx.add_violation(core.Violation(
                signature=sig, what=what + (f" (job {k + 1} of {len(small)})" if k is not None else "") +
                (f" [sequence family: {fam}]" if fam else ""),
                replay={"clause": cl, "jobs": [payload_job(j) for j in small], "impl": out_small, "failing_job": k,
                        "family": fam}))
    if not res["holds"]:
        for lab, what in (("agree", "the store model (Model/Frame.v with the call-site flags of the current source) and the real "
                                    "code differ on a job's result, on old/new after the call or on the rule dictionaries"),
                          ("cells_compile", "the compiled rule dictionaries of a synthetic rulebook differ from the model's compile"),
                          ("conservative", "Model/Frame.v and Model/Pipeline.v differ on a job without ACL, comments and rule-writing "
                                           "logics (the store model is not a conservative extension of the pipeline model)")):
            for i in res[lab][:1]:
                ctx.add_violation(core.Violation(
                    signature=f"C20/model-impl-disagree/{lab}",
                    what=what + "; P_C20 holds on every observation explored",
                    replay={"correspondence": lab, "jobs": [payload_job(j) for j in seqs[i]], "impl": outs[i]}, no_input=True))
    # coverage
    seen, nt = set(), 0
    hist = {"jobs": 0, "synth": 0, "shipped": 0, "with_acl": 0, "with_filter_acl": 0, "repeated": 0, "writer_logic_jobs": 0,
            "assertion_errors": 0, "add_comments": 0, "with_references": 0, "raised": 0, "raised_with_references": 0,
            "healthy_after_a_raising_job_with_references": 0, "inactive_rows": 0}
    fam_hist = {}
    lens, vend, wl = {}, {}, {}

    def writers_in(rules):
        out = []
        for r in rules:
            if r.get("wlogic"):
                out.append(r["wlogic"])
            out += writers_in(r["kids"])
        return out
    for i in good:
        s = seqs[i]
        lens[len(s)] = lens.get(len(s), 0) + 1
        keys = set()
        shared_rb = False
        nonempty = 0
        fam_hist[s[0].get("family") or "random"] = fam_hist.get(s[0].get("family") or "random", 0) + 1
        poisoned = False
        for j, o in zip(s, outs[i]["jobs"]):
            rr = o["seq"]["result"]
            hist["with_references"] += bool(j.get("refs"))
            hist["raised"] += bool(rr.get("err"))
            hist["raised_with_references"] += bool(rr.get("err")) and bool(j.get("refs"))
            hist["healthy_after_a_raising_job_with_references"] += poisoned and not rr.get("err")
            poisoned |= bool(rr.get("err")) and bool(j.get("refs"))
            hist["inactive_rows"] += any(str(r).startswith("inactive: ") for r in list(j["old"]) + list(j["new"]))
            hist["jobs"] += 1
            hist[j["kind"]] += 1
            hist["with_acl"] += j["acl"] is not None
            hist["with_filter_acl"] += j.get("facl") is not None
            hist["add_comments"] += bool(j["add_comments"])
            vend[j["vendor"]] = vend.get(j["vendor"], 0) + 1
            k = (j["kind"], j.get("patching") or j.get("hw"))
            shared_rb |= k in keys
            keys.add(k)
            if j["kind"] == "synth" and "rb" in j:
                ws = writers_in(j["rb"]["rules"])
                hist["writer_logic_jobs"] += bool(ws)
                for w in set(ws):
                    wl[w] = wl.get(w, 0) + 1
            r = o["seq"]["result"]
            hist["assertion_errors"] += r.get("err") == "AssertionError"
            nonempty += bool(r.get("patch"))
        hist["repeated"] += len(s) - len({(j["old_id"], j["new_id"], j["add_comments"]) for j in s})
        hist["chained_configs"] = hist.get("chained_configs", 0) + sum(
            1 for a in s for b in s if a is not b and a["old_id"] == b["new_id"]) 
        h = core.canon_hash([payload_job(j) for j in s])
        if h not in seen:
            seen.add(h)
            nt += shared_rb and nonempty >= 2
    ctx.coverage.update({
        "evaluations": hist["jobs"],
        "sequences": len(good),
        "distinct_nontrivial": nt,
        "rule": "sequences of 2-6 jobs; distinct by the whole sequence; non-trivial = at least two jobs of the sequence share "
                "a compiled rulebook object and at least two jobs produce a non-empty patch",
        "samples": [{"jobs": [payload_job(j) for j in seqs[i]][:2]} for i in good[:1]],
        "traces_validated_against_impl": sum(1 for i in good for j in seqs[i] if j["kind"] == "synth" and "rb" in j),
        "disagreements_checked": len(res["agree"]) + len(res["cells_compile"]) + len(res["conservative"]),
        "fresh_process_runs": hist["jobs"], "fresh_interpreter_runs": sum(1 for i in good for o in outs[i]["jobs"] if "fresh_spawn" in o),
        "sequence_family_histogram": fam_hist, "sequence_length_histogram": lens, "vendor_histogram": vend, "job_histogram": hist, "writer_logic_histogram": wl,
        "shipped_corpus_samples": len(corpus),
    })
    ctx.assumptions += [
        "PYTHONHASHSEED=0 in every process; results compared after canonicalisation (diff entries with rule and key, patch rows "
        "with nesting and order, ordered config); sort keys, contexts and addresses are not compared",
        "a process forked from the just-imported interpreter (no job ever processed) stands for a fresh process; the first jobs "
        "of every shard are also run in a newly started interpreter and compared (clause spawn)",
        "the model covers the plain rule language (C07), the common logics and the rule-writing logics "
        "common.default_instead_undo, huawei.bgp.undo_commit, cisco.misc.ssh_key and the harness probe c20x.stamp",
    ]
    return seqs, outs, res


def run(ctx):
    import time
    t0 = time.time()
    rep = core.proof_stage(ctx, THEOREM_FILE)
    ctx.coverage["proof_stage_seconds"] = round(time.time() - t0, 1)
    gen = ctx.coverage.get("gen_tables", {}).get("Src_frames.v")
    if isinstance(gen, dict):
        ctx.coverage["source_frames"] = {k: gen.get(k) for k in ("known", "reasons", "flags", "caches", "rule_writers",
                                                                  "diff_writers", "match_attr_writers")}
        ctx.notes.append("call-site flags read from the source: " + json.dumps(gen["flags"]))
    correspondence(ctx, proof_ok=rep.compiled)
    if not rep.compiled:
        # the broken obligation is named; a concrete failing sequence found above takes precedence (core.finish)
        for v in ctx.violations:
            if v.no_input and v.signature.endswith("theorem-does-not-check"):
                v.what += "; no job sequence on the real code violating P_C20 was found" if not any(
                    not w.no_input for w in ctx.violations) else ""
                v.replay["source_frames"] = gen if isinstance(gen, dict) else str(gen)
                why = []
                if isinstance(gen, dict):
                    fl = gen.get("flags", {})
                    if not gen.get("known"):
                        why.append("unclassified source shape: " + "; ".join(gen.get("reasons", [])[:3]))
                    for copy_flag, pops in (("diff_copy_old", "diff_pops_old"), ("diff_copy_new", "diff_pops_new")):
                        if fl.get(pops) and not fl.get(copy_flag):
                            why.append(f"make_diff no longer hands apply_diff_rb a deepcopy ({copy_flag} = false)")
                    if not fl.get("select_copy"):
                        why.append("_select_match no longer deep-copies the rule attrs into the match (select_copy = false)")
                    if not fl.get("patch_copy"):
                        why.append("make_patch no longer deep-copies the rule attrs per (rule, key) (patch_copy = false)")
                    extra = [w for w, _ in gen.get("rule_writers", []) if w not in WRITERS]
                    if extra:
                        why.append("rule-writing %logic functions that are not modelled: " + ", ".join(extra))
                else:
                    why.append("translator failed: " + str(gen)[:300])
                v.replay["theorem"] = "C20_source_frames (Properties/C20.v): src_frames_known /\\ frames_ok src_frames /\\ writers covered"
                v.replay["broken_because"] = why
                if why:
                    v.what += " [" + "; ".join(why)[:500] + "]"


def replay(ctx, doc):
    """Re-run the recorded job sequence on the real code (one process vs fresh processes) and let Coq
    evaluate the clauses of P_C20 on what is observed now."""
    r = doc["replay"]
    if "jobs" not in r:
        print(json.dumps(r, indent=1)[:3000])
        return 1
    out = core.run_impl("c20_runner.py", {"mode": "seqs", "seqs": [r["jobs"]], "spawn": len(r["jobs"])}, timeout=900)[0]
    if "jobs" not in out:
        print("runner failed:", str(out)[:1500])
        return 1
    preds = {"holds": "P_C20"}
    preds.update({f"cl_{k}": f"all2 c20_{k}" for k in CLAUSES})
    res = core.run_case_files(ID, "seq20", IMPORTS, preds, [coq_seq(r["jobs"], out)], tag="replay")
    failed = [k for k in CLAUSES if res[f"cl_{k}"]]
    for k in failed:
        print(f"clause {k} is false on the real code: {CLAUSES[k]} (job {first_bad_job(r['jobs'], out, k)})")
    print("P_C20 holds on the replayed sequence" if not res["holds"] else "P_C20 is FALSE on the replayed sequence")
    return 1 if res["holds"] else 0
