"""C02 — a patch never touches configuration outside the generators' ACL (DESIGN §3.C02)."""
from __future__ import annotations

import copy
import random

from .. import core, pipeline as P, aclgen as A
from ..core import cstr, clist, cbool, cforest, copt

ID = "C02"
THEOREM_FILE = "Properties/C02.v"
META = {
    "text": "Model: coq/Model/AclPipeline.v is _diff_and_patch with an ACL (apply_acl on old and new, make_diff, apply_acl_diff "
            "with the REMOVED->AFFECTED rule for cant_delete, mark/strip, make_pre, make_patch, cmd_paths) over the ACL model of C06. "
            "Proved for ALL ACLs, rulebooks, orderings, block formatters and configurations of any depth (abstract row matchers): "
            "(a) C02_cmds_covered - every command path is ACL-covered level by level, the last element matched by the ACL, or the "
            "negation of a REMOVED non-cant_delete (or MOVED %ordered) entry of the shown diff, or an exit word (guard: regular diff = "
            "no %force_commit, one attribute set per rule text); C02_diff_covered and C02_cant_delete_not_removed - the diff never "
            "mentions an unmatched row and never marks a cant_delete row REMOVED (unguarded). Device level (reference device "
            "Model/Device.v), rows at EVERY depth: the cursor invariant of Device.exec_path (C02_device_cursor, _cursor_elsewhere, "
            "_siblings_untouched: a path h1..hk c changes only the block reached by h1..hk, siblings and their subtrees stay) and "
            "C02_device_chain_kept (any command stream that leaves a chain of blocks alone keeps it; entering a block keeps its "
            "children except those of %rewrite rules); C02_cant_delete_kept - along a chain of passed ancestor blocks that the diff "
            "neither removes nor replaces, the slot of a cant_delete row is still occupied after the whole stream; "
            "C02_uncovered_untouched - a row the ACL does not pass is still there with exactly its subtree, under the explicit "
            "slot-closed hypothesis; C02_removed_block_not_recreated - a block the diff removes is untouched or gone, never re-created "
            "(rests on C02_patch_items_sharp: only the `permanent` logic answers a REMOVED entry with a direct command); the hypotheses "
            "are the top-level ones, stated per level on the entries of the diff. For the model pipeline the clauses of the run-time "
            "predicate themselves: C02_cant_delete_kept_of_model / C02_uncovered_untouched_of_model / C02_weak_holds_of_model - "
            "C02_c, C02_b, P_C02_weak = true for all inputs that satisfy the computable guards c_deep_guard / b_deep_guard (block "
            "formatter, regular diff, per-row conditions for every row of old at every depth); C02_cant_delete_kept_full_of_model / "
            "C02_holds_of_model - the full form of (c) and P_C02 itself = true when moreover no cant_delete row sits inside a block "
            "the diff removes (c_full_guard: the class of the open finding is the only obstacle). FROM THE DEVICE DOMAIN ALONE "
            "(Proofs/AclGuardDomain.v): C02_diff_level_in_domain - inside the domain every entry of a level of the diff is the "
            "entry of a row of the filtered new (ADDED, or AFFECTED/UNCHANGED) or of a row of the filtered old that new lacks "
            "(REMOVED, or AFFECTED/UNCHANGED under cant_delete), and below a kept entry the diff is again such a diff; "
            "C02_diff_regular_in_domain; C02_c_guard_from_domain / C02_b_guard_from_domain / C02_c_full_guard_from_domain - the "
            "guards on the diff follow from hypotheses on old, the filtered new and the rulebook only (c02_dev_domain_A = "
            "P_C01.wf_A = the domain without %force_commit; c02_rules_det = one attribute set per rule text on the rule sets old "
            "reaches; c02_kept_ok = no block with children absent from new that is cant_delete and replaced by another row of its "
            "slot, or `permanent`; c02_closed for (b)); hence C02_cant_delete_kept_in_domain, C02_uncovered_untouched_in_domain, "
            "C02_weak_holds_in_domain, and with c02_kept_ok_full (no cant_delete row inside a deletable block absent from new) "
            "C02_cant_delete_kept_full_in_domain and C02_holds_in_domain (P_C02 itself). The top-level theorems "
            "(_partial, _top_guarded) are kept. Witness theorems: C02_rewrite_is_not_removal, C02_slot_split_refuted, "
            "C02_cant_delete_ancestor_refuted (open finding). Correspondence: generated ACL texts (nesting, *, ~, %global, "
            "%cant_delete, %prio, reverse-form lines, 1-3 generators merged by the real _combine_acl_text), rulebooks and trees with "
            "uncovered rows beside and below; Coq evaluates model==implementation (apply_acl, make_diff with ACL, diff, patch, "
            "cmd_paths, patch text) and the full predicate P_C02 - clauses (a),(b),(c) at every depth - on the real cmd_paths and diff; "
            "the guards of the full-depth theorems are evaluated on every in-domain case (coverage: deep_guard_*). "
            "GENERATOR STAGE (Spec/P_C02Gen.v, Proofs/AclGenStage.v, harness/impl/c02_gen_runner.py): the real "
            "annet.gen._old_new_per_device is driven with the device configuration as text and 1-3 real PartialGenerator "
            "subclasses replaying generated programs, each of them running, or skipped for the device (no run_<vendor>, "
            "supports_device() false, NotSupportedDevice before or after yielding), with and without a pass-all --filter-acl; "
            "_diff_and_patch then gets old / new / acl_rules / filter_acl_rules of the returned result object. Coq evaluates "
            "the same report (P_C02 clauses and model==implementation) with the REFERENCE ACL = union of the ACLs of the "
            "generators that support the device (none = the empty ACL = nothing may be touched), old = the full device "
            "configuration, and compares the result object's old / new with the model's apply_acl, and the command paths "
            "with those of the direct _diff_and_patch call. Proved for all inputs: C02_no_running_generator_nothing_touched "
            "(no generator runs => empty reference ACL, empty diff, no command, device unchanged), "
            "C02_skipped_generator_is_irrelevant, C02_empty_acl_filters_everything. Which generators ran is compared with the "
            "modes by the runner's output (a plain equality of names, not a Coq predicate).",
    "technique": "Coq induction over diff / patch trees, the formatter's block stream, device command streams and chains of device "
                 "blocks; vm_compute evaluation of P_C02 and of model==implementation on real _diff_and_patch outputs with generated ACLs",
    "note": "partial: (b) and (c) are proved at every depth from the device domain alone for block formatters, without "
            "%force_commit, outside two classes stated on old/new (c02_kept_ok: a block with children, absent from new, that is "
            "cant_delete while new holds another row of its slot, or is `permanent` and not cant_delete - the clauses hold on the "
            "witnesses C02_kept_classes_witness but need a sharper patch relation) and for rulebooks with one attribute set per "
            "rule text. C02_cant_delete_kept_statement / C02_uncovered_untouched_statement stay Definitions; the latter is false "
            "over the whole of c02_dev_domain: C02_uncovered_untouched_statement_refuted / C02_force_commit_refuted (the reference "
            "device reads the pseudo-command `commit` as a command and overwrites an uncovered row of a rule whose text is "
            "`commit`; real command paths identical; a limit of the statement, not of the code). Measured on every run "
            "(coverage domain_theorem_hypotheses_hold_in_domain): the hypotheses of the domain theorems hold for about 91% of the "
            "in-domain cases, the guards on the diff for about 93%; on all cases the clauses are evaluated by Coq on the real output. Open "
            "finding C02/c/cant_delete-row-lost-with-its-ancestor-block: cant_delete is not inherited by ancestor blocks, so (c) without "
            "an ancestor exception is false on the unchanged tree (witness replayed on the real code on every run). "
            "Juniper/Nokia/RouterOS flattened command forms are out of scope.",
}
IMPORTS = (P.PIPE_IMPORTS + "\nFrom Annet Require Import Model.Device Model.Acl Model.AclPipeline Spec.P_C01 Spec.P_C02.")
# the computable guards of the full-depth theorems (Proofs/AclDeviceNested.v), evaluated on the in-domain cases
IMPORTS_DEEP = IMPORTS + "\nFrom Annet Require Import Proofs.AclPipelineProofs Proofs.AclDeviceNested Proofs.AclGuardDomain."

GEN_NAMES = ["g1", "g2", "g3"]


# ------------------------------------------------------------------ generator

def rename_to_interface(rng: random.Random, rules: list[dict]) -> None:
    """the built-in cant_delete default looks at rows starting with 'interface': make some rules such rows"""
    cands = [r for r in rules if not r["ign"]]
    if cands and rng.random() < 0.55:
        r = rng.choice(cands)
        ws = r["pat"].split()
        ws[0] = "interface"
        pat = " ".join(ws)
        if all(x["pat"] != pat for x in rules):
            r["pat"] = pat
    for r in rules:
        if r["kids"] and rng.random() < 0.15:
            rename_to_interface(rng, r["kids"])


def acl_params(rng: random.Random, it: dict, tagged: bool) -> dict:
    if rng.random() < 0.10:
        it["glob"] = True
    x = rng.random()
    if x < 0.22:
        it["cd"] = [True]
        it["cd_bare"] = rng.random() < 0.5
    elif x < 0.36:
        it["cd"] = [False]
    if rng.random() < 0.12:
        it["prio"] = rng.choice([0, 1, 1, 2, 5])
        it["prio_explicit"] = True
    if not tagged and rng.random() < 0.3:
        it["gens"] = [rng.choice(GEN_NAMES)]
    return it


def acl_pattern_of(rng: random.Random, pat: str, rev: str) -> str:
    ws = pat.split()
    x = rng.random()
    if x < 0.58:
        out = ws
    elif x < 0.70:                                         # a more specific line: one hole fixed
        out = [rng.choice(P.VAL[:3]) if (w == "*" and rng.random() < 0.7) else w for w in ws]
    elif x < 0.80:                                         # a wider line
        out = [ws[0], "~"] if len(ws) > 1 or rng.random() < 0.5 else [ws[0]]
    elif x < 0.88:                                         # mentions words the rule does not
        out = [w for w in ws if w != "~"] + [rng.choice(P.VAL[:4] + ["*"])]
    elif x < 0.93:
        out = [ws[0]]
    elif x < 0.97:
        out = ["~"]
    else:
        out = [rev] + ws                                   # written in the reverse form
    return " ".join(out)


def acl_from_rules(rng: random.Random, rules: list[dict], rev: str, tagged: bool, depth: int = 0,
                   select: float = 0.6) -> list[dict]:
    out = []
    used = set()
    for r in rules:
        if r["ign"] or rng.random() > select:
            continue
        for _ in range(2 if rng.random() < 0.12 else 1):
            pat = acl_pattern_of(rng, r["pat"], rev)
            it = acl_params(rng, {"pat": pat, "ign": False, "glob": False, "cd": None, "prio": 0, "gens": [], "kids": []}, tagged)
            if r["kids"] and not it["glob"] and depth < 3:
                y = rng.random()
                if y < 0.62:
                    it["kids"] = acl_from_rules(rng, r["kids"], rev, tagged, depth + 1, select=0.7)
                elif y < 0.80:
                    it["kids"] = [acl_params(rng, {"pat": "~", "ign": False, "glob": False, "cd": None, "prio": 0,
                                                   "gens": [], "kids": []}, tagged)]
                    it["kids"][0]["glob"] = rng.random() < 0.3
            if it["glob"]:
                it["kids"] = []
            if (pat, it["glob"]) in used and rng.random() < 0.7:
                continue
            used.add((pat, it["glob"]))
            out.append(it)
    if rng.random() < 0.12:
        out.append(acl_params(rng, {"pat": "unknown " + rng.choice(["*", "~", "1"]), "ign": False, "glob": False, "cd": None,
                                    "prio": 0, "gens": [], "kids": []}, tagged))
    if rng.random() < 0.2:
        rng.shuffle(out)
    return out


def strip_gens(items: list[dict]) -> list[dict]:
    return [dict(it, gens=[], kids=strip_gens(it.get("kids", []))) for it in items]


def tag(items: list[dict], name: str) -> list[dict]:
    """what _combine_acl_text does to every line of one generator's ACL"""
    return [dict(it, gens=[name], kids=tag(it.get("kids", []), name)) for it in items]


def sprinkle(rng: random.Random, t: dict, depth: int = 0) -> dict:
    """extra rows beside and below the rows the rulebook produced"""
    out = {}
    for k, v in t.items():
        out[k] = sprinkle(rng, v, depth + 1) if depth < 3 else v
    if rng.random() < 0.25:
        out["extra " + rng.choice(P.VAL)] = {} if rng.random() < 0.6 else {"alpha 1": {}, "mtu 2": {}}
    if rng.random() < 0.1:
        items = list(out.items())
        rng.shuffle(items)
        out = dict(items)
    return out


def rules_from_acl(rng: random.Random, acl: list[dict], depth: int = 0) -> list[dict]:
    """a patching rulebook whose rules follow the lines of an ACL (stream B)"""
    out, used = [], set()
    for it in acl:
        if it.get("ign"):
            continue
        pat = it["pat"]
        if rng.random() < 0.25 and len(pat.split()) > 1 and not pat.endswith("~"):
            pat = " ".join(pat.split()[:-1] + ["*"])
        if pat in used or pat.startswith("%"):
            continue
        used.add(pat)
        r = {"pat": pat, "ign": False, "glob": bool(it.get("glob")) and rng.random() < 0.7, "logic": "default", "mode": "",
             "parent": False, "force_commit": False, "kids": []}
        if rng.random() < 0.3:
            r["logic"] = rng.choice(P.LOGICS)
        if it.get("kids") and not r["glob"] and depth < 3:
            r["kids"] = rules_from_acl(rng, it["kids"], depth + 1)
        out.append(r)
    if rng.random() < 0.5:
        for p in ("alpha *", "unknown *", "mtu *"):
            if p not in used and rng.random() < 0.5:
                out.append({"pat": p, "ign": False, "glob": False, "logic": "default", "mode": "", "parent": False,
                            "force_commit": False, "kids": []})
    return out


def margin(text: str, pad: int) -> str:
    """A generator's acl() is a literal in its source, indented like the code around it: each generator's text
    gets its own left margin (the merged ACL must not depend on it: _combine_acl_text dedents per generator)."""
    if not pad:
        return text
    return "\n".join(" " * pad + l if l.strip() else l for l in text.split("\n")) + "\n"


def gen_case(rng: random.Random, k: int) -> dict:
    v = rng.choice(P.BLOCK_VENDORS)
    rev = P.VENDORS[v][0]
    x = rng.random()
    stream = "acl-first" if x < 0.22 else ("shared-children" if x < 0.32 else "rule-aligned")
    n_gen = rng.choice([0, 1, 1, 2, 2, 3])                # 0: one ACL text used as it is (may carry its own names)
    if stream == "shared-children":
        # overlapping parent rules of several generators, one of them contributing %global rules: rows matched
        # by one parent only must not see the other's rules (the compiled ACL is shared by all rows and passes)
        gparts, old = A.gen_acl_shared_children(rng, rev)
        n_gen = len(gparts)
        parts = [(GEN_NAMES[j], p) for j, p in enumerate(gparts)]
        full = [it for _, p in parts for it in p]
        rules = rules_from_acl(rng, full)
        if rng.random() < 0.5:
            old = sprinkle(rng, old)
        new = P.mutate_config(rng, old, rules, rate=rng.choice([0.15, 0.3, 0.5]))
    elif stream == "rule-aligned":
        allow_modes = rng.random() < 0.35
        rules = P.gen_rules(rng, allow_modes=allow_modes)
        rename_to_interface(rng, rules)
        old = sprinkle(rng, P.gen_config(rng, rules))
        new = P.mutate_config(rng, old, rules, rate=rng.choice([0.15, 0.3, 0.5]))
        if n_gen == 0:
            parts = [(None, acl_from_rules(rng, rules, rev, tagged=False))]
        else:
            parts = [(GEN_NAMES[j], acl_from_rules(rng, rules, rev, tagged=True, select=rng.choice([0.35, 0.6, 0.8])))
                     for j in range(n_gen)]
    else:
        aligned = True
        if n_gen == 0:
            base = A.gen_acl(rng, rev, aligned=aligned, ign_rate=0.04)
            parts = [(None, base)]
            full = base
        else:
            base = strip_gens(A.gen_acl(rng, rev, aligned=aligned))
            parts = [(GEN_NAMES[0], base)]
            for j in range(1, n_gen):
                parts.append((GEN_NAMES[j], strip_gens(A.gen_acl_variant(rng, base, rev, aligned))))
            full = [it for _, p in parts for it in p]
        rules = rules_from_acl(rng, full)
        if not rules:
            rules = P.gen_rules(rng, allow_modes=False)
        old = A.gen_tree(rng, full, v)
        if rng.random() < 0.5:
            old = sprinkle(rng, old)
        new = P.mutate_config(rng, old, rules, rate=rng.choice([0.15, 0.3, 0.5]))
    orules = P.gen_ordering(rng, rules, rev) if rng.random() < 0.5 else []
    if n_gen == 0:
        items = parts[0][1]
    else:
        items = [it for name, p in parts for it in tag(p, name)]
    return {"vendor": v, "rules": rules, "orules": orules, "old": old, "new": new, "stream": stream,
            "patching": P.rules_text(rules), "ordering": P.ordering_text(orules),
            "acls": [{"name": name, "text": A.acl_text(p)} for name, p in parts],
            "margins": [0 if name is None else rng.choice([0, 0, 0, 2, 4, 8]) for name, _ in parts],
            "filter": rng.random() < 0.25,
            "acl_items": items, "n_gen": n_gen}


# ------------------------------------------------------------------ Coq terms

def payload(c: dict) -> dict:
    d = {k: c[k] for k in ("vendor", "patching", "ordering", "old", "new", "acls")}
    d["filter"] = bool(c.get("filter"))
    pads = c.get("margins") or []
    d["acls"] = [dict(a, text=margin(a["text"], pads[j] if j < len(pads) and a.get("name") is not None else 0))
                 for j, a in enumerate(c["acls"])]
    return d


def coq_case(c: dict, o: dict) -> str:
    cerr = o.get("compile") is not None
    po = o if not cerr else {"err": "AssertionError"}
    gp = None if ("gen_paths" not in o) else P.coq_paths(o["gen_paths"])
    return ("(C02Case " + " ".join([
        P.coq_pcase(c, po), A.coq_avendor(c["vendor"]), A.coq_acl(c["acl_items"]), cbool(cerr),
        cforest(o.get("old_f", {})), cforest(o.get("new_f", {})), copt(gp)]) + ")")


AGREE = ["compile", "filter", "diff_full", "diff", "patch", "paths", "lines"]
CLAUSES = {"a": "a command path is not covered by the ACL level by level (or is the removal command of a cant_delete row)",
           "a_diff": "the diff shown mentions a row the ACL does not pass, or marks a cant_delete row REMOVED",
           "b": "a row of the device that the ACL does not pass was changed although its ancestors survive",
           "c": "the slot of a cant_delete row is empty after the patch"}
# the order of Spec/P_C02.v c2_report / c2_labels (checked against c2_labels on every run)
LABELS = ([f"agree_{a}" for a in AGREE] + ["gen_same", "holds", "cl_a", "cl_a_diff", "cl_b", "cl_c", "cl_c_deep",
          "st_domain", "st_closed", "st_b_unguarded", "st_c_text", "st_a_textual"])


def run_reports(terms: list[str], *, per_file: int = 20, tag: str = "cases", timeout: int = 900) -> dict[str, list[int]]:
    """core.run_case_files with one shared evaluation per case: Coq computes c2_report (the list of all
    agreement / property / statistics predicates of Spec/P_C02.v, proved equal to them in
    Proofs/AclPipelineProofs.v c2_report_spec) once per case and prints, per label, the cases where it is false."""
    import re
    import shutil
    from concurrent.futures import ThreadPoolExecutor
    core.ensure_built(IMPORTS)
    d = core.BUILD / "cases" / ID / tag
    if d.exists():
        shutil.rmtree(d)
    d.mkdir(parents=True)
    head = core.CASE_HEADER.split("{imports}")[0] + IMPORTS + "\n"
    files = []
    for k in range(0, len(terms), per_file):
        body = ";\n".join(f"({i}%nat, {terms[i]})" for i in range(k, min(len(terms), k + per_file)))
        txt = (head + "Definition cases : list (nat * c02case) := [\n" + body + "\n].\n"
               "Definition reports := Eval vm_compute in map (fun c => (fst c, c2_report (snd c))) cases.\n"
               "Eval vm_compute in c2_labels.\n" +
               "\n".join(f"Eval vm_compute in map fst (filter (fun r => negb (nth {j} (snd r) false)) reports)."
                         for j in range(len(LABELS))) + "\n")
        f = d / f"{tag}_{k // per_file}.v"
        f.write_text(txt)
        files.append(f)

    def one(f):
        p = core.coqc_file(f, timeout=timeout)
        for _ in range(3):      # another check rebuilt a shared library meanwhile: rebuild ours and retry
            if p.returncode == 0 or "inconsistent assumptions" not in (p.stdout + p.stderr):
                break
            core.ensure_built(IMPORTS)
            p = core.coqc_file(f, timeout=timeout)
        if p.returncode != 0:
            raise core.CheckFailure(f"case file {f} failed to compile:\n{(p.stdout + p.stderr)[-3000:]}")
        parts = re.split(r"^\s*=\s", p.stdout, flags=re.M)[1:]
        if len(parts) != len(LABELS) + 1:
            raise core.CheckFailure(f"unexpected coqc output for {f}: {p.stdout[-2000:]}")
        labels = re.findall(r'"([a-z_]+)"', parts[0])
        if labels != LABELS:
            raise core.CheckFailure(f"label order of Spec/P_C02.v differs from harness/props/c02.py: {labels}")
        return [core._parse_natlist(c) for c in parts[1:]]

    res = {l: [] for l in LABELS}
    with ThreadPoolExecutor(max_workers=core.NPROC) as ex:
        for out in ex.map(one, files):
            for l, idx in zip(LABELS, out):
                res[l].extend(idx)
    for f in files:
        for ext in (".vo", ".vok", ".vos", ".glob"):
            f.with_suffix(ext).unlink(missing_ok=True)
        (f.parent / ("." + f.stem + ".aux")).unlink(missing_ok=True)
    return res


def evaluate(ctx, cases: list[dict], tag: str = "cases"):
    outs = core.run_impl_sharded("c02_runner.py", [payload(c) for c in cases])
    bad = [i for i, o in enumerate(outs) if "fatal" in o or "diff_full_err" in o or
           ("err" in o and o["err"] != "AssertionError") or ("gen_err" in o and o["gen_err"] != "AssertionError")]
    for i in bad[:1]:
        ctx.add_violation(core.Violation(
            signature="C02/implementation-raised",
            what="the real pipeline raised an unexpected exception: " +
                 str(outs[i].get("fatal") or outs[i].get("err") or outs[i].get("diff_full_err") or outs[i].get("gen_err"))[:300],
            replay={"case": payload(cases[i]), "impl": outs[i]}))
    keep = [i for i in range(len(cases)) if i not in set(bad)]
    terms = [coq_case(cases[i], outs[i]) for i in keep]
    res = run_reports(terms, tag=tag)
    res = {k: [keep[j] for j in v] for k, v in res.items()}
    return outs, keep, res


def rep(c: dict, o: dict) -> dict:
    return {"case": payload(c), "acl_items": c["acl_items"], "stream": c["stream"], "impl": o}


# ------------------------------------------------------------------ corpus: the witnesses of Properties/C02.v

def _rule(pat, kids=()):
    return {"pat": pat, "ign": False, "glob": False, "logic": "default", "mode": "", "parent": False,
            "force_commit": False, "kids": list(kids)}


def _item(pat, cd=None, kids=()):
    return {"pat": pat, "ign": False, "glob": False, "cd": cd, "prio": 0, "gens": [], "kids": list(kids)}


def _witness(name, rules, acl, old, new):
    return {"vendor": "huawei", "rules": rules, "orules": [], "old": old, "new": new, "stream": "witness:" + name,
            "patching": P.rules_text(rules), "ordering": "", "acls": [{"name": None, "text": A.acl_text(acl)}],
            "acl_items": acl, "n_gen": 0}


WITNESSES = [
    _witness("guards", [_rule("interface *", [_rule("mtu *"), _rule("descr ~")]), _rule("vlan *")],
             [_item("interface *", kids=[_item("mtu *")])],
             {"interface Eth1": {"mtu 1500": {}, "descr a b": {}}, "interface Eth2": {"mtu 9000": {}}, "vlan 5": {}},
             {"interface Eth1": {"mtu 9000": {}}, "interface Eth3": {"mtu 1500": {}}}),
    _witness("ancestor", [_rule("alpha *", [_rule("beta *")])], [_item("alpha *", kids=[_item("beta *", cd=[True])])],
             {"alpha 1": {"beta 2": {}}}, {}),
    _witness("rewrite", [_rule("mtu *")], [_item("mtu *", cd=[True])], {"mtu 1 x": {}}, {"mtu 1 y": {}}),
    _witness("slot-split", [_rule("mtu *")], [_item("mtu * x")], {"mtu 1 y": {}}, {"mtu 1 x": {}}),
]
# label -> witnesses for which the label must be reported false (everything else must be true)
WITNESS_EXPECT = {"witness:guards": {"st_domain", "st_closed"},           # st_*: false = member of the class
                  "witness:ancestor": {"holds", "cl_c_deep", "st_domain", "st_closed"},
                  "witness:rewrite": {"st_c_text", "st_domain", "st_closed"},
                  "witness:slot-split": {"st_b_unguarded", "st_domain"}}
ANCESTOR_SIG = "C02/c/cant_delete-row-lost-with-its-ancestor-block"


def split_case(rng: random.Random, c: dict) -> dict:
    """a targeted slot split: the ACL passes 'P x' only, old holds 'P y' in the same (rule, key) slot"""
    for r in c["rules"]:
        ws = r["pat"].split()
        if r["ign"] or r["kids"] or r["glob"] or ws[-1] != "*" or r["mode"]:
            continue
        base = P.inst(rng, r["pat"], extra=False)
        c = dict(c)
        c["old"] = dict(c["old"], **{base + " y": {}})
        c["new"] = dict({k: v for k, v in c["new"].items() if k != base + " y"}, **{base + " x": {}})
        it = {"pat": r["pat"] + " x", "ign": False, "glob": False, "cd": None, "prio": 0, "gens": [], "kids": []}
        if c["n_gen"] == 0:
            c["acl_items"] = c["acl_items"] + [it]
            c["acls"] = [{"name": None, "text": c["acls"][0]["text"] + "\n" + A.acl_text([it])}]
        else:
            name = c["acls"][-1]["name"]
            c["acl_items"] = c["acl_items"] + tag([it], name)
            c["acls"] = c["acls"][:-1] + [{"name": name, "text": c["acls"][-1]["text"] + "\n" + A.acl_text([it])}]
        c["stream"] += "+split"
        return c
    return c


# ------------------------------------------------------------------ generator stage: annet.gen._old_new_per_device

GEN_MODES_OFF = ["novendor", "novendor_acl", "unsupported", "refuse", "refuse_late"]
GEN_SKIPS = ("hw-vendor", "old-text-round-trip", "acl-ignore-rule", "AclNotExclusiveError", "program-text-round-trip")


def gen_stage_case(rng: random.Random, k: int) -> dict:
    """A case of the main stream with 1-3 named generators, every generator with a `mode`: it runs for the device, or it
    is skipped (no run_<vendor>, supports_device() false, NotSupportedDevice before / after yielding).  The reference
    ACL (`acl_items`) is the union of the ACLs of the generators that run: no such generator = the empty ACL."""
    while True:
        c = gen_case(rng, k)
        if c["n_gen"] >= 1 and c["vendor"] != "pc" and c["old"]:
            break
    if c["stream"] == "rule-aligned" and rng.random() < 0.1:
        c = split_case(rng, c)
    names = [a["name"] for a in c["acls"]]
    x = rng.random()
    if x < 0.3:                                            # nobody runs
        modes = [rng.choice(GEN_MODES_OFF) for _ in names]
    elif x < 0.8:                                          # some run
        modes = [("run" if rng.random() < 0.5 else rng.choice(GEN_MODES_OFF)) for _ in names]
        if "run" not in modes:
            modes[rng.randrange(len(modes))] = "run"
        if len(modes) > 1 and all(m == "run" for m in modes):
            modes[rng.randrange(len(modes))] = rng.choice(GEN_MODES_OFF)
    else:
        modes = ["run" for _ in names]
    c["acls"] = [dict(a, mode=m) for a, m in zip(c["acls"], modes)]
    running = {a["name"] for a in c["acls"] if a["mode"] == "run"}
    c["acl_items_all"] = c["acl_items"]
    c["acl_items"] = [it for it in c["acl_items"] if it["gens"] and it["gens"][0] in running]
    c["stream"] = "gen:" + c["stream"]
    c["modes"] = modes
    return c


def gen_view(c: dict, o: dict) -> dict:
    """the case as the predicate sees it: device configuration, what the generators that ran produced, reference ACL"""
    return dict(c, new=o["new_gen"])


def gen_rep(c: dict, o: dict) -> dict:
    return {"stage": "gen", "case": payload(c), "acl_items": c["acl_items"], "stream": c["stream"], "modes": c["modes"], "impl": o}


def gen_stage(ctx, n: int):
    """annet.gen._old_new_per_device with real PartialGenerator subclasses + _diff_and_patch on what it returns; Coq
    evaluates the same report as in the main stage with the reference ACL of the generators that support the device"""
    rng = ctx.rng("c02-gen")
    cases = [gen_stage_case(rng, k) for k in range(n)]
    outs = core.run_impl_sharded("c02_gen_runner.py", [payload(c) for c in cases])
    skipped = {}
    for o in outs:
        if "skip" in o:
            skipped[o["skip"]] = skipped.get(o["skip"], 0) + 1
    bad = [i for i, o in enumerate(outs) if "skip" not in o and (
        "fatal" in o or "diff_full_err" in o or ("err" in o and o["err"] != "AssertionError") or
        ("gen_err" in o and o["gen_err"] != "AssertionError"))]
    for i in bad[:1]:
        ctx.add_violation(core.Violation(
            signature="C02/gen-stage/implementation-raised",
            what="_old_new_per_device + _diff_and_patch raised an unexpected exception: " +
                 str(outs[i].get("fatal") or outs[i].get("err") or outs[i].get("diff_full_err") or outs[i].get("gen_err"))[:300],
            replay={"stage": "gen", "case": payload(cases[i]), "impl": outs[i]}))
    keep = [i for i, o in enumerate(outs) if "skip" not in o and i not in set(bad)]
    # the generators that ran are exactly those whose mode says so (the reference ACL is built from the modes)
    for i in keep:
        want = [a["name"] for a in cases[i]["acls"] if a["mode"] == "run"]
        if sorted(outs[i]["ran"]) != sorted(want):
            ctx.add_violation(core.Violation(
                signature="C02/gen-stage/other-generators-ran",
                what=f"generators with a result {outs[i]['ran']}, generators that support the device {want}",
                replay=gen_rep(cases[i], outs[i])))
            break
    terms = [coq_case(gen_view(cases[i], outs[i]), outs[i]) for i in keep]
    res = run_reports(terms, tag="gen") if terms else {l: [] for l in LABELS}
    res = {k: [keep[j] for j in v] for k, v in res.items()}
    weak_fail = set(res["cl_a"]) | set(res["cl_a_diff"]) | set(res["cl_b"]) | set(res["cl_c"])
    for i in [i for i in res["holds"] if i in weak_fail][:3]:
        failed = [k for k in CLAUSES if i in res[f"cl_{k}"]]
        ctx.add_violation(core.Violation(
            signature="C02/gen-stage/" + "+".join(failed),
            what="on the output of the real _old_new_per_device + _diff_and_patch, with the ACL of the generators that "
                 "support the device as reference: " + "; ".join(CLAUSES[k] for k in failed),
            replay=dict(gen_rep(cases[i], outs[i]), clauses=failed)))
    for i in res["agree_filter"][:1]:
        ctx.add_violation(core.Violation(
            signature="C02/gen-stage/old-new-not-cut-by-the-acl-of-the-running-generators",
            what="old / new as _old_new_per_device returns them are not the device configuration / the generated "
                 "configuration cut by the combined ACL of the generators that support the device (Coq: p_acl_filter)",
            replay=dict(gen_rep(cases[i], outs[i]), correspondence="filter")))
    for i in res["gen_same"][:1]:
        ctx.add_violation(core.Violation(
            signature="C02/gen-stage/differs-from-the-direct-call",
            what="the command paths of _old_new_per_device + _diff_and_patch differ from those of _diff_and_patch on the "
                 "device configuration with the ACL compiled from the texts of the generators that support the device",
            replay=gen_rep(cases[i], outs[i])))
    if not weak_fail and not res["gen_same"] and not res["agree_filter"]:
        for a in AGREE:
            for i in res[f"agree_{a}"][:1]:
                ctx.add_violation(core.Violation(
                    signature=f"C02/gen-stage/model-impl-disagree/{a}",
                    what=f"Coq model and implementation differ on '{a}' in the generator stage (correspondence broken); the "
                         f"property clauses hold on every implementation output explored",
                    replay=dict(gen_rep(cases[i], outs[i]), correspondence=a), no_input=True))
    hist = {}
    for i in keep:
        ms = cases[i]["modes"]
        key = "none-runs" if "run" not in ms else ("all-run" if all(m == "run" for m in ms) else "some-run")
        hist[key] = hist.get(key, 0) + 1
    mode_hist = {}
    for i in keep:
        for m in cases[i]["modes"]:
            mode_hist[m] = mode_hist.get(m, 0) + 1
    ctx.coverage.update({
        "gen_stage_evaluations": len(keep),
        "gen_stage_skipped": skipped,
        "gen_stage_selection_histogram": hist,
        "gen_stage_mode_histogram": mode_hist,
        "gen_stage_none_runs_and_patch_empty": sum(
            1 for i in keep if "run" not in cases[i]["modes"] and not outs[i].get("cmd_paths")),
        "gen_stage_nonempty_patch": sum(1 for i in keep if outs[i].get("cmd_paths")),
        "gen_stage_acl_is_none": sum(1 for i in keep if outs[i].get("acl_is_none")),
        "gen_stage_only_full_c_fails": len([i for i in res["holds"] if i not in weak_fail]),
        "gen_stage_disagreements_checked": sum(len(res[f"agree_{a}"]) for a in AGREE) + len(res["gen_same"]),
    })
    return cases, outs, res


def run(ctx):
    core.proof_stage(ctx, THEOREM_FILE)
    rng = ctx.rng("c02")
    n = 3600 if ctx.thorough else 480
    cases = list(WITNESSES)
    while len(cases) < n:
        c = gen_case(rng, len(cases))
        if c["stream"] == "rule-aligned" and rng.random() < 0.15:
            c = split_case(rng, c)
        cases.append(c)
    outs, keep, res = evaluate(ctx, cases)

    false_of = {i: {l for l in LABELS if i in set(res[l])} for i in range(len(WITNESSES))}
    for i, w in enumerate(WITNESSES):
        if i in keep and false_of[i] != WITNESS_EXPECT[w["stream"]]:
            ctx.add_violation(core.Violation(
                signature=f"C02/{w['stream']}-does-not-reproduce",
                what=f"the {w['stream']} of Properties/C02.v behaves differently on the real code: predicates false "
                     f"{sorted(false_of[i])}, expected {sorted(WITNESS_EXPECT[w['stream']])}",
                replay=dict(rep(w, outs[i]), correspondence="witness"), no_input=True))

    weak_fail = set(res["cl_a"]) | set(res["cl_a_diff"]) | set(res["cl_b"]) | set(res["cl_c"])
    shown = 0
    for i in res["holds"]:
        if i in weak_fail:
            continue
        # only the full form of (c) fails, the form with the ancestor exception holds
        if shown < 1:
            ctx.add_violation(core.Violation(signature=ANCESTOR_SIG, what="a cant_delete row of the device disappears together "
                                             "with a deletable (or rewritten) ancestor block", replay=dict(rep(cases[i], outs[i]), clauses=["c"])))
            shown += 1
    for i in [i for i in res["holds"] if i in weak_fail][:3]:
        failed = [k for k in CLAUSES if i in res[f"cl_{k}"]]
        ctx.add_violation(core.Violation(
            signature="C02/" + "+".join(failed),
            what="on the real _diff_and_patch output: " + "; ".join(CLAUSES[k] for k in failed),
            replay=dict(rep(cases[i], outs[i]), clauses=failed)))
    for i in res["gen_same"][:1]:
        ctx.add_violation(core.Violation(
            signature="C02/filtering-first-changes-the-patch",
            what="applying the ACL to old/new before _diff_and_patch (as annet.gen does) changes the command paths",
            replay=rep(cases[i], outs[i])))
    deep_only = [i for i in res["holds"] if i not in weak_fail]
    if not weak_fail and not res["gen_same"]:
        for a in AGREE:
            for i in res[f"agree_{a}"][:1]:
                ctx.add_violation(core.Violation(
                    signature=f"C02/model-impl-disagree/{a}",
                    what=f"Coq model and implementation differ on '{a}' (correspondence broken); the property clauses hold "
                         f"on every implementation output explored",
                    replay=dict(rep(cases[i], outs[i]), correspondence=a), no_input=True))

    # how much of the device domain the hypotheses of the full-depth theorems cover (C02_cant_delete_kept_of_model,
    # C02_uncovered_untouched_of_model): the guards are Coq predicates of the input, evaluated here on the in-domain cases
    dom_idx = sorted(res["st_domain"])                    # st_* predicates are false on the members of the class
    closed_idx = sorted(res["st_closed"])
    guards = core.run_case_files(
        ID, "c02case", IMPORTS_DEEP,
        {"c_guard": "fun c => c_deep_guard (c2_in c)",
         "c_full": "fun c => c_full_guard (c2_in c)",
         "b_guard": "fun c => negb (c02_closed (c2_in c)) || b_deep_guard (c2_in c)",
         "regular": "fun c => is_block_family (v_family (i_vendor (c2_in c))) && diff_regular (p_full_diff (c2_in c))",
         # the hypotheses of C02_cant_delete_kept_in_domain / C02_uncovered_untouched_in_domain: stated on old, the filtered
         # new and the rulebook only (no guard on the diff)
         "dom_thm": "fun c => is_block_family (v_family (i_vendor (c2_in c))) && c02_dev_domain_A (c2_in c) && "
                    "c02_rules_det (c2_in c) && c02_kept_ok (c2_in c)",
         "dom_A": "fun c => c02_dev_domain_A (c2_in c)",
         "kept_ok": "fun c => c02_kept_ok (c2_in c)",
         "rules_det": "fun c => c02_rules_det (c2_in c)"},
        [coq_case(cases[i], outs[i]) for i in dom_idx], per_file=16, tag="guards") if dom_idx else {
            "c_guard": [], "c_full": [], "b_guard": [], "regular": [], "dom_thm": [], "dom_A": [], "kept_ok": [], "rules_det": []}
    c_guard_false = {dom_idx[j] for j in guards["c_guard"]}
    c_full_false = {dom_idx[j] for j in guards["c_full"]}
    b_guard_false = {dom_idx[j] for j in guards["b_guard"]}
    dom_thm_false = {dom_idx[j] for j in guards["dom_thm"]}
    # C02_c_guard_from_domain / C02_b_guard_from_domain say: hypotheses on old / new / rulebook => guard on the diff
    for i in dom_idx:
        if i not in dom_thm_false and (i in c_guard_false or i in b_guard_false):
            ctx.add_violation(core.Violation(
                signature="C02/domain-theorem-contradicted",
                what="the hypotheses of C02_c_guard_from_domain / C02_b_guard_from_domain hold of the case but a guard of the "
                     "full-depth theorems evaluates to false (the Coq theorems and the evaluated definitions differ)",
                replay=dict(rep(cases[i], outs[i])), no_input=True))
            break
    # the theorems say: guard => clause, for the model; with model == implementation the clause must hold on the real output
    for i in dom_idx:
        broken = [k for k, bad in (("c", c_guard_false), ("c_deep", c_full_false), ("b", b_guard_false))
                  if i not in bad and i in res[f"cl_{k}"]]
        if broken and i not in res["agree_paths"]:
            ctx.add_violation(core.Violation(
                signature="C02/deep-theorem-contradicted",
                what=f"the guard of the full-depth theorem for clause {broken} holds, model and implementation agree on the "
                     f"command paths, yet the clause is false on the real output",
                replay=dict(rep(cases[i], outs[i]), clauses=broken), no_input=True))
            break

    gen_stage(ctx, 1500 if ctx.thorough else 160)

    seen, nt = set(), 0
    hist_gen, hist_stream, vend = {}, {}, {}
    for i in keep:
        c, o = cases[i], outs[i]
        hist_gen[c["n_gen"]] = hist_gen.get(c["n_gen"], 0) + 1
        st = c["stream"].split(":")[0]
        hist_stream[st] = hist_stream.get(st, 0) + 1
        vend[c["vendor"]] = vend.get(c["vendor"], 0) + 1
        h = core.canon_hash(payload(c))
        if h in seen:
            continue
        seen.add(h)
        if len(o.get("cmd_paths") or []) >= 2 and o.get("old_f") != c["old"] and o.get("old_f"):
            nt += 1
    ncases = len(keep)
    ctx.coverage.update({
        "evaluations": len(cases),
        "distinct_nontrivial": nt,
        "rule": "random rulebook (pipeline.py) + ACL derived from it (same / narrower / wider / wordier lines, ~, %global, "
                "%cant_delete, %prio, reverse-form lines, 'interface' rows; 1-3 generators combined by the real _combine_acl_text) "
                "or ACL from aclgen.py + rulebook derived from it; old with extra rows beside and below, new = mutation of old; "
                "distinct by inputs; non-trivial = the ACL passes some but not all rows of old and the patch has >= 2 command paths",
        "samples": [rep(cases[i], outs[i]) for i in keep[len(WITNESSES):len(WITNESSES) + 2]],
        "traces_validated_against_impl": ncases,
        "disagreements_checked": sum(len(res[f"agree_{a}"]) for a in AGREE),
        "witnesses_replayed_on_the_real_code": [w["stream"] for w in WITNESSES],
        "generators_histogram": hist_gen, "stream_histogram": hist_stream, "vendor_histogram": vend,
        "compile_errors": sum(1 for o in outs if o.get("compile")),
        "assertion_error_cases": sum(1 for o in outs if o.get("err") == "AssertionError"),
        "in_device_domain": len(res["st_domain"]),          # the st_* predicates are false on the members of the class
        "in_device_domain_and_slot_closed": len(res["st_closed"]),
        "deep_guard_c_holds_in_domain": len(dom_idx) - len(guards["c_guard"]),          # hypotheses of C02_cant_delete_kept_of_model
        "deep_guard_c_full_holds_in_domain": len(dom_idx) - len(guards["c_full"]),      # ... of C02_cant_delete_kept_full_of_model
        "deep_guard_b_holds_in_domain_and_closed": len(closed_idx) - len([i for i in closed_idx if i in b_guard_false]),
        "in_domain_block_family_and_regular_diff": len(dom_idx) - len(guards["regular"]),
        # hypotheses of the theorems from the domain alone (C02_cant_delete_kept_in_domain, C02_uncovered_untouched_in_domain)
        "domain_theorem_hypotheses_hold_in_domain": len(dom_idx) - len(guards["dom_thm"]),
        "in_domain_without_force_commit": len(dom_idx) - len(guards["dom_A"]),
        "in_domain_class_X1_X2_kept_block_replaced_or_permanent": len(guards["kept_ok"]),
        "in_domain_rule_text_with_two_attribute_sets": len(guards["rules_det"]),
        "b_false_without_slot_closed": len(res["st_b_unguarded"]),
        "cant_delete_row_text_rewritten": len(res["st_c_text"]),
        "cant_delete_row_lost_with_ancestor": len(deep_only),
        "last_element_not_matched_by_acl_text": len(res["st_a_textual"]),
        "max_tree_depth": max((P.tree_depth(c["old"]) for c in cases), default=0),
        "acl_size_max": max((A.acl_size(c["acl_items"]) for c in cases), default=0),
    })
    ctx.assumptions += [
        "rule and ACL patterns restricted to the plain rule language of Model/Pattern.v (C07)",
        "block vendors only (the flattened set/delete forms of Juniper/Nokia/RouterOS are outside Device.v)",
        "clauses (b),(c) are statements about the reference device Model/Device.v inside its domain (P_C01.wf_step); "
        "they are evaluated on every real output, and proved for all inputs that satisfy c_deep_guard / b_deep_guard "
        "(coverage deep_guard_*) and, from hypotheses on old / new / rulebook only, for the domain without %force_commit "
        "outside the classes of c02_kept_ok (coverage domain_theorem_hypotheses_hold_in_domain), not for the whole domain",
        "not modelled: %ignore_case, %multiline, %comment/add_comments (with_annotations=False), vendor %logic functions",
    ]
    return cases, outs, res


def replay(ctx, doc):
    r = doc["replay"]
    c = r["case"]
    if r.get("stage") == "gen":
        out = core.run_impl("c02_gen_runner.py", [c])[0]
        print("generators (name, mode):", [(a["name"], a["mode"]) for a in c["acls"]])
        print("generators that ran:", out.get("ran"))
        print("old handed to the patcher:", out.get("old_f"))
    else:
        out = core.run_impl("c02_runner.py", [c])[0]
    print("acl text:\n" + out.get("acl_text", ""))
    print("old:", c["old"])
    print("new:", c["new"])
    print("cmd_paths:", out.get("cmd_paths"))
    print("clauses reported:", r.get("clauses") or r.get("correspondence"))
    return 1
