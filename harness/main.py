from __future__ import annotations

import argparse
import importlib
import json
import os
import sys
import time
import traceback

from . import core


def main(argv=None) -> int:
    ap = argparse.ArgumentParser(prog="check")
    ap.add_argument("prop", nargs="?")
    ap.add_argument("--tier", default=os.environ.get("VERIF_TIER", "quick"), choices=["quick", "thorough"])
    ap.add_argument("--seed", type=int, default=int(os.environ.get("VERIF_SEED", "0")))
    ap.add_argument("--setup", action="store_true")
    ap.add_argument("--replay")
    ap.add_argument("--refresh-genref", action="store_true",
                    help="store the tables regenerated from the current repository as coq/GenRef/*.v.ref")
    ap.add_argument("--manifest", action="store_true", help="regenerate MANIFEST.json from property modules")
    a = ap.parse_args(argv)
    core.BUILD.mkdir(exist_ok=True)
    if a.setup:
        bad = core.hygiene()
        if bad:
            print("hygiene gate failed:\n" + "\n".join(bad))
            return 2
        core.translate_all()
        # build everything that builds (-k): a file that belongs to a property not (yet) registered in
        # MANIFEST.json must not block the registered checks, each of which rebuilds and verifies its own
        # dependency closure anyway; setup fails iff a registered property's theorem file did not build
        p = core.make(["-k"])
        sys.stdout.write(p.stdout[-4000:])
        sys.stderr.write(p.stderr[-4000:])
        man = json.loads((core.VERIF / "MANIFEST.json").read_text())
        missing = []
        for c in man.get("checks", []):
            vo = core.COQ / "Properties" / (c["property_id"] + ".vo")
            src = vo.with_suffix(".v")
            if not vo.exists() or vo.stat().st_mtime < src.stat().st_mtime:
                missing.append(c["property_id"])
        if missing:
            print("setup: theorem files of registered properties did not build: " + ", ".join(missing))
            return 1
        if p.returncode != 0:
            print("setup: note: some files outside the registered properties' closures did not build (see above)")
        return 0
    if a.refresh_genref:
        gen = core.translate_all()
        bad = {k: v for k, v in gen.items() if str(v).startswith("TRANSLATOR FAILED")}
        if bad:
            print("translators failed:", bad)
            return 1
        print("GenRef:", ", ".join(core.refresh_genref()))
        return 0
    if a.manifest:
        from . import manifest
        manifest.write()
        return 0
    if not a.prop:
        ap.error("property id required")
    mod = importlib.import_module(f"harness.props.{a.prop.lower()}")
    ctx = core.Ctx(prop=a.prop, tier=a.tier, seed=a.seed)
    if a.replay:
        return mod.replay(ctx, json.load(open(a.replay)))
    try:
        mod.run(ctx)
    except Exception as e:  # noqa: BLE001 - CheckFailure and anything unexpected
        # fail closed: an infrastructure failure means the property is not shown to hold
        traceback.print_exc()
        ctx.add_violation(core.Violation(
            signature=f"{a.prop}/check-infrastructure-failure",
            what=str(e)[:2000], replay={"error": str(e)}, no_input=True))
    return core.finish(ctx, level=getattr(mod, "LEVEL", "proof"))


if __name__ == "__main__":
    sys.exit(main())
