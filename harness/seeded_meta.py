#!/usr/bin/env python3
"""Write /verif/seeded/<id>/meta.json from the drill logs (build/logs/drill/<id>.json) and the table below.

Each seeded change was written by a fresh sub-agent that was given only the property's JSON record and a
scratch git worktree of /repo (nothing from /verif); the lead then confirmed it with harness/drill.py:
the 337 repository tests still pass with the change, the demonstration fails with it and passes without it.
"""
from __future__ import annotations

import json
import sys
from pathlib import Path

VERIF = Path(__file__).resolve().parent.parent

# id -> (what the change is, what it needs in order to manifest)
TABLE = {
    "C01-1": ("common.base_diff: an ADDED row no longer marks the %ordered block as disturbed",
              "an %ordered rule and an in-place replacement of a non-last entry before a surviving row, in a chain of configs"),
    "C01-2": ("patching._make_reverse strips the negation prefix without a word boundary",
              "a rule whose first word merely begins with the vendor's negation word (node *, notify-target *) and a step that removes such a line"),
    "C02-1": ("patching._select_match returns a single governing rule's child-rule dicts as-is and adds inherited %global rules into them (cached compiled ACL is mutated)",
              "overlapping ACLs of two generators, a %global rule under one, three nesting levels, the doubly matched row processed before the singly matched one"),
    "C02-2": ("rbparser/acl.py: built-in cant_delete default uses regexp interface\\b instead of startswith('interface')",
              "a vendor spelling the container `interfaces` (Juniper), an ACL relying on the default flag, no generated line under that stanza"),
    "C03-1": ("common.rewrite_diff.iter_diff recursion written without `yield from`: only the top level of a %rewrite block is scanned",
              "a %rewrite rule with a nested body and a change confined to depth >= 2"),
    "C03-2": ("common.base_diff: the MOVED branch no longer sets block_in_disorder",
              "an %ordered/%rewrite rule and a reordering with a fixed point (middle row of A,B,C -> C,B,A) and no insertion before it"),
    "C04-1": ("JuniperFormatter._formatted_blocks refactored, the flush after the loop is gone",
              "vendor juniper/ribbon/nokia and a tree whose last top-level row is a leaf"),
    "C04-2": ("NokiaFormatter.split: wrapper-stripping loop 'simplified'",
              "vendor nokia, text without the `configure` wrapper, at least two top-level rows"),
    "C05-1": ("tabparser._stripped_indents refactored to absolute columns; the bad-dedent check is skipped when the stack empties",
              "a first nested indent of >= 2 columns and a later line at a column strictly between the top level and it"),
    "C05-2": ("tabparser._stripped_indents: g_level = 0 instead of None after a Huawei `#` section break",
              "a column-0 `#` line followed by a section that is shifted right"),
    "C06-1": ("patching._select_match breaks at the first match that does not allow children rules instead of skipping it",
              "a row matched, in specificity order, by a local rule, a %global or reverse match, and a second local rule with children (two concatenated generator ACLs)"),
    "C06-2": ("patching.apply_acl recurses only when children rules are in scope",
              "strict mode (fatal_acl=True) and config lines below a row matched by a leaf rule with no %global in scope"),
    "C07-1": ("rbparser/syntax.compile_row_regexp: the rewrite of plain (...) groups to (?:...) moved into the */re/ expansion only",
              "a rule row with both a placeholder and a bare alternation group outside */re/ (aruba.rul syslog-level, huawei.deploy (ftp|FTP) *)"),
    "C07-2": ("patching._make_reverse: placeholder-stripping regexes made non-greedy",
              "a */re/ or ~/re/ whose regex contains a `/` (physical-interface rules; hidden by %logic=common.permanent in ordinary use)"),
    "C08-1": ("Orderer.get_order: %global rules hoisted out of the rule loop",
              "a %global ordering rule declared after a block rule, and commands from both inside one block at depth >= 2"),
    "C08-2": ("Orderer.order_config: single stable sort replaced by partition + reversed(sorted(...))",
              "two or more negated rows of equal rank in one block of a generated config"),
    "C09-1": ("deploy.make_apply_commands parameters reordered; one positional call now passes do_commit/do_finalize swapped",
              "do_commit != do_finalize (annet deploy --dont-commit)"),
    "C09-2": ("rulebook/deploying.match_deploy_rule: `if len(rules) == 0: break` moved before descending into the children",
              "a deploy rule without children for a block header and an inner command matching one of its siblings"),
    "C10-1": ("patching.apply_acl returns early when a level has no rules",
              "a generator yielding outside its ACL at a level whose rule set is empty (inside block() under a leaf ACL rule, or no acl_<vendor>)"),
    "C10-2": ("patching.match_row_to_acl (exclusive): per-generator cant_delete fold replaced by setdefault (first rule decides)",
              "two generators overlapping on a row, one matching it with two rules whose cant_delete flags differ, the cant_delete rule ranking first"),
    "C11-1": ("huawei/vlandb.vlan_diff: batch_new read from the first `vlan batch` line only",
              "a VLAN database wrapped over several `vlan batch` lines, a named `vlan N` block that disappears, N not on the first batch line"),
    "C11-2": ("lib.collapse_vlandb: loop over vlans[1:] + [4095] sentinel, trailing append dropped",
              "an added or removed set containing VLAN 4094"),
    "C12-1": ("parallel.Parallel.irun: restart of retired workers moved inside `if not queue_empty:`",
              ">1 worker, a worker reaching max_tasks, the retirement noticed on a timed-out poll"),
    "C12-2": ("parallel._pool_worker retires with os._exit(9) instead of sys.exit(9)",
              ">1 worker and a worker reaching its task quota (the queue feeder thread is not joined, the last result is dropped)"),
    "C13-1": ("jsontools.apply_json_fragment skips patterns for which the fragment has no match",
              "a fragment that empties a whole matched area (last key removed, {} fragment, one pattern of several without match)"),
    "C13-2": ("jsontools.make_patch sorts operations by path with a numeric index key",
              "arrays changed by several operations with shifting indexes (front insert + removal, removal + reorder)"),
    "C14-1": ("rpl_generators/community.get_used_united_community_lists sorts names before building the merged list name",
              "arista or cumulus, has_any(...) over >= 2 community lists given in non-sorted order"),
    "C14-2": ("rpl_generators/policy._huawei_then_as_path: new rejection raised inside the delete branch, after the set line was yielded",
              "huawei, rule.as_path.set(...) followed by rule.as_path.delete(...) in one statement"),
    "C15-1": ("mesh/registry lookup_direct/lookup_indirect: second orientation test became `elif`",
              "a rule with symmetric masks, no ordering filter, an asymmetric handler, both ends inspected"),
    "C15-2": ("mesh/basemodel: `x == y: return x` shortcut moved into Merger.__call__ (Concat drops an equal second operand)",
              "two handlers contributing an equal value to the same Concat field"),
    "C16-1": ("api._read_old_new_diff_patch drops UNCHANGED top-level rows before building the patch",
              "a partial change of an object spread over several top-level rows whose logic reads unchanged rows (huawei prefix-list, aruba ap_env)"),
    "C16-2": ("api._diff_and_patch returns an empty PatchTree when the stripped diff is empty",
              "an Aruba AP environment with wifi*_arm_* rows and identical or reordered old/new"),
    "C17-1": ("implicit.compile_rules cached per hardware model",
              "two same-model Nexus 9500 devices in one process, one tagged spine1 and one not"),
    "C17-2": ("gen._old_new_per_device: `old and merge_dicts(old, implicit…)` skips completion of an empty device config",
              "an empty device config on hardware with implicit defaults and a generator ACL covering them"),
    "C18-1": ("vendors/registry.Registry.match rewritten as a single pass whose depth threshold is never updated",
              "a registration order other than the stock alphabetical one (or Registry.__add__)"),
    "C18-2": ("huawei.misc.undo_redo wrapper deleted; one %logic reference inside `%if hw.Huawei.Quidway:` left behind",
              "a Huawei Quidway model (branch rendered for no test stub)"),
    "C19-1": ("RunGeneratorResult.add_entire: prio comparison replaced by setdefault",
              ">= 2 Entire generators for one path listed in an order other than descending prio"),
    "C19-2": ("PCDeployerJob.parse_result: early return when all generated files equal the device's, above the force flag",
              "entire_reload=force and a device whose files are all already identical"),
    "C20-1": ("patching.make_diff: deepcopy(old/new) replaced by shallow .copy()",
              "a nested ignore rule (cisco `! no ip address` under interface) and a caller reusing its trees afterwards"),
    "C20-2": ("lib.merge_dicts: list concatenation with `+=` (extends the first input's list in place)",
              "one row matching two overlapping cached ACL/rulebook rules with a same-named child rule, then a second device in the same process"),
}


def main() -> int:
    logs = VERIF / "build" / "logs" / "drill"
    n = 0
    for sid, (what, needs) in sorted(TABLE.items()):
        d = VERIF / "seeded" / sid
        if not d.is_dir():
            continue
        prop = sid.split("-")[0]
        meta = {"id": sid, "property": prop, "change": what, "needs_to_manifest": needs,
                "origin": "fresh sub-agent given only the property record and a scratch worktree of /repo",
                "files": sorted(p.name for p in d.iterdir() if p.name != "meta.json"),
                "ran": [f"python3 harness/drill.py {prop} seeded/{sid}  (scratch worktree of /repo + scratch copy of /verif; "
                        "repo test suite with the change, demo.py with and without the change, "
                        f"ANNET_VERIF_REPO=<worktree> ./check {prop} --tier quick)"]}
        old = {}
        if (d / "meta.json").exists():
            old = json.loads((d / "meta.json").read_text())
        log = logs / f"{sid}.json"
        res = None
        if log.exists():
            try:
                res = json.loads(log.read_text())
            except ValueError:
                res = None
        if res:
            c = res["checks"].get(prop, {})
            meta["confirmed"] = {
                "repo_tests_with_change": res.get("repo_tests_with_change"),
                "demo_rc_with_change": res.get("demo_with_change", {}).get("rc"),
                "demo_rc_without_change": res.get("demo_without_change", {}).get("rc"),
            }
            meta["check_result"] = {
                "detected": res.get("detected"), "with_concrete_failing_input": res.get("detected_with_input"),
                "wall_s": c.get("wall_s"),
                "verdict": [l for l in c.get("verdict", []) if "KNOWN-FINDING" not in l][:4],
            }
        else:
            for k in ("confirmed", "check_result"):
                if k in old:
                    meta[k] = old[k]
        if "history" in old:
            meta["history"] = old["history"]
        (d / "meta.json").write_text(json.dumps(meta, indent=1) + "\n")
        n += 1
    print(f"wrote {n} meta.json files")
    return 0


if __name__ == "__main__":
    sys.exit(main())
