#!/usr/bin/env python3
"""Write /verif/seeded/<id>/meta.json from the drill logs (build/logs/drill/<id>.json) and the table below.

Each seeded change was written by a fresh sub-agent that was given only the property's JSON record and a
scratch git worktree of /repo (nothing from /verif); the lead then confirmed it with harness/drill.py:
the 337 repository tests still pass with the change, the demonstration fails with it and passes without it.
"""
from __future__ import annotations

import json
import sys
from pathlib import Path

VERIF = Path(__file__).resolve().parent.parent

# id -> (what the change is, what it needs in order to manifest)
TABLE = {
    "C01-1": ("common.base_diff: an ADDED row no longer marks the %ordered block as disturbed",
              "an %ordered rule and an in-place replacement of a non-last entry before a surviving row, in a chain of configs"),
    "C01-2": ("patching._make_reverse strips the negation prefix without a word boundary",
              "a rule whose first word merely begins with the vendor's negation word (node *, notify-target *) and a step that removes such a line"),
    "C02-1": ("patching._select_match returns a single governing rule's child-rule dicts as-is and adds inherited %global rules into them (cached compiled ACL is mutated)",
              "overlapping ACLs of two generators, a %global rule under one, three nesting levels, the doubly matched row processed before the singly matched one"),
    "C02-2": ("rbparser/acl.py: built-in cant_delete default uses regexp interface\\b instead of startswith('interface')",
              "a vendor spelling the container `interfaces` (Juniper), an ACL relying on the default flag, no generated line under that stanza"),
    "C03-1": ("common.rewrite_diff.iter_diff recursion written without `yield from`: only the top level of a %rewrite block is scanned",
              "a %rewrite rule with a nested body and a change confined to depth >= 2"),
    "C03-2": ("common.base_diff: the MOVED branch no longer sets block_in_disorder",
              "an %ordered/%rewrite rule and a reordering with a fixed point (middle row of A,B,C -> C,B,A) and no insertion before it"),
    "C04-1": ("JuniperFormatter._formatted_blocks refactored, the flush after the loop is gone",
              "vendor juniper/ribbon/nokia and a tree whose last top-level row is a leaf"),
    "C04-2": ("NokiaFormatter.split: wrapper-stripping loop 'simplified'",
              "vendor nokia, text without the `configure` wrapper, at least two top-level rows"),
    "C05-1": ("tabparser._stripped_indents refactored to absolute columns; the bad-dedent check is skipped when the stack empties",
              "a first nested indent of >= 2 columns and a later line at a column strictly between the top level and it"),
    "C05-2": ("tabparser._stripped_indents: g_level = 0 instead of None after a Huawei `#` section break",
              "a column-0 `#` line followed by a section that is shifted right"),
    "C06-1": ("patching._select_match breaks at the first match that does not allow children rules instead of skipping it",
              "a row matched, in specificity order, by a local rule, a %global or reverse match, and a second local rule with children (two concatenated generator ACLs)"),
    "C06-2": ("patching.apply_acl recurses only when children rules are in scope",
              "strict mode (fatal_acl=True) and config lines below a row matched by a leaf rule with no %global in scope"),
    "C07-1": ("rbparser/syntax.compile_row_regexp: the rewrite of plain (...) groups to (?:...) moved into the */re/ expansion only",
              "a rule row with both a placeholder and a bare alternation group outside */re/ (aruba.rul syslog-level, huawei.deploy (ftp|FTP) *)"),
    "C07-2": ("patching._make_reverse: placeholder-stripping regexes made non-greedy",
              "a */re/ or ~/re/ whose regex contains a `/` (physical-interface rules; hidden by %logic=common.permanent in ordinary use)"),
    "C08-1": ("Orderer.get_order: %global rules hoisted out of the rule loop",
              "a %global ordering rule declared after a block rule, and commands from both inside one block at depth >= 2"),
    "C08-2": ("Orderer.order_config: single stable sort replaced by partition + reversed(sorted(...))",
              "two or more negated rows of equal rank in one block of a generated config"),
    "C09-1": ("deploy.make_apply_commands parameters reordered; one positional call now passes do_commit/do_finalize swapped",
              "do_commit != do_finalize (annet deploy --dont-commit)"),
    "C09-2": ("rulebook/deploying.match_deploy_rule: `if len(rules) == 0: break` moved before descending into the children",
              "a deploy rule without children for a block header and an inner command matching one of its siblings"),
    "C10-1": ("patching.apply_acl returns early when a level has no rules",
              "a generator yielding outside its ACL at a level whose rule set is empty (inside block() under a leaf ACL rule, or no acl_<vendor>)"),
    "C10-2": ("patching.match_row_to_acl (exclusive): per-generator cant_delete fold replaced by setdefault (first rule decides)",
              "two generators overlapping on a row, one matching it with two rules whose cant_delete flags differ, the cant_delete rule ranking first"),
    "C11-1": ("huawei/vlandb.vlan_diff: batch_new read from the first `vlan batch` line only",
              "a VLAN database wrapped over several `vlan batch` lines, a named `vlan N` block that disappears, N not on the first batch line"),
    "C11-2": ("lib.collapse_vlandb: loop over vlans[1:] + [4095] sentinel, trailing append dropped",
              "an added or removed set containing VLAN 4094"),
    "C12-1": ("parallel.Parallel.irun: restart of retired workers moved inside `if not queue_empty:`",
              ">1 worker, a worker reaching max_tasks, the retirement noticed on a timed-out poll"),
    "C12-2": ("parallel._pool_worker retires with os._exit(9) instead of sys.exit(9)",
              ">1 worker and a worker reaching its task quota (the queue feeder thread is not joined, the last result is dropped)"),
    "C13-1": ("jsontools.apply_json_fragment skips patterns for which the fragment has no match",
              "a fragment that empties a whole matched area (last key removed, {} fragment, one pattern of several without match)"),
    "C13-2": ("jsontools.make_patch sorts operations by path with a numeric index key",
              "arrays changed by several operations with shifting indexes (front insert + removal, removal + reorder)"),
    "C14-1": ("rpl_generators/community.get_used_united_community_lists sorts names before building the merged list name",
              "arista or cumulus, has_any(...) over >= 2 community lists given in non-sorted order"),
    "C14-2": ("rpl_generators/policy._huawei_then_as_path: new rejection raised inside the delete branch, after the set line was yielded",
              "huawei, rule.as_path.set(...) followed by rule.as_path.delete(...) in one statement"),
    "C15-1": ("mesh/registry lookup_direct/lookup_indirect: second orientation test became `elif`",
              "a rule with symmetric masks, no ordering filter, an asymmetric handler, both ends inspected"),
    "C15-2": ("mesh/basemodel: `x == y: return x` shortcut moved into Merger.__call__ (Concat drops an equal second operand)",
              "two handlers contributing an equal value to the same Concat field"),
    "C16-1": ("api._read_old_new_diff_patch drops UNCHANGED top-level rows before building the patch",
              "a partial change of an object spread over several top-level rows whose logic reads unchanged rows (huawei prefix-list, aruba ap_env)"),
    "C16-2": ("api._diff_and_patch returns an empty PatchTree when the stripped diff is empty",
              "an Aruba AP environment with wifi*_arm_* rows and identical or reordered old/new"),
    "C17-1": ("implicit.compile_rules cached per hardware model",
              "two same-model Nexus 9500 devices in one process, one tagged spine1 and one not"),
    "C17-2": ("gen._old_new_per_device: `old and merge_dicts(old, implicit…)` skips completion of an empty device config",
              "an empty device config on hardware with implicit defaults and a generator ACL covering them"),
    "C18-1": ("vendors/registry.Registry.match rewritten as a single pass whose depth threshold is never updated",
              "a registration order other than the stock alphabetical one (or Registry.__add__)"),
    "C18-2": ("huawei.misc.undo_redo wrapper deleted; one %logic reference inside `%if hw.Huawei.Quidway:` left behind",
              "a Huawei Quidway model (branch rendered for no test stub)"),
    "C19-1": ("RunGeneratorResult.add_entire: prio comparison replaced by setdefault",
              ">= 2 Entire generators for one path listed in an order other than descending prio"),
    "C19-2": ("PCDeployerJob.parse_result: early return when all generated files equal the device's, above the force flag",
              "entire_reload=force and a device whose files are all already identical"),
    "C20-1": ("patching.make_diff: deepcopy(old/new) replaced by shallow .copy()",
              "a nested ignore rule (cisco `! no ip address` under interface) and a caller reusing its trees afterwards"),
    "C20-2": ("lib.merge_dicts: list concatenation with `+=` (extends the first input's list in place)",
              "one row matching two overlapping cached ACL/rulebook rules with a same-named child rule, then a second device in the same process"),
    # ---- round 2 (second set of fresh sub-agents, told only which two ideas per property were already taken)
    "C01-3": ("base_diff marks out-of-place rows AFFECTED + mark_unchanged recurses into every row (two cooperating sites)",
              "a moved %ordered block whose body lines are in a different order in old and new; arises by itself on the second step of a chain"),
    "C01-4": ("patching._find_rules_matches breaks after the first matching rule",
              "a block header matching two same-level local rules (specific + generic) and a change to a line only the later rule's children describe"),
    "C02-3": ("patching._find_acl_matches skips the reverse regexp of a rule that already matched the row directly",
              "a wildcard rule marked %cant_delete in every generator, a generator emitting the explicit negation of a line present on the device"),
    "C02-4": ("generators/result._combine_acl_text dedents the joined text once instead of each generator's text",
              ">= 2 generators whose ACL literals have different left margins, the deeper one later, the earlier ACL ending inside a block rule"),
    "C03-3": ("common.rewrite_diff calls base_diff with moved_to_affected=True",
              "a %rewrite group with the same lines at every depth, >= 2 of them in a different order, nothing added or removed"),
    "C03-4": ("common.base_diff skips a REMOVED row whose parent row is MOVED",
              "an %ordered rule whose rows have children, such a row reported MOVED, and a nested deletion under it in the same run"),
    "C04-3": ("RosFormatter.blocks_and_context: context.current holds the bare row, section path rebuilt from the parent chain; one reader missed",
              "routeros, a section at depth >= 2 with a subsection AND own leaf rows after it"),
    "C04-4": ("RosFormatter.blocks_and_context renders the body of a group of equal neighbouring sections once and replays it",
              "routeros, >= 2 adjacent sibling sections with identical children that contain a further subsection"),
    "C05-3": ("tabparser.parse_to_tree fast path for a line at the same depth as the previous one inserts an empty block unconditionally",
              "a repeated block header whose first occurrence has children, directly after a leaf at the same depth"),
    "C05-4": ("tabparser._filtered_lines: the Huawei section break test uses the stripped line",
              "an indented `#` comment inside a nested block followed by more lines of that block"),
    "C06-3": ("patching._find_acl_matches: sort ascending then reversed() instead of a stable descending sort",
              "two rules matching a row with exactly equal (prio, shared symbols), one local with children and one %global (or direct vs reverse)"),
    "C06-4": ("patching.apply_acl: all(cant_delete) -> any(cant_delete)",
              "the same ACL row declared twice with different cant_delete flags (merged lists [1,0]) and a reverse-form line in the tree"),
    "C07-3": ("syntax.compile_row_regexp: lru_cache replaced by a dict keyed by the row only (flags ignored)",
              "the same row text compiled twice in one process with different flags (%ignore_case in patching vs ACL/ordering), then a line differing in case"),
    "C07-4": ("syntax._parse_raw_rule no longer collapses runs of blanks/tabs inside the rule row",
              "a rule row with interior runs of blanks or tabs and use of its reverse form (removal command, negated ACL/ordering form)"),
    "C08-3": ("rbparser/ordering._compile_ordering: 'already negated' test is startswith(prefix) without the blank",
              "an ordering rule whose first word merely begins with the negation word (node, notification) and a removal of that command among others"),
    "C08-4": ("Orderer.get_order returns no children rules for a row no rule matches",
              ">= 2 %global ordering rules that do not match every row and an unmatched block header holding commands of both"),
    "C09-3": ("deploy.apply_deploy_rulebook memoises the matched deploy rule by the command text",
              "a deploy rulebook whose rule depends on the block, and the same command text under two block paths in one patch"),
    "C09-4": ("deploy.apply_deploy_rulebook sorts cmds_with_apply before itertools.groupby",
              "commands of one patch selecting different session wrappers, interleaved (aruba ap-env vs conf-t)"),
    "C10-3": ("TreeGenerator.block_if default condition all(tokens)",
              "block_if() with the default condition and a printable but falsy token (0, 0.0, False)"),
    "C10-4": ("lib.merge_dicts de-duplicates list values instead of concatenating them",
              "two generators owning the same child rule under textually different parent rules matching one row, equal cant_delete flags"),
    "C11-3": ("cisco/vlandb._process_vlandb: `new -= new_blocks` hoisted before removed/added are computed",
              "hw.Catalyst hardware (2960, WS-C3750), a VLAN moving from a `vlan <list>` line to a `vlan N` block"),
    "C11-4": ("api._diff_and_patch strips unchanged rows before make_pre",
              "huawei multi_all list over >= 2 lines, one whole line removed, one unchanged, through _diff_and_patch"),
    "C12-3": ("parallel.irun: `all_reaped = not pool` sampled after reaping instead of before the get",
              "the last workers put and exit between the parent's poll timeout and its reaping"),
    "C12-4": ("parallel._pool_worker skips the picklability probe for builtin containers",
              "a task returning a list/tuple/dict holding an unpicklable object, in a real multi-process pool"),
    "C13-3": ("jsontools._resolve_json_pointers: exact-key fast path",
              "a key containing glob characters equal to the pattern part, beside other keys the glob matches"),
    "C13-4": ("jsontools.make_patch rewrites `move` as remove + add with the value read from old",
              "an array that gains/loses an element and has a later element change position in the same diff"),
    "C14-3": ("rpl entities: new get_prefix_name() decides 'override present' by `ge is None and le is None`",
              "an or_longer bound equal to 0: the policy refers to a list name the prefix-list generator does not define"),
    "C14-4": ("rpl community.acl_huawei: `ip extcommunity-list` narrowed to `ip extcommunity-list soo basic`",
              "huawei, CommunityType.SOO with use_regex=True, run with use_acl=True"),
    "C15-3": ("mesh executor._execute_indirect: `session = MeshSession()` hoisted out of the rule loop",
              ">= 2 indirect matches for one device with handlers setting different session fields, the richer one first"),
    "C15-4": ("mesh executor._apply_direct_interface_changes: sub-interface step guarded by `if changes.subif:`",
              "a direct rule selecting sub-interface 0 on a port or a LAG"),
    "C16-3": ("api._read_old_new_diff_patch calls patch_from_pre(do_commit=False)",
              "a row under the shipped %force_commit rule (huawei `bgp` undo_commit): top-level bgp block removed or re-numbered"),
    "C16-4": ("api._read_device_config returns vendor.hardware instead of the hw it was given",
              "a model-specific --hw (Huawei CE6870 / NE40E, Catalyst 2960), a pair touching a model-dependent rule, the real file reader"),
    "C17-3": ("implicit.config: matched_lines list comprehension -> generator expression (any() consumes the first match)",
              "a non-`!` rule that is a default row with default children (Huawei NE aaa) and that block explicit in the config"),
    "C17-4": ("gen._old_new_per_device completes safe_new with implicit.config(new)",
              "--acl-safe, an unsafe generator creating a block matching an implicit `!interface` rule, another generator's acl_safe covering it"),
    "C18-3": ("netdev/db._build_tree single pass with an index keyed by the parent's compiled regex",
              "a Mellanox/NVIDIA SN model (two nodes share the regex ' SN'): NVIDIA SN2100 gets a Mellanox leaf true without its parents"),
    "C18-4": ("vendors/registry: match() uses a table built on the first lookup and never reset by register()",
              "a vendor registered after the first match() (a lookup between registrations)"),
    "C19-3": ("Entire.__init__: `self.prio = getattr(self, 'prio', None) or 100`",
              ">= 2 Entire generators on one path, one declaring prio = 0 and the other in 1..100"),
    "C19-4": ("UnifiedFileDiffer._diff_text_file right-strips every line before difflib",
              "old and new equal after per-line rstrip but not equal as texts (trailing blanks/tabs, blank-only line)"),
    "C20-3": ("api.patch_from_pre temporarily assigns the RefTracker ordering to rb['ordering'] and restores it without finally",
              "a device with a non-empty RefTracker whose make_patch raises, then a later device of the same model in the same process"),
    "C20-4": ("patching._find_acl_matches memoises the rule's alphabet in the shared compiled ACL without distinguishing direct/reverse pattern",
              "an earlier device making a rule match through its reverse pattern first, then a row where two rules are within a symbol in specificity"),
    # ---- round 3 (asked for changes away from the obvious anchor: helpers, data files, vendor branches, process history)
    "C01-5": ("shipped data: `undo mtu %order_reverse` appended to the `interface *` block of huawei.order",
              "huawei, shipped rulebook, an interface whose mtu VALUE changes (undo_redo logic): the removal is ordered after the re-creation"),
    "C01-6": ("patching._select_match memoises the merged children rules on the first matching rule",
              "a general block rule listed before a more specific sibling, a general-only row processed before a row matching both, in one process"),
    "C02-5": ("patching.make_diff applies every ACL of acl_rules_list to the raw diff, keeping only the last one's result",
              "a filter ACL (--filter-acl) after the generators' ACL and an explicitly %cant_delete row removed from new"),
    "C02-6": ("generators/result.RunGeneratorResult: partial_results dict as a shared constructor default",
              ">= 2 devices in one process, a generator that ran on the earlier one and is skipped on the later one"),
    "C03-5": ("patching._select_match caches merged children rules on the winning rule",
              "generic sibling rule before a specific one that also matches, an earlier row won by the same rule with another co-matching set"),
    "C03-6": ("common.base_diff: op stack as a mutable default list pushed/popped without try/finally",
              "an earlier diff in the same process that raised inside a nested level (juniper comment_processor on a non-JSON annotation)"),
    "C04-5": ("CiscoFormatter.block_exit learns `template peer-policy/peer-session` exits (the splitter asks block_exit which rows open flat sections)",
              "cisco, a row starting with `template peer-policy` followed by a sibling"),
    "C04-6": ("JuniperFormatter strip regexes compiled lazily and cached on the class (shared with Ribbon/Nokia)",
              "a Nokia formatter splitting first in the process, then a Juniper/Ribbon config"),
    "C05-5": ("CommonFormatter.split dedents the text before splitting lines",
              "all lines share a margin > 0 and a `#` line sits exactly at that margin while a block is open"),
    "C05-6": ("tabparser line classification memoised by the raw line only (comment markers ignored in the key)",
              "a second parse in the same process with another comment-marker set sharing a byte-identical `!...` line"),
    "C06-5": ("rbparser/acl.compile_acl_text cached by (text, reverse_prefix) instead of (text, vendor)",
              "the same ACL text compiled for nokia/ribbon first and juniper afterwards, a juniper `inactive:` row"),
    "C06-6": ("patching._select_match merges same-key child rules through a shallow copy (writes grandchildren into the cached compiled ACL)",
              "two partially overlapping sibling rules with a same-named child and different grandchildren, the overlapping row filtered first"),
    "C07-5": ("rbparser/ordering: reverse form built by a string helper testing startswith(prefix) without the blank",
              "an ordering rule whose first word begins with the negation word and is longer (`notify *`, `node * role ~`)"),
    "C07-6": ("rbparser/syntax: one shared defaults dict for rules without %params (patching writes ignore_case back into it)",
              "a patching text where a param-less inline `(?i)` rule precedes other param-less rules"),
    "C08-5": ("rbparser/syntax._parse_raw_rule cuts the row at ` %name` (blank only): a TAB before a param is no longer recognised",
              "huawei.order's two TAB-separated `%order_reverse` rules (undo diffserv domain, undo qos schedule-profile)"),
    "C08-6": ("Orderer.order_config deletes %scope-limited rules from the shared compiled rulebook",
              "juniper: order_config of any config, then make_patch in the same process (annotate rows)"),
    "C09-5": ("patching.make_patch: the recursive call no longer passes do_commit",
              "a %force_commit rule nested inside a block and do_commit=False"),
    "C09-6": ("HuaweiFormatter.block_exit emits `endif` whenever an if-chain ends",
              "huawei xpl route-filter with >= 2 if-chains in one patch: two identical command paths, one dropped by cmd_paths"),
    "C10-5": ("generators/base._split_and_strip: textwrap.dedent(text).strip() -> inspect.cleandoc(text)",
              "a multi-line yield whose first line is non-blank and less indented than the rest"),
    "C10-6": ("patching._select_match stores the merged children rules on the best-matching rule",
              "two sibling ACL rules with overlapping, non-nested match sets and an earlier row/device with another co-match set"),
    "C11-5": ("cisco/vlandb._parse_vlancfg_actions: a row without `add` overwrites the set collected so far",
              "a cisco `simple` list (global vlan lines, vlan group) over >= 2 lines with >= 2 lines changed in one diff"),
    "C11-6": ("huawei/vlandb._parse_vlancfg lru_cached and the last row's set enlarged in place with |=",
              "a diff changing >= 2 lines of one list, then a later diff in the same process containing a row with the same text"),
    "C12-5": ("parallel.invoke_retry rewritten as a for loop: the final attempt no longer lists a generator result",
              "a generator task that succeeds only on its last retry (exactly net_retry resets), or net_retry=0"),
    "C12-6": ("Parallel defaults (incl. the callbacks lists) moved to class attributes",
              "a second pool in one process after an earlier pool registered a callback"),
    "C13-5": ("jsontools._ensure_pointer_exists: `not isinstance(doc.get(part), dict)`",
              "a pointer passing through an array of objects: the list is replaced by an object"),
    "C13-6": ("jsontools.apply_json_fragment: dict(old) with copy-on-write of sections, not applied on the delete path",
              "a nested pointer, a section where the fragment only removes, then make_patch on the same old object"),
    "C14-5": ("rpl policy: huawei extcommunity.remove(<RT list>) now emitted (`apply extcommunity-filter ... delete`), list not collected by get_used_community_lists",
              "huawei, rule.extcommunity.remove(X) with X not referenced elsewhere"),
    "C14-6": ("rpl prefix_lists: processed_names de-duplication set kept on the generator object",
              "a second run of the same generator object (next device) with overlapping list names"),
    "C15-5": ("mesh/match_args.PairMatcher._match_host: `if not data`",
              "a direct/indirect rule with a literal host name (template without a placeholder)"),
    "C15-6": ("mesh/basemodel.Unite._merge: in-place `x |= y`",
              "a second rule landing on the same (fqdn, addr, vrf) key; a family set shared through a handler constant"),
    "C16-5": ("api._read_device_config drops `!`/`#` lines before parsing",
              "a Huawei dump whose space-prefixed global section follows an indented block, separated by `#`"),
    "C16-6": ("make_patch/patch_from_pre gain a `scope` parameter before do_commit; _diff_and_patch's positional call shifts",
              "juniper, a statement created together with its annotation (%scope rule of juniper.order)"),
    "C17-5": ("cisco/iface.is_ip_cmd also treats `no ` rows as L3 lines (shared by the nexus interface diff_logic)",
              "a Nexus model with interface defaults and an interface whose `vrf member` changes: implicit `no shutdown` surfaces as ADDED"),
    "C17-6": ("implicit.config recurses into matched lines only for `!` rows",
              "Huawei NE with an explicit `aaa` block: the default child is no longer added"),
    "C18-5": ("netdev/db.find_true_sequences breaks after the first matching sibling",
              "a model matching two sibling regexes (CE6865 vs CE6865E, B4com CS41.* vs CS4132U ...)"),
    "C18-6": ("Orderer.insert merges reference rules in place into the shared compiled ordering rulebook",
              "a patch with a non-empty RefTracker, then any later get_rulebook()/patch for the same vendor"),
    "C19-5": ("types.GeneratorEntireResult gains __bool__ = bool(output); run_file_generators tests `if result`",
              "an ENTIRE generator that renders an empty file"),
    "C19-6": ("run_file_generators skips ENTIRE generators shadowed by a higher-prio claimant before it has produced anything",
              "the higher-prio generator raises NotSupportedDevice and is listed first"),
    "C20-5": ("HardwareView.__hash__/__eq__ compare the model case- and whitespace-insensitively",
              "two devices whose model strings differ only in case (provider cache keyed by the view)"),
    "C20-6": ("rbparser/acl: compiled ACL shared across vendors with one reverse prefix, attrs['vendor'] re-stamped in place",
              "jobs juniper, ribbon/nokia (same ACL text), juniper again, with `inactive:` rows"),
}


def main() -> int:
    logs = VERIF / "build" / "logs" / "drill_final"
    if not logs.exists():
        logs = VERIF / "build" / "logs" / "drill"
    n = 0
    for sid, (what, needs) in sorted(TABLE.items()):
        d = VERIF / "seeded" / sid
        if not d.is_dir():
            continue
        prop = sid.split("-")[0]
        meta = {"id": sid, "property": prop, "change": what, "needs_to_manifest": needs,
                "origin": "fresh sub-agent given only the property record and a scratch worktree of /repo"
                          + (" (round 2: also told which two ideas were already taken)" if sid[-1] in "34" else
                             " (round 3: told the four ideas already taken, asked for helpers / data files / vendor branches / process history)"
                             if sid[-1] in "56" else ""),
                "files": sorted(p.name for p in d.iterdir() if p.name != "meta.json"),
                "ran": [f"python3 harness/drill.py {prop} seeded/{sid}  (scratch worktree of /repo + scratch copy of /verif; "
                        "repo test suite with the change, demo.py with and without the change, "
                        f"ANNET_VERIF_REPO=<worktree> ./check {prop} --tier quick)"]}
        old = {}
        if (d / "meta.json").exists():
            old = json.loads((d / "meta.json").read_text())
        log = logs / f"{sid}.json"
        res = None
        if log.exists():
            try:
                res = json.loads(log.read_text())
            except ValueError:
                res = None
        if res:
            c = res["checks"].get(prop, {})
            meta["confirmed"] = {
                "repo_tests_with_change": res.get("repo_tests_with_change"),
                "demo_rc_with_change": res.get("demo_with_change", {}).get("rc"),
                "demo_rc_without_change": res.get("demo_without_change", {}).get("rc"),
            }
            meta["check_result"] = {
                "detected": res.get("detected"), "with_concrete_failing_input": res.get("detected_with_input"),
                "wall_s": c.get("wall_s"),
                "verdict": [l for l in c.get("verdict", []) if "KNOWN-FINDING" not in l][:4],
            }
        else:
            for k in ("confirmed", "check_result"):
                if k in old:
                    meta[k] = old[k]
        if "history" in old:
            meta["history"] = old["history"]
        (d / "meta.json").write_text(json.dumps(meta, indent=1) + "\n")
        n += 1
    print(f"wrote {n} meta.json files")
    return 0


if __name__ == "__main__":
    sys.exit(main())
