#!/usr/bin/env python3
"""dbg.py FILE LINE [extra tactic]: show the proof state just before LINE of FILE."""
import subprocess, sys, os, tempfile
f, line = sys.argv[1], int(sys.argv[2])
extra = sys.argv[3] if len(sys.argv) > 3 else ""
src = open(f).read().splitlines()
body = "\n".join(src[:line - 1]) + f"\n{extra}\nShow.\n"
d = os.path.dirname(os.path.abspath(f))
tmp = os.path.join(d, "_dbg_tmp.v")
open(tmp, "w").write(body)
coq = os.path.abspath(os.path.join(os.path.dirname(__file__), "..", "coq"))
p = subprocess.run(["coqc", "-Q", coq, "Annet", tmp], capture_output=True, text=True)
out = (p.stdout + p.stderr)
print(out[-6000:])
for ext in (".v", ".vo", ".vok", ".vos", ".glob"):
    try: os.unlink(tmp[:-2] + ext)
    except OSError: pass
try: os.unlink(os.path.join(d, "._dbg_tmp.aux"))
except OSError: pass
