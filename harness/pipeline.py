"""Shared generator / printers for the patching pipeline (C01, C02, C03, C08, C09, C16, C20).

A *structured* rulebook is a list of rule dicts
    {"pat": "foo *", "ign": bool, "glob": bool, "logic": "default"|..., "mode": ""|"ordered"|"rewrite",
     "parent": bool, "force_commit": bool, "kids": [...]}
It is printed both as rule text for the real compile_patching_text and as a Coq rset.
"""
from __future__ import annotations

import random
from typing import Any

from .core import cstr, clist, cpair, cbool, cforest, cnat, copt

LIT = ["alpha", "beta", "gamma", "delta", "mtu", "ip", "peer", "name", "vlan", "port"]
PREFIX_LIKE = ["node", "notify", "undone", "deleted", "removed"]     # no / undo / delete / remove + letters
VAL = ["1", "2", "3", "x", "y", "10.0.0.1", "Eth1"]
LOGICS = ["default", "default", "default", "default", "undo_redo", "permanent", "ignore_changes"]

# vendor -> (reverse, exit, coq family, hw model string, uses common diff logic by default)
VENDORS = {
    "huawei": ("undo", "quit", "FHuawei", "Huawei CE6870", True),
    "h3c": ("undo", "quit", "FHuawei", "H3C S6800", True),
    "optixtrans": ("undo", "quit", "FCommon", None, True),
    "cisco": ("no", "exit", "FCisco", "Cisco Catalyst C3750", True),
    "nexus": ("no", "exit", '(FBlockExit "exit")', "Cisco Nexus 9000", True),
    "iosxr": ("no", "exit", "FAsr", "Cisco ASR 9000", True),
    "arista": ("no", "exit", '(FBlockExit "exit")', "Arista DCS-7280", True),
    "aruba": ("no", "exit", '(FBlockExit "exit")', "Aruba AP-505", False),
    "b4com": ("no", "exit", '(FBlockExit "exit")', "B4com CS4100", True),
    "juniper": ("delete", "", '(FJuniper "set" false)', "Juniper MX960", False),
    "ribbon": ("delete", "exit", '(FJuniper "set" false)', "Ribbon NPT-1200", False),
    "nokia": ("delete", "", '(FJuniper "/configure" true)', "Nokia 7750", False),
    "routeros": ("remove", "", "FRos", "RouterOS", True),
    "pc": ("-", "", "FCommon", "PC", True),
}

BLOCK_VENDORS = ["huawei", "h3c", "cisco", "nexus", "iosxr", "arista", "b4com", "pc"]


def coq_vendor(v: str) -> str:
    rev, ex, fam, _, _ = VENDORS[v]
    return f"(Vendor {cstr(rev)} {cstr(ex)} {fam})"


# ------------------------------------------------------------------ rulebooks

def gen_pattern(rng: random.Random, used: set, depth: int) -> str:
    for _ in range(20):
        n = rng.choice([1, 1, 2, 2, 3])
        toks = [rng.choice(LIT)]
        if rng.random() < 0.06:
            toks = [rng.choice(PREFIX_LIKE)]        # a first word that merely BEGINS with a negation word
        for _ in range(n - 1):
            toks.append(rng.choice(LIT + ["*", "*", "*"]))
        r = rng.random()
        if r < 0.12:
            toks.append("~")
        elif r < 0.2:
            toks[-1] = "*/[a-z0-9]+/" if toks[-1] == "*" else toks[-1]
        p = " ".join(toks)
        if p not in used:
            used.add(p)
            return p
    used.add(p)
    return p


def gen_rules(rng: random.Random, depth: int = 0, max_depth: int = 3, width=(1, 5), allow_modes=True) -> list[dict]:
    used: set = set()
    out = []
    for _ in range(rng.randint(*width)):
        pat = gen_pattern(rng, used, depth)
        r = {"pat": pat, "ign": False, "glob": False, "logic": "default", "mode": "", "parent": False,
             "force_commit": False, "kids": []}
        x = rng.random()
        if x < 0.05:
            r["ign"] = True
        else:
            if rng.random() < 0.1:
                r["glob"] = True
            if rng.random() < 0.35:
                r["logic"] = rng.choice(LOGICS)
            if allow_modes and rng.random() < 0.12:
                r["mode"] = rng.choice(["ordered", "rewrite"])
            if rng.random() < 0.06:
                r["parent"] = True
            if rng.random() < 0.03:
                r["force_commit"] = True
        if depth < max_depth and not r["glob"] and rng.random() < (0.55 if depth == 0 else 0.35):
            r["kids"] = gen_rules(rng, depth + 1, max_depth, (1, 4), allow_modes)
        out.append(r)
    # an overlapping more specific sibling now and then ("foo *" next to "foo bar")
    if out and rng.random() < 0.3:
        base = rng.choice(out)
        if "*" in base["pat"].split() and not base["ign"]:
            spec = " ".join(rng.choice(VAL[:3]) if t == "*" else t for t in base["pat"].split())
            if spec not in used:
                r2 = dict(base, pat=spec, kids=gen_rules(rng, depth + 1, max_depth, (1, 2), allow_modes) if depth < max_depth and rng.random() < 0.5 and not base["glob"] else [])
                out.insert(rng.randrange(len(out) + 1), r2)
    return out


def raw_rule(r: dict) -> str:
    s = ("!" if r["ign"] else "") + ("(?i)" if r.get("ic") and r.get("icform") == "inline" else "") + r["pat"]
    if r["ign"]:
        return s
    if r["glob"]:
        s += " %global"
    if r["logic"] != "default":
        s += f" %logic=common.{r['logic']}"
    if r["mode"] == "ordered":
        s += " %ordered"
    if r["mode"] == "rewrite":
        s += " %rewrite"
    if r["parent"]:
        s += " %parent"
    if r["force_commit"]:
        s += " %force_commit"
    # optional keys (C03X); absent = today's behaviour
    if r.get("ic") and r.get("icform", "param") == "param":
        s += " %ignore_case"
    if r.get("ml"):
        s += " %multiline"
    return s


def rules_text(rules: list[dict], level: int = 0) -> str:
    lines = []
    for r in rules:
        lines.append("    " * level + raw_rule(r))
        if r["kids"] and not r["ign"]:
            lines.append(rules_text(r["kids"], level + 1))
    return "\n".join(lines)


LOGIC_COQ = {"default": "LDefault", "ordered": "LOrdered", "rewrite": "LRewrite", "permanent": "LPermanent",
             "ignore_changes": "LIgnoreChanges", "undo_redo": "LUndoRedo"}


def coq_attrs(r: dict) -> str:
    logic = r["logic"]
    dl = "DDefault"
    if r["mode"] == "ordered":
        logic, dl = "ordered", "DOrdered"
    elif r["mode"] == "rewrite":
        logic, dl = "rewrite", "DRewrite"
    parent = r["parent"] or bool(r["kids"])
    if r["ign"]:
        return f"(Attrs {cstr(r['pat'])} LDefault DDefault {cbool(bool(r['kids']))} false)"
    # optional key "ic" (C03X): the ignore_case parameter reaches the matcher as the inline flag "(?i)",
    # which compile_row_regexp treats exactly like flags=re.IGNORECASE
    pat = ("(?i)" if r.get("ic") else "") + r["pat"]
    return f"(Attrs {cstr(pat)} {LOGIC_COQ[logic]} {dl} {cbool(parent)} {cbool(r['force_commit'])})"


def coq_prule(r: dict) -> str:
    if r["ign"] or r["glob"]:
        kl, kg = "[]", "[]"
    else:
        kl, kg = coq_rset_parts(r["kids"])
    return f"(PRule {cstr(raw_rule(r))} {cbool(r['ign'])} {coq_attrs(r)} {kl} {kg})"


def coq_rset_parts(rules: list[dict]) -> tuple[str, str]:
    loc = [coq_prule(r) for r in rules if not (r["glob"] and not r["ign"])]
    glo = [coq_prule(r) for r in rules if r["glob"] and not r["ign"]]
    return clist(loc), clist(glo)


def coq_rset(rules: list[dict]) -> str:
    kl, kg = coq_rset_parts(rules)
    return f"({kl}, {kg})"


# ------------------------------------------------------------------ ordering rulebooks

def gen_ordering(rng: random.Random, rules: list[dict], rev: str, depth: int = 0) -> list[dict]:
    out = []
    pool = [r for r in rules if not r["ign"]]
    rng.shuffle(pool)
    for r in pool[: rng.randint(0, len(pool))]:
        pat = r["pat"]
        o = {"pat": pat, "orev": False, "glob": False, "scope": None, "kids": []}
        x = rng.random()
        if x < 0.15:
            o["pat"] = f"{rev} {pat}"
            if rng.random() < 0.6:
                o["orev"] = True
        if rng.random() < 0.08:
            o["glob"] = True
        if rng.random() < 0.08:
            o["scope"] = rng.choice([["patch"], ["config"], ["patch", "config"]])
        if r["kids"] and rng.random() < 0.6 and depth < 3:
            o["kids"] = gen_ordering(rng, r["kids"], rev, depth + 1)
        out.append(o)
    if rng.random() < 0.15:
        out.insert(rng.randrange(len(out) + 1), {"pat": "~", "orev": False, "glob": False, "scope": None, "kids": []})
    return out


def raw_orule(o: dict) -> str:
    s = o["pat"]
    if o["orev"]:
        s += " %order_reverse"
    if o["glob"]:
        s += " %global"
    if o["scope"] is not None:
        s += " %scope=" + ",".join(o["scope"])
    return s


def ordering_text(rules: list[dict], level: int = 0) -> str:
    lines = []
    for r in rules:
        lines.append("    " * level + raw_orule(r))
        if r["kids"]:
            lines.append(ordering_text(r["kids"], level + 1))
    return "\n".join(lines)


def coq_orule(o: dict) -> str:
    scope = copt(None if o["scope"] is None else clist(cstr(s) for s in o["scope"]))
    return (f"(ORule {cstr(raw_orule(o))} {cstr(o['pat'])} {cbool(o['orev'])} {cbool(o['glob'])} {scope} "
            f"{clist(coq_orule(k) for k in o['kids'])})")


def coq_ordering(rules: list[dict]) -> str:
    seen = set()
    out = []
    for o in rules:  # odict: a repeated raw_rule keeps first position, last value
        out.append(o)
    # duplicates by raw text: parse_to_tree merges them; generator avoids them
    return clist(coq_orule(o) for o in out)


# ------------------------------------------------------------------ configs

def inst(rng: random.Random, pat: str, extra: bool = True) -> str:
    ws = []
    for t in pat.split():
        if t == "*":
            ws.append(rng.choice(VAL))
        elif t.startswith("*/"):
            ws.append(rng.choice(["a1", "b2", "zz"]))
        elif t == "~":
            ws.extend(rng.sample(VAL, rng.randint(1, 2)))
        else:
            ws.append(t)
    if extra and not pat.endswith("~") and rng.random() < 0.5:
        ws.extend(rng.sample(VAL, rng.randint(1, 2)))
    return " ".join(ws)


def gen_config(rng: random.Random, rules: list[dict], depth: int = 0, density: float = 0.7,
               dup_rate: float = 0.04) -> dict:
    """Mostly one row per (rule, key) slot; with probability dup_rate a second row for a slot."""
    t: dict = {}
    for r in rules:
        if rng.random() > density:
            continue
        holes = "*" in r["pat"] or "~" in r["pat"]
        n = rng.choice([1, 1, 1, 2, 3]) if holes else 1
        seen_keys = set()
        for _ in range(n):
            base = inst(rng, r["pat"], extra=False)
            if base in seen_keys and rng.random() > dup_rate:
                continue
            seen_keys.add(base)
            row = base
            if not r["pat"].endswith("~") and rng.random() < 0.5:
                row += " " + " ".join(rng.sample(VAL, rng.randint(1, 2)))
            if row in t:
                continue
            # the children rules of EVERY local rule matching a block header apply below it (_select_match merges
            # them): rows for the other matching siblings' children too, not only for the rule the row came from
            kids_src = list(r["kids"])
            for o in rules:
                if o is not r and o["kids"] and not o["ign"] and not o["glob"] and _fits(o["pat"], row):
                    kids_src += [k for k in o["kids"] if all(k["pat"] != x["pat"] for x in kids_src)]
            t[row] = gen_config(rng, kids_src, depth + 1, density, dup_rate) if kids_src and rng.random() < 0.8 else {}
            if rng.random() < dup_rate and not r["pat"].endswith("~"):
                t[base + " dup"] = {}
    if rng.random() < 0.15:
        t["unknown " + rng.choice(VAL)] = {}
    items = list(t.items())
    rng.shuffle(items)
    return dict(items)


def _fits(pat: str, row: str) -> bool:
    """crude word-level fit of a plain pattern (literal words, *, */re/, trailing ~); used only to steer generation"""
    ws, ps = row.split(), pat.split()
    tilde = bool(ps) and ps[-1] == "~"
    core = ps[:-1] if tilde else ps
    if len(ws) < len(core) + (1 if tilde else 0):
        return False
    return all(p == w or p.startswith("*") for p, w in zip(core, ws))


def rule_for(row: str, rules: list[dict]):
    """crude: first non-ignore rule whose literal words/holes fit (used only to steer mutations)."""
    ws = row.split()
    for r in rules:
        ps = r["pat"].split()
        core = [p for p in ps if p != "~"]
        if len(ws) < len(core):
            continue
        if all(p == w or p.startswith("*") for p, w in zip(core, ws)):
            return r
    return None


def mutate_config(rng: random.Random, t: dict, rules: list[dict], rate: float = 0.3) -> dict:
    out: list = []
    for row, kids in t.items():
        x = rng.random()
        r = rule_for(row, rules)
        sub_rules = r["kids"] if r else []
        if x < rate * 0.35:
            continue                                           # removed
        if x < rate * 0.7 and r is not None:
            ws = row.split()                                   # same key, other value (replacement)
            n = len([p for p in r["pat"].split() if p != "~"])
            if "~" not in r["pat"]:
                nrow = " ".join(ws[:n] + rng.sample(VAL, rng.randint(0, 2)))
                out.append((nrow, mutate_config(rng, kids, sub_rules, rate)))
                continue
        out.append((row, mutate_config(rng, kids, sub_rules, rate) if rng.random() < 0.8 else kids))
    for r in rules:
        if rng.random() < rate * 0.4:
            out.append((inst(rng, r["pat"]), gen_config(rng, r["kids"], 1, 0.6) if r["kids"] else {}))
    if rng.random() < rate * 0.5:
        rng.shuffle(out)
    res: dict = {}
    for k, v in out:
        if k not in res:
            res[k] = v
    return res


# ------------------------------------------------------------------ impl outputs -> Coq terms

OPS = {"added": "Added", "removed": "Removed", "moved": "Moved", "affected": "Affected", "unchanged": "Unchanged"}
DATTRS = '(Attrs "" LDefault DDefault false false)'


def coq_diff(d: list) -> str:
    return clist(f"(DN {OPS[n['op']]} {cstr(n['row'])} (MI {cstr(n['raw'])} {clist(cstr(k) for k in n['key'])} {DATTRS}) "
                 f"{coq_diff(n['kids'])})" for n in d)


SK0 = '(ZFin 0%Z, "", true)'


def coq_sk(sk) -> str:
    if not sk:
        return SK0
    n = "ZInf" if sk[0] == "inf" else f"(ZFin ({sk[0]})%Z)"
    return f"({n}, {cstr(sk[1])}, {cbool(sk[2])})"


def coq_ptree(p: list) -> str:
    return "(PT " + clist(
        f"({cstr(i['row'])}, {copt(None if i['child'] is None else coq_ptree(i['child']))}, {coq_sk(i.get('sk'))})"
        for i in p) + ")"


def coq_paths(ps: list) -> str:
    return clist(clist(cstr(x) for x in p) for p in ps)


def tree_depth(t: dict) -> int:
    return 0 if not t else 1 + max(tree_depth(v) for v in t.values())


def gen_case(rng: random.Random, vendors=None, allow_modes=True) -> dict:
    v = rng.choice(vendors or BLOCK_VENDORS)
    rules = gen_rules(rng, allow_modes=allow_modes)
    old = gen_config(rng, rules)
    new = mutate_config(rng, old, rules, rate=rng.choice([0.15, 0.3, 0.5]))
    orules = gen_ordering(rng, rules, VENDORS[v][0]) if rng.random() < 0.7 else []
    return {"vendor": v, "rules": rules, "orules": orules, "old": old, "new": new,
            "patching": rules_text(rules), "ordering": ordering_text(orules)}


def impl_payload(c: dict, **kw) -> dict:
    return dict({k: c[k] for k in ("vendor", "patching", "ordering", "old", "new")}, **kw)


def coq_pcase(c: dict, o: dict) -> str:
    patch = None if o.get("err") == "AssertionError" else coq_ptree(o["patch"])
    return ("(PCase " + " ".join([
        coq_vendor(c["vendor"]), coq_rset(c["rules"]), coq_ordering(c["orules"]),
        cforest(c["old"]), cforest(c["new"]),
        coq_diff(o.get("diff_full", [])), coq_diff(o.get("diff", [])), copt(patch),
        coq_paths(o.get("cmd_paths", [])),
        clist(cpair(cnat(l), cstr(r)) for l, r in o.get("patch_lines", [])),
    ]) + ")")


PIPE_IMPORTS = ("From Annet Require Import Base.Str Base.Tree Model.Pattern Model.Rulebook Model.Diff Model.Order "
                "Model.Patch Model.Blocks Model.Pipeline Spec.PipelineCase.")


# ------------------------------------------------------------------ shared property driver

def run_pipeline_property(ctx, theorem_file: str, *, holds: dict[str, str], extra_imports: str = "",
                          n_quick: int = 1200, n_thorough: int = 12000, vendors=None, allow_modes=True,
                          nontrivial=None, rule_text="", case_filter=None, tweak=None, impl_kw=None,
                          agree=("diff_full", "diff", "patch", "paths", "lines"), what: dict | None = None,
                          skip_proof=False):
    """Generate pipeline cases, run the real pipeline, let Coq evaluate agreement with the
    model and the property predicates `holds` (label -> Coq function pcase -> bool)."""
    from . import core
    if not skip_proof:
        core.proof_stage(ctx, theorem_file)
    rng = ctx.rng("pipeline")
    n = n_thorough if ctx.thorough else n_quick
    cases = []
    while len(cases) < n:
        c = gen_case(rng, vendors=vendors, allow_modes=allow_modes)
        if tweak:
            c = tweak(rng, c, len(cases))
        if case_filter and not case_filter(c):
            continue
        cases.append(c)
    outs = core.run_impl_sharded("pipeline_runner.py", [impl_payload(c, **(impl_kw or {})) for c in cases])
    fatal = [i for i, o in enumerate(outs) if "fatal" in o or "diff_full_err" in o or
             ("err" in o and o["err"] != "AssertionError")]
    for i in fatal[:1]:
        ctx.add_violation(core.Violation(
            signature=f"{ctx.prop}/implementation-raised",
            what="the real pipeline raised an unexpected exception: " + str(outs[i].get("fatal") or outs[i].get("err") or outs[i].get("diff_full_err"))[:300],
            replay={"case": {k: cases[i][k] for k in ("vendor", "patching", "ordering", "old", "new")}, "impl": outs[i]}))
    keep = [i for i in range(len(cases)) if i not in set(fatal)]
    terms = [coq_pcase(cases[i], outs[i]) for i in keep]
    preds = {f"agree_{a}": f"agree_{a}" for a in agree}
    preds.update({f"holds_{k}": v for k, v in holds.items()})
    res = core.run_case_files(ctx.prop, "pcase", PIPE_IMPORTS + "\n" + extra_imports, preds, terms, per_file=40)
    res = {k: [keep[j] for j in v] for k, v in res.items()}

    def rep(i):
        return {"case": {k: cases[i][k] for k in ("vendor", "patching", "ordering", "old", "new")}, "impl": outs[i]}

    any_holds_fail = False
    for k in holds:
        for i in res[f"holds_{k}"][:3]:
            any_holds_fail = True
            ctx.add_violation(core.Violation(
                signature=f"{ctx.prop}/{k}",
                what=(what or {}).get(k, f"property clause '{k}' is false on the implementation's output"),
                replay=dict(rep(i), clause=k)))
    if not any_holds_fail:
        for a in agree:
            for i in res[f"agree_{a}"][:1]:
                ctx.add_violation(core.Violation(
                    signature=f"{ctx.prop}/model-impl-disagree/{a}",
                    what=f"Coq model and implementation differ on '{a}' (correspondence broken); the property "
                         f"clauses hold on every implementation output explored",
                    replay=dict(rep(i), correspondence=a), no_input=True))
    seen = set()
    nt = 0
    for i in keep:
        h = core.canon_hash([cases[i][k] for k in ("vendor", "patching", "ordering", "old", "new")])
        if h in seen:
            continue
        seen.add(h)
        if nontrivial is None or nontrivial(cases[i], outs[i]):
            nt += 1
    vend = {}
    for c in cases:
        vend[c["vendor"]] = vend.get(c["vendor"], 0) + 1
    ctx.coverage.update({
        "evaluations": len(cases),
        "distinct_nontrivial": nt,
        "rule": "random structured rulebooks (nesting<=4, *, ~, */re/, %global, %ordered, %rewrite, %parent, logics), "
                "old drawn from the rules, new = mutation of old; distinct by (vendor, rulebooks, old, new); "
                "non-trivial = " + (rule_text or "any"),
        "samples": [rep(i) for i in keep[:2]],
        "traces_validated_against_impl": len(keep),
        "disagreements_checked": sum(len(res[f"agree_{a}"]) for a in agree),
        "assertion_error_cases": sum(1 for o in outs if o.get("err") == "AssertionError"),
        "vendor_histogram": vend,
        "max_tree_depth": max((tree_depth(c["old"]) for c in cases), default=0),
    })
    ctx.assumptions += [
        "rule patterns restricted to the plain rule language of Model/Pattern.v (C07)",
        "not modelled: %ignore_case re-keying, %multiline, %comment/add_comments, vendor %logic/%diff_logic functions",
    ]
    return cases, outs, res


def diff_size(d: list) -> int:
    return sum(1 + diff_size(n["kids"]) for n in d)


def diff_ops(d: list, acc=None) -> set:
    acc = set() if acc is None else acc
    for n in d:
        acc.add(n["op"])
        diff_ops(n["kids"], acc)
    return acc


# ------------------------------------------------------------------ C03X: %ignore_case / %multiline flags

def coq_flags(rules: list[dict]) -> str:
    """raw_rule -> (ignore_case, multiline) for every rule of a structured rulebook that sets one of the
    optional keys "ic" / "ml" (Model/DiffX.v: fl_of)"""
    acc: dict = {}

    def walk(rs):
        for r in rs:
            if not r["ign"] and (r.get("ic") or r.get("ml")):
                acc[raw_rule(r)] = (bool(r.get("ic")), bool(r.get("ml")))
            walk(r["kids"])
    walk(rules)
    return clist(cpair(cstr(k), cpair(cbool(i), cbool(m))) for k, (i, m) in acc.items())
