#!/usr/bin/env python3
"""Mutation drill: run one property check against a seeded change without touching /repo or /verif.

  harness/drill.py C05 /verif/seeded/C05-1            (directory with patch.diff [+ demo.py])
  harness/drill.py C05 some.diff --demo demo.py --tier quick --props C05,C04

A scratch git worktree of /repo gets the patch; a scratch copy of /verif (with its compiled .vo files,
its own coq/Gen, build/, evidence/, replays/) runs `./check <prop>` with ANNET_VERIF_REPO pointing at the
worktree.  Reports: repo test-suite result with the change, demo result with / without the change, the
check's exit status and verdict lines.  Everything under the scratch directory is removed afterwards.
"""
from __future__ import annotations

import argparse
import json
import os
import re
import shutil
import subprocess
import sys
import tempfile
import time
from pathlib import Path

VERIF = Path(__file__).resolve().parent.parent
REPO = Path("/repo")
PY = "/venv/bin/python"


def sh(cmd, **kw):
    return subprocess.run(cmd, capture_output=True, text=True, **kw)


def main() -> int:
    ap = argparse.ArgumentParser()
    ap.add_argument("prop")
    ap.add_argument("patch")
    ap.add_argument("--demo")
    ap.add_argument("--tier", default="quick")
    ap.add_argument("--props", help="comma list of checks to run (default: the property itself)")
    ap.add_argument("--skip-tests", action="store_true")
    ap.add_argument("--keep", action="store_true")
    a = ap.parse_args()
    src = Path(a.patch)
    patch = src / "patch.diff" if src.is_dir() else src
    demo = Path(a.demo) if a.demo else (src / "demo.py" if src.is_dir() and (src / "demo.py").exists() else None)
    props = a.props.split(",") if a.props else [a.prop]
    tmp = Path(tempfile.mkdtemp(prefix=f"drill-{a.prop}-", dir="/tmp"))
    wt = tmp / "repo"
    out: dict = {"property": a.prop, "patch": str(patch)}
    try:
        p = sh(["git", "-C", str(REPO), "worktree", "add", "--detach", str(wt), "HEAD"])
        if p.returncode != 0:
            print(p.stderr)
            return 2
        p = sh(["git", "-C", str(wt), "apply", str(patch.resolve())])
        if p.returncode != 0:
            out["apply_error"] = p.stderr[-800:]
            print(json.dumps(out, indent=1))
            return 2
        env = dict(os.environ, PYTHONDONTWRITEBYTECODE="1", PYTHONHASHSEED="0")
        env.pop("ANNET_VERIF", None)
        if not a.skip_tests:
            p = sh([PY, "-m", "pytest", "-q", "-p", "no:cacheprovider", "--timeout=900"], cwd=wt, env=env)
            out["repo_tests_with_change"] = p.stdout.strip().splitlines()[-1] if p.stdout.strip() else p.stderr[-300:]
        if demo:
            for label, root in (("with_change", wt), ("without_change", REPO)):
                e = dict(env, PYTHONPATH=str(root))
                try:
                    p = sh([PY, str(demo.resolve())], cwd=root, env=e, timeout=900)
                    out[f"demo_{label}"] = {"rc": p.returncode, "tail": (p.stdout + p.stderr).strip()[-300:]}
                except subprocess.TimeoutExpired:
                    out[f"demo_{label}"] = {"rc": "timeout"}
        vcopy = tmp / "verif"
        sh(["rsync", "-a", "--exclude", ".git", "--exclude", "build/cases", "--exclude", "build/logs",
            "--exclude", "replays", "--exclude", "seeded", str(VERIF) + "/", str(vcopy) + "/"])
        (vcopy / "replays").mkdir(exist_ok=True)
        out["checks"] = {}
        for pr in props:
            t0 = time.time()
            e = dict(os.environ, ANNET_VERIF_REPO=str(wt))
            try:
                p = sh([str(vcopy / "check"), pr, "--tier", a.tier], env=e, timeout=3600)
                txt = p.stdout + p.stderr
                lines = [l for l in txt.splitlines() if re.match(r"\s*(VIOLATION|KNOWN-FINDING|OK property|\s+\()", l)]
                rec = {"rc": p.returncode, "wall_s": round(time.time() - t0, 1), "verdict": [l[:700] for l in lines][:12]}
                m = re.search(r"VIOLATION property=\S+ replay=(\S+)", txt)
                if m and Path(m.group(1)).exists():
                    rec["replay_excerpt"] = Path(m.group(1)).read_text()[:1500]
                if p.returncode not in (0, 1) or not lines:
                    rec["tail"] = txt[-1500:]
            except subprocess.TimeoutExpired:
                rec = {"rc": "timeout"}
            out["checks"][pr] = rec
        det = out["checks"].get(a.prop, {})
        out["detected"] = det.get("rc") == 1 and any("VIOLATION" in l for l in det.get("verdict", []))
        out["detected_with_input"] = out["detected"] and not any(
            "no-failing-input-found" in l for l in det.get("verdict", []) if "VIOLATION" in l)
        print(json.dumps(out, indent=1))
        return 0
    finally:
        if not a.keep:
            sh(["git", "-C", str(REPO), "worktree", "remove", "--force", str(wt)])
            shutil.rmtree(tmp, ignore_errors=True)
            sh(["git", "-C", str(REPO), "worktree", "prune"])


if __name__ == "__main__":
    sys.exit(main())
