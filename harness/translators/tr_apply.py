"""annet/annlib/rulebook/common.py: apply(hw, do_commit, do_finalize) -> coq/Gen/Src_apply.v

The if/elif chain over hardware families becomes a decision table: per branch its
condition and the commands appended to `before` / `after`, each with the guard under
which it is appended.  Conditions are boolean expressions over the atoms do_commit,
do_finalize, hardware flags (hw.X.Y) and two opaque atoms (soft prefix, env var).

Also emitted (used by C09): the same table for annet/rulebook/aruba/ap_env.py:apply (the only other
apply_logic shipped) and the deploy-rule defaults of annet/rulebook/deploying.py (DEFAULT_TIMEOUT,
DEFAULT_APPLY_LOGIC, checked to be what match_deploy_rule's default rule and the params scheme use)."""
from __future__ import annotations

import ast
from pathlib import Path


class Unsupported(Exception):
    pass


def cstr(s: str) -> str:
    return '"' + s.replace('"', '""') + '"'


def expr(e) -> str:
    if isinstance(e, ast.BoolOp):
        op = "BAnd" if isinstance(e.op, ast.And) else "BOr"
        out = expr(e.values[0])
        for v in e.values[1:]:
            out = f"({op} {out} {expr(v)})"
        return out
    if isinstance(e, ast.UnaryOp) and isinstance(e.op, ast.Not):
        return f"(BNot {expr(e.operand)})"
    if isinstance(e, ast.Name) and e.id in ("do_commit", "do_finalize"):
        return "BCommit" if e.id == "do_commit" else "BFinalize"
    if isinstance(e, ast.Attribute):
        src = ast.unparse(e)
        if src.startswith("hw."):
            return f"(BHw {cstr(src[3:])})"
    if isinstance(e, ast.Call):
        return f"(BOpaque {cstr(ast.unparse(e))})"
    raise Unsupported("condition: " + ast.unparse(e))


def walk(stmts, guard: str, out: list):
    for st in stmts:
        if isinstance(st, ast.Pass) or (isinstance(st, ast.Expr) and isinstance(st.value, ast.Constant)):
            continue
        if isinstance(st, ast.If):
            g = expr(st.test)
            walk(st.body, f"(BAnd {guard} {g})", out)
            if st.orelse:
                walk(st.orelse, f"(BAnd {guard} (BNot {g}))", out)
            continue
        if isinstance(st, ast.Expr) and isinstance(st.value, ast.Call):
            c = st.value
            if isinstance(c.func, ast.Attribute) and c.func.attr == "add_cmd" and isinstance(c.func.value, ast.Name) \
                    and c.func.value.id in ("before", "after"):
                cmd = c.args[0]
                if isinstance(cmd, ast.Call) and getattr(cmd.func, "id", None) == "Command" and isinstance(cmd.args[0], ast.Constant):
                    timeout = 0
                    for k in cmd.keywords:
                        if k.arg == "timeout" and isinstance(k.value, ast.Constant):
                            timeout = int(k.value.value)
                        elif k.arg is not None:
                            raise Unsupported("Command keyword " + k.arg)
                    side = "SBefore" if c.func.value.id == "before" else "SAfter"
                    out.append(f"({side}, {cstr(cmd.args[0].value)}, {timeout}%nat, {guard})")
                    continue
        raise Unsupported("statement: " + ast.unparse(st)[:200])


def split_init(body: list) -> list:
    """Skip a docstring and the statements that create the two command lists (`before, after = CommandList(),
    CommandList()` in one statement or two, in either order); return the rest of the body.  Anything else that
    comes before both lists exist is not recognised (fail closed)."""
    rest = list(body)
    if rest and isinstance(rest[0], ast.Expr) and isinstance(rest[0].value, ast.Constant) and isinstance(rest[0].value.value, str):
        rest = rest[1:]
    made: set = set()

    def is_new_list(e) -> bool:
        return isinstance(e, ast.Call) and ast.unparse(e.func) == "CommandList" and not e.args and not e.keywords

    while rest and made != {"before", "after"}:
        st = rest[0]
        if not (isinstance(st, ast.Assign) and len(st.targets) == 1):
            break
        t, v = st.targets[0], st.value
        if isinstance(t, ast.Name) and t.id in ("before", "after") and is_new_list(v):
            made.add(t.id)
        elif isinstance(t, ast.Tuple) and isinstance(v, ast.Tuple) and len(t.elts) == len(v.elts) \
                and all(isinstance(x, ast.Name) and x.id in ("before", "after") for x in t.elts) and all(is_new_list(x) for x in v.elts):
            made.update(x.id for x in t.elts)
        else:
            break
        rest = rest[1:]
    if made != {"before", "after"}:
        raise Unsupported("the function does not start by creating `before` and `after` as CommandList()")
    return rest


def returns_lists(st) -> bool:
    return isinstance(st, ast.Return) and st.value is not None and \
        ast.unparse(st.value).replace(" ", "").strip("()") == "before,after"


def ap_env(repo: Path) -> list:
    """aruba/ap_env.py:apply — init; statements adding commands; return (before, after)."""
    mod = ast.parse((repo / "annet" / "rulebook" / "aruba" / "ap_env.py").read_text())
    fn = next(n for n in mod.body if isinstance(n, ast.FunctionDef) and n.name == "apply")
    body = split_init(list(fn.body))
    if not body or not returns_lists(body[-1]):
        raise Unsupported("aruba.ap_env.apply is no longer: init; ...; return (before, after)")
    cmds: list = []
    walk(body[:-1], "BTrue", cmds)
    return cmds


def deploy_defaults(repo: Path) -> tuple[int, str]:
    mod = ast.parse((repo / "annet" / "rulebook" / "deploying.py").read_text())
    consts = {}
    for n in mod.body:
        if isinstance(n, ast.Assign) and len(n.targets) == 1 and isinstance(n.targets[0], ast.Name) \
                and isinstance(n.value, ast.Constant):
            consts[n.targets[0].id] = n.value.value
    timeout, logic = consts["DEFAULT_TIMEOUT"], consts["DEFAULT_APPLY_LOGIC"]
    if not isinstance(timeout, int) or timeout <= 0 or not isinstance(logic, str):
        raise Unsupported("DEFAULT_TIMEOUT / DEFAULT_APPLY_LOGIC")
    # the default rule returned by match_deploy_rule and the params scheme must use the same values
    fn = next(n for n in mod.body if isinstance(n, ast.FunctionDef) and n.name == "match_deploy_rule")
    ret = fn.body[-1]
    if not isinstance(ret, ast.Return) or not isinstance(ret.value, ast.Dict):
        raise Unsupported("match_deploy_rule does not end in the default rule literal")
    attrs = dict(zip((k.value for k in ret.value.keys), ret.value.values))["attrs"]
    d = dict(zip((k.value for k in attrs.keys), (ast.unparse(v) for v in attrs.values)))
    if d.get("timeout") not in ("DEFAULT_TIMEOUT", repr(timeout)) or \
            d.get("apply_logic") not in ("import_rulebook_function(DEFAULT_APPLY_LOGIC)", f"import_rulebook_function({logic!r})") or \
            d.get("dialogs") not in ("odict()", "OrderedDict()", "{}"):
        raise Unsupported("default deploy rule: " + str(d))
    comp = next(n for n in mod.body if isinstance(n, ast.FunctionDef) and n.name == "compile_deploying_text")
    scheme = None
    for n in ast.walk(comp):
        if isinstance(n, ast.keyword) and n.arg == "params_scheme" and isinstance(n.value, ast.Dict):
            scheme = dict(zip((k.value for k in n.value.keys), n.value.values))
    if scheme is None:
        raise Unsupported("params_scheme")

    def dflt(name):
        dd = dict(zip((k.value for k in scheme[name].keys), scheme[name].values))
        return ast.unparse(dd["default"])
    if dflt("timeout") not in ("DEFAULT_TIMEOUT", repr(timeout)) or dflt("apply_logic") not in ("DEFAULT_APPLY_LOGIC", repr(logic)) \
            or dflt("send_nl") not in ("True", "DEFAULT_SEND_NL") or dflt("ifcontext") != "[]":
        raise Unsupported("params scheme defaults")
    return timeout, logic


def translate(repo: Path):
    src = (repo / "annet" / "annlib" / "rulebook" / "common.py").read_text()
    mod = ast.parse(src)
    fn = next(n for n in mod.body if isinstance(n, ast.FunctionDef) and n.name == "apply")
    body = [None] + split_init(list(fn.body))
    if len(body) != 3 or not isinstance(body[1], ast.If) or not isinstance(body[2], ast.Return):
        raise Unsupported("apply() is no longer: init; if-chain; return")
    chain = body[1]
    branches = []
    node = chain
    while True:
        cmds: list = []
        walk(node.body, "BTrue", cmds)
        branches.append((expr(node.test), cmds))
        if len(node.orelse) == 1 and isinstance(node.orelse[0], ast.If):
            node = node.orelse[0]
            continue
        if not (len(node.orelse) == 1 and isinstance(node.orelse[0], ast.Raise)):
            raise Unsupported("else branch is not a raise")
        break
    if not returns_lists(body[2]):
        raise Unsupported("apply() does not return (before, after)")
    ap = ap_env(repo)
    timeout, logic = deploy_defaults(repo)
    rows = ";\n  ".join(f"({c}, [{'; '.join(cs)}])" for c, cs in branches)
    txt = f"""(* GENERATED by harness/translators/tr_apply.py from annlib/rulebook/common.py:apply — do not edit *)
From Coq Require Import List String.
Import ListNotations.
Open Scope string_scope.
Inductive bexp := BTrue | BCommit | BFinalize | BHw (flag : string) | BOpaque (src : string)
                | BAnd (a b : bexp) | BOr (a b : bexp) | BNot (a : bexp).
Inductive side := SBefore | SAfter.
(* branch condition, [(side, command, timeout (0 = default), guard)] in source order; no branch true = raise *)
Definition apply_table : list (bexp * list (side * string * nat * bexp)) := [
  {rows}
].
(* annet/rulebook/aruba/ap_env.py:apply *)
Definition ap_env_table : list (side * string * nat * bexp) := [{'; '.join(ap)}].
(* annet/rulebook/deploying.py: DEFAULT_TIMEOUT (seconds), DEFAULT_APPLY_LOGIC *)
Definition default_timeout_s : nat := {timeout}%nat.
Definition default_apply_logic : string := {cstr(logic)}.
"""
    return [("Src_apply.v", txt, {"branches": len(branches), "commands": sum(len(c) for _, c in branches),
                                  "ap_env_commands": len(ap), "default_timeout_s": timeout})]
