"""Fail-closed translators: /repo source facts -> coq/Gen/Src_*.v (rewritten every run)."""
from __future__ import annotations

import importlib
import pkgutil
from pathlib import Path


def run_all(repo: Path, out: Path) -> dict:
    from .. import core
    out.mkdir(parents=True, exist_ok=True)
    report = {}
    wanted = set()
    for m in sorted(pkgutil.iter_modules(__path__), key=lambda m: m.name):
        if not m.name.startswith("tr_"):
            continue
        mod = importlib.import_module(f"{__name__}.{m.name}")
        try:
            produced = mod.translate(repo)
        except Exception as e:  # fail closed: no table -> dependent theorems do not build
            report[m.name] = f"TRANSLATOR FAILED (source no longer has the expected shape): {type(e).__name__}: {e}"[:600]
            continue
        for fname, text, summary in produced:
            core.write_if_changed(out / fname, text)
            wanted.add(fname)
            report[fname] = summary
    for f in out.glob("*.v"):
        if f.name not in wanted:
            f.unlink()
    return report
