"""Fail-closed translators: /repo source facts -> coq/Gen/Src_*.v (rewritten every run)."""
from __future__ import annotations

import importlib
import pkgutil
from pathlib import Path


def run_all(repo: Path, out: Path) -> dict:
    from .. import core
    out.mkdir(parents=True, exist_ok=True)
    report = {}
    wanted = set()
    for m in sorted(pkgutil.iter_modules(__path__), key=lambda m: m.name):
        if not m.name.startswith("tr_"):
            continue
        mod = importlib.import_module(f"{__name__}.{m.name}")
        try:
            produced = mod.translate(repo)
        except Exception as e:  # fail closed: no table -> dependent theorems do not build
            report[m.name] = f"TRANSLATOR FAILED (source no longer has the expected shape): {type(e).__name__}: {e}"[:600]
            continue
        for fname, text, summary in produced:
            core.write_if_changed(out / fname, text)
            wanted.add(fname)
            report[fname] = summary
    for f in out.glob("*.v"):
        if f.name not in wanted:
            # a table that could not be regenerated must not survive as a stale source OR as a stale
            # compiled file: theorems depending on it then fail to build (fail closed)
            for ext in (".v", ".vo", ".vos", ".vok", ".glob"):
                f.with_suffix(ext).unlink(missing_ok=True)
    for f in out.glob("*.vo"):
        if f.with_suffix(".v").name not in wanted:
            for ext in (".vo", ".vos", ".vok", ".glob"):
                f.with_suffix(ext).unlink(missing_ok=True)
    return report
