"""annet/implicit.py (+ the completion step of annet/gen.py) -> coq/Gen/Src_implicit.v   (C17)

What is read:
* the body of `_implicit_tree` by `ast`, only to learn WHICH hardware attributes
  (`device.hw.A.B`), tag constants (`"x" in device.tags`) and text constants it consults;
* the texts and parsed rule trees themselves by calling the real `_implicit_tree` (under the
  repository's interpreter) for one canonical device per hardware attribute / tag the function
  consults, so whatever branch logic the function has is executed, not re-implemented.
Fails closed when
* `_implicit_tree` consults a hardware attribute or tag for which no canonical device is listed
  below, or contains a statement kind other than if / `text =` / `text +=` / return parse_text(text);
* a canonical device does not have the attribute it stands for, or no canonical device lacks it;
* a text constant of the function is not part of the text selected for any canonical device
  (an unreachable or new branch would otherwise be silently absent from the table);
* `implicit.config` / `compile_rules` / `compile_tree` are missing;
* in annet/gen.py the block `if ctx.add_implicit:` is not a list of statements
  `X = merge_dicts(X, implicit.config(X, implicit_rules))` with
  `implicit_rules = implicit.compile_rules(device)` assigned before it.
"""
from __future__ import annotations

import ast
import json
from pathlib import Path

# name, model string, tags, hardware attributes (relative to device.hw) the device stands for
CANON = [
    ("huawei_ce", "Huawei CE6870", [], ["Huawei", "Huawei.CE"]),
    ("huawei_ne", "Huawei NE40E", [], ["Huawei", "Huawei.NE"]),
    ("huawei_other", "Huawei S5700", [], ["Huawei"]),
    ("arista", "Arista DCS-7280", [], ["Arista"]),
    ("nexus_other", "Cisco Nexus 7000", [], ["Nexus", "Cisco"]),
    ("nexus_n3432", "Cisco Nexus 3432", [], ["Nexus", "Nexus.N3x", "Nexus.N3x.N3432"]),
    ("nexus_n9500_spine1", "Cisco Nexus 9504", ["spine1"], ["Nexus", "Nexus.N9x.N9500"]),
    ("nexus_n9500", "Cisco Nexus 9504", [], ["Nexus", "Nexus.N9x.N9500"]),
    ("nexus_n9316", "Cisco Nexus 9316", [], ["Nexus", "Nexus.N9x.N9316"]),
    ("nexus_n9364", "Cisco Nexus N9K-C9364C", [], ["Nexus", "Cisco.Nexus.N9x.N9364"]),
    ("nexus_n3x", "Cisco Nexus 3132", [], ["Nexus", "Nexus.N3x"]),
    ("catalyst_c2900", "Cisco Catalyst 2960", [], ["Cisco", "Cisco.Catalyst", "Cisco.Catalyst.C2900"]),
    ("catalyst_c3500", "Cisco Catalyst 3560", [], ["Cisco", "Cisco.Catalyst", "Cisco.Catalyst.C3500"]),
    ("catalyst_c3600", "Cisco Catalyst 3650", [], ["Cisco", "Cisco.Catalyst", "Cisco.Catalyst.C3600"]),
    ("catalyst_other", "Cisco Catalyst 3750", [], ["Cisco", "Cisco.Catalyst"]),
    ("cisco_asr", "Cisco ASR 9000", [], ["Cisco"]),
    ("cisco_other", "Cisco 2800", [], ["Cisco"]),
    ("no_implicit", "Juniper MX960", [], []),
]
KNOWN_TAGS = {"spine1"}


class Unsupported(Exception):
    pass


def _cstr(s: str) -> str:
    for ch in s:
        o = ord(ch)
        if o > 126 or (o < 32 and ch != "\n"):
            raise Unsupported(f"non printable-ASCII character in {s!r}")
    return '"' + s.replace('"', '""') + '"'


def _clist(xs) -> str:
    return "[" + "; ".join(xs) + "]"


def _chain(node):
    """device.hw.A.B -> 'A.B' ; None if not such a chain"""
    parts = []
    while isinstance(node, ast.Attribute):
        parts.append(node.attr)
        node = node.value
    if isinstance(node, ast.Name) and parts and parts[-1] == "hw":
        return node.id, ".".join(reversed(parts[:-1]))
    return None


def _scan_test(test, dev, chains, tags):
    """conditions are boolean combinations of device.hw.<chain> and "<tag>" in device.tags"""
    if isinstance(test, ast.BoolOp):
        for v in test.values:
            _scan_test(v, dev, chains, tags)
        return
    if isinstance(test, ast.UnaryOp) and isinstance(test.op, ast.Not):
        _scan_test(test.operand, dev, chains, tags)
        return
    if isinstance(test, ast.Compare) and len(test.ops) == 1 and isinstance(test.ops[0], (ast.In, ast.NotIn)) \
            and isinstance(test.left, ast.Constant) and isinstance(test.left.value, str) \
            and isinstance(test.comparators[0], ast.Attribute) and test.comparators[0].attr == "tags" \
            and isinstance(test.comparators[0].value, ast.Name) and test.comparators[0].value.id == dev:
        tags.add(test.left.value)
        return
    c = _chain(test)
    if c and c[0] == dev and c[1]:
        chains.add(c[1])
        return
    raise Unsupported("condition of _implicit_tree not understood: " + ast.unparse(test)[:200])


def _scan_body(body, dev, chains, tags, consts):
    for st in body:
        if isinstance(st, ast.Expr) and isinstance(st.value, ast.Constant):
            continue                                     # docstring
        if isinstance(st, ast.If):
            _scan_test(st.test, dev, chains, tags)
            _scan_body(st.body, dev, chains, tags, consts)
            _scan_body(st.orelse, dev, chains, tags, consts)
            continue
        if isinstance(st, (ast.Assign, ast.AugAssign)):
            tgt = st.targets[0] if isinstance(st, ast.Assign) and len(st.targets) == 1 else getattr(st, "target", None)
            if isinstance(tgt, ast.Name) and isinstance(st.value, ast.Constant) and isinstance(st.value.value, str) \
                    and (isinstance(st, ast.Assign) or isinstance(st.op, ast.Add)):
                consts.append((tgt.id, st.value.value))
                continue
        if isinstance(st, ast.Return) and isinstance(st.value, ast.Call) and len(st.value.args) == 1 \
                and isinstance(st.value.args[0], ast.Name) \
                and ast.unparse(st.value.func) in ("parse_text", "syntax.parse_text"):
            consts.append(("return", st.value.args[0].id))
            continue
        if isinstance(st, ast.Pass):
            continue
        raise Unsupported("statement of _implicit_tree not understood: " + ast.unparse(st)[:200])


def _rule_lines(text: str) -> list[str]:
    return [ln.strip() for ln in text.split("\n") if ln.strip() and not ln.strip().startswith("#")]


def _check_gen(repo: Path) -> list[str]:
    """the names completed under `if ctx.add_implicit:` in annet/gen.py"""
    mod = ast.parse((repo / "annet" / "gen.py").read_text())
    found = []
    for fn in ast.walk(mod):
        if not isinstance(fn, (ast.FunctionDef, ast.AsyncFunctionDef)):
            continue
        for node in ast.walk(fn):
            if isinstance(node, ast.If) and ast.unparse(node.test).endswith("add_implicit"):
                rules_var = None
                for a in ast.walk(fn):
                    if isinstance(a, ast.Assign) and len(a.targets) == 1 and isinstance(a.targets[0], ast.Name) \
                            and ast.unparse(a.value).replace(" ", "") == "implicit.compile_rules(device)" \
                            and a.lineno < node.lineno:
                        rules_var = a.targets[0].id
                if rules_var is None:
                    raise Unsupported("gen.py: implicit rules are not implicit.compile_rules(device)")
                if node.orelse:
                    raise Unsupported("gen.py: `if ctx.add_implicit` has an else branch")
                names = []
                for st in node.body:
                    ok = isinstance(st, ast.Assign) and len(st.targets) == 1 and isinstance(st.targets[0], ast.Name)
                    if ok:
                        x = st.targets[0].id
                        want = f"merge_dicts({x},implicit.config({x},{rules_var}))"
                        ok = ast.unparse(st.value).replace(" ", "") in (want, "lib." + want)
                    if not ok:
                        raise Unsupported("gen.py: statement under `if ctx.add_implicit` not understood: "
                                          + ast.unparse(st)[:200])
                    names.append(x)
                found.append(names)
    if len(found) != 1:
        raise Unsupported(f"gen.py: expected exactly one `if ctx.add_implicit:` block, found {len(found)}")
    return found[0]


def _coq_praw(n: dict) -> str:
    return (f"(PRaw {_cstr(n['raw'])} {_cstr(n['row'])} {'true' if n['ign'] else 'false'} "
            f"{_clist(_coq_praw(k) for k in n['kids'])})")


def _sanitise(text: str) -> str:
    # comment lines may hold non-ASCII characters; only characters of comment lines are replaced,
    # and the Coq side re-parses the text and compares with the real parser's tree
    out = []
    for ln in text.split("\n"):
        if ln.strip().startswith("#"):
            ln = "".join(ch if 32 <= ord(ch) <= 126 else "?" for ch in ln)
        out.append(ln)
    return "\n".join(out)


def read_tables(repo: Path):
    from .. import core
    src = (repo / "annet" / "implicit.py").read_text()
    mod = ast.parse(src)
    fns = {n.name: n for n in mod.body if isinstance(n, ast.FunctionDef)}
    for need in ("config", "compile_rules", "compile_tree", "_implicit_tree", "parse_text"):
        if need not in fns:
            raise Unsupported(f"annet/implicit.py has no function {need}")
    fn = fns["_implicit_tree"]
    if len(fn.args.args) != 1:
        raise Unsupported("_implicit_tree no longer takes exactly the device")
    dev = fn.args.args[0].arg
    chains, tags, consts = set(), set(), []
    _scan_body(fn.body, dev, chains, tags, consts)
    if not consts or consts[-1][0] != "return":
        raise Unsupported("_implicit_tree does not end in return parse_text(text)")
    text_var = consts[-1][1]
    texts = [v for (k, v) in consts[:-1] if k == text_var]
    if len(texts) != len(consts) - 1:
        raise Unsupported("_implicit_tree assigns text constants to something other than the returned text")
    known_chains = {c for (_, _, _, cs) in CANON for c in cs}
    if not chains <= known_chains:
        raise Unsupported(f"_implicit_tree consults hardware attributes without a canonical device: {sorted(chains - known_chains)}")
    if not tags <= KNOWN_TAGS:
        raise Unsupported(f"_implicit_tree consults unknown device tags: {sorted(tags - KNOWN_TAGS)}")
    env = core.impl_env()
    env["PYTHONPATH"] = f"{repo}:{core.VERIF / 'harness' / 'impl'}"
    p = core.sh([core.PY, str(core.VERIF / "harness" / "impl" / "c17_runner.py")], timeout=300, env=env,
                input=json.dumps({"mode": "tables", "devices": [[n, m, t] + [sorted(chains)] for (n, m, t, _) in CANON]}),
                cwd=core.BUILD)
    if p.returncode != 0:
        raise Unsupported("calling the real _implicit_tree failed: " + p.stderr[-800:])
    rows = json.loads(p.stdout.strip().splitlines()[-1])
    # every consulted attribute is true for a canonical device that stands for it and false for another
    for c in sorted(chains):
        on = [r["name"] for r in rows if r["attrs"].get(c)]
        meant = [n for (n, _, _, cs) in CANON if c in cs]
        if not set(meant) <= set(on) or len(on) == len(rows):
            raise Unsupported(f"canonical devices do not discriminate hw.{c}: true for {on}, meant {meant}")
    for r in rows:
        if r["text"] is None:
            raise Unsupported(f"_implicit_tree did not call parse_text exactly once for {r['name']}")
    # every text constant of the function is selected for some canonical device
    for t in texts:
        lines = _rule_lines(t)
        if lines and not any(all(ln in _rule_lines(r["text"]) for ln in lines) for r in rows):
            raise Unsupported("a text constant of _implicit_tree is selected for no canonical device: " + repr(lines[:3]))
    return rows, sorted(chains), sorted(tags), _check_gen(repo)


def translate(repo: Path):
    rows, chains, tags, gen_names = read_tables(repo)
    out = [
        "(* GENERATED by harness/translators/tr_implicit.py from annet/implicit.py and annet/gen.py -",
        "   do not edit, rewritten on every run.  One entry per canonical device: the text",
        "   _implicit_tree(device) hands to parse_text (comment lines sanitised to ASCII) and the",
        "   tree the real parser returned for it. *)",
        "From Coq Require Import List String Bool.",
        "From Annet Require Import Model.Implicit.",
        "Import ListNotations.",
        "Open Scope string_scope.",
        "",
        "Record ibranch := IBranch {",
        "  ib_name : string; ib_model : string; ib_tags : list string;",
        "  ib_vendor : string; ib_reverse : string;      (* registry vendor and its reverse word *)",
        "  ib_text : string; ib_tree : list praw }.",
        "",
    ]
    names = []
    for r in rows:
        nm = "br_" + r["name"]
        names.append(nm)
        out.append(f"Definition {nm} : ibranch := IBranch {_cstr(r['name'])} {_cstr(r['model'])} "
                   f"{_clist(_cstr(t) for t in r['tags'])} {_cstr(r['vendor'] or '')} {_cstr(r['reverse'] or '')}\n"
                   f"  {_cstr(_sanitise(r['text']))}\n  {_clist(_coq_praw(n) for n in r['tree'])}.")
        out.append("")
    out.append(f"Definition Src_branches : list ibranch := {_clist(names)}.")
    out.append("")
    out.append("(* hardware attributes and tags _implicit_tree consults *)")
    out.append(f"Definition Src_hw_attrs : list string := {_clist(_cstr(c) for c in chains)}.")
    out.append(f"Definition Src_tags : list string := {_clist(_cstr(t) for t in tags)}.")
    out.append("(* annet/gen.py, under `if ctx.add_implicit:` — the trees completed by")
    out.append("   X = merge_dicts(X, implicit.config(X, implicit.compile_rules(device))), in order *)")
    out.append(f"Definition Src_gen_completed : list string := {_clist(_cstr(n) for n in gen_names)}.")
    out.append("")
    summary = {"devices": len(rows), "distinct_trees": len({json.dumps(r["tree"]) for r in rows}),
               "hw_attrs": chains, "tags": tags, "gen_completed": gen_names,
               "rules_per_device": {r["name"]: sum(1 for _ in _walk(r["tree"])) for r in rows}}
    return [("Src_implicit.v", "\n".join(out), summary)]


def _walk(tree):
    for n in tree:
        yield n
        yield from _walk(n["kids"])
