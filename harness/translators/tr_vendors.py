"""annet/vendors/__init__.py, annet/vendors/library/*.py, annet/annlib/tabparser.py -> coq/Gen/Src_vendors.v

What is read (tables and structure, not algorithms):

* the registered vendors (the `from .library import (...)` list of annet/vendors/__init__.py, one
  `@registry.register` class per module): NAME, `reverse`, `exit`, formatter class of `make_formatter`;
* for every formatter class of tabparser.py: its base chain, and which class of the chain defines
  `join`, `split`, `_blocks`, `blocks_and_context`, `_formatted_blocks` (method resolution);
* the attribute values its `__init__` chain leaves on an instance built as `Class(indent=<user indent>)`
  -- obtained by a small symbolic evaluation of the `__init__` bodies: `_indent` (the user's indent, or a
  constant when the keyword never reaches CommonFormatter.__init__), `_block_begin`, `_block_end`,
  `_statement_end`, `_block_exit`, and the *pattern strings* of JuniperFormatter's `_sub_regexs` as they are
  compiled at that point of `__init__` (so attributes assigned after `super().__init__()` do not reach them);
* the literal tuples of the vendor `split`s (policy end words and whether they are tested with
  `.strip().startswith` or `.endswith`), Cisco's `address-family` -> `exit-address-family` dispatch, Nokia's
  `configure` wrapper word, RouterOS' section-context expression and whether `_formatted_blocks` flushes the
  last line, the `_splitter_*` method names, `parse_to_tree`'s default comment tuple.

Anything that does not have the expected shape raises (fail closed: the Gen file is not produced and every
theorem depending on it stops building)."""
from __future__ import annotations

import ast
from pathlib import Path


class Unsupported(Exception):
    pass


def cstr(s: str) -> str:
    for ch in s:
        if ord(ch) > 126 or (ord(ch) < 32 and ch not in "\t\n"):
            raise Unsupported(f"non-printable character in source constant {s!r}")
    return '"' + s.replace('"', '""') + '"'


def clist(xs) -> str:
    return "[" + "; ".join(xs) + "]"


INDENT = ("indent",)          # the symbol standing for the caller's indent keyword
STAR = ("star",)              # forwarded *args/**kwargs


# ---------------------------------------------------------------------------------------
# vendors


def const_return(fn: ast.FunctionDef, what: str) -> str:
    body = [s for s in fn.body if not (isinstance(s, ast.Expr) and isinstance(s.value, ast.Constant))]
    if len(body) == 1 and isinstance(body[0], ast.Return) and isinstance(body[0].value, ast.Constant) \
            and isinstance(body[0].value.value, str):
        return body[0].value.value
    raise Unsupported(f"{what}: not a single `return <str constant>`")


def read_vendor(path: Path) -> dict:
    mod = ast.parse(path.read_text())
    classes = [n for n in mod.body if isinstance(n, ast.ClassDef)
               and any(ast.unparse(d) == "registry.register" for d in n.decorator_list)]
    if len(classes) != 1:
        raise Unsupported(f"{path.name}: expected exactly one @registry.register class")
    cls = classes[0]
    out = {"module": path.stem}
    for st in cls.body:
        if isinstance(st, ast.Assign) and len(st.targets) == 1 and ast.unparse(st.targets[0]) == "NAME":
            if not (isinstance(st.value, ast.Constant) and isinstance(st.value.value, str)):
                raise Unsupported(f"{path.name}: NAME is not a string constant")
            out["name"] = st.value.value
        if isinstance(st, ast.FunctionDef) and st.name in ("reverse", "exit"):
            out[st.name] = const_return(st, f"{path.name}:{st.name}")
        if isinstance(st, ast.FunctionDef) and st.name == "make_formatter":
            body = [s for s in st.body if not (isinstance(s, ast.Expr) and isinstance(s.value, ast.Constant))]
            ok = len(body) == 1 and isinstance(body[0], ast.Return) and isinstance(body[0].value, ast.Call) \
                and isinstance(body[0].value.func, ast.Name) and not body[0].value.args \
                and len(body[0].value.keywords) == 1 and body[0].value.keywords[0].arg is None
            if not ok:
                raise Unsupported(f"{path.name}: make_formatter is not `return <Class>(**kwargs)`")
            out["formatter"] = body[0].value.func.id
    for k in ("name", "reverse", "exit", "formatter"):
        if k not in out:
            raise Unsupported(f"{path.name}: {k} not found")
    return out


def read_vendors(repo: Path) -> list[dict]:
    init = ast.parse((repo / "annet" / "vendors" / "__init__.py").read_text())
    mods = None
    for n in init.body:
        if isinstance(n, ast.ImportFrom) and n.module == "library" and n.level == 1:
            mods = [a.name for a in n.names]
    if not mods:
        raise Unsupported("annet/vendors/__init__.py: `from .library import (...)` not found")
    on_disk = sorted(p.stem for p in (repo / "annet" / "vendors" / "library").glob("*.py") if p.stem != "__init__")
    if sorted(mods) != on_disk:
        raise Unsupported(f"vendor modules imported {sorted(mods)} differ from files {on_disk}")
    vendors = [read_vendor(repo / "annet" / "vendors" / "library" / f"{m}.py") for m in mods]
    names = [v["name"] for v in vendors]
    if len(set(names)) != len(names):
        raise Unsupported("duplicate vendor NAME")
    return vendors


# ---------------------------------------------------------------------------------------
# formatter classes: symbolic evaluation of __init__


class Classes:
    def __init__(self, mod: ast.Module):
        self.cls = {n.name: n for n in mod.body if isinstance(n, ast.ClassDef)}

    def base(self, name: str) -> str | None:
        c = self.cls[name]
        if not c.bases:
            return None
        if len(c.bases) != 1 or not isinstance(c.bases[0], ast.Name):
            raise Unsupported(f"{name}: multiple/complex bases")
        b = c.bases[0].id
        return b if b in self.cls else None

    def chain(self, name: str) -> list[str]:
        out = []
        while name is not None:
            if name in out:
                raise Unsupported("inheritance cycle")
            out.append(name)
            name = self.base(name)
        return out

    def method(self, cname: str, m: str) -> ast.FunctionDef | None:
        for st in self.cls[cname].body:
            if isinstance(st, ast.FunctionDef) and st.name == m:
                return st
        return None

    def owner(self, cname: str, m: str) -> str:
        for c in self.chain(cname):
            if self.method(c, m) is not None:
                return c
        raise Unsupported(f"{cname}: no method {m} in its base chain")


def ev(e, env: dict, attrs: dict):
    if isinstance(e, ast.Constant):
        return e.value
    if isinstance(e, ast.Name):
        if e.id in env:
            return env[e.id]
        raise Unsupported(f"__init__: unknown name {e.id}")
    if isinstance(e, (ast.Tuple, ast.List)):
        return tuple(ev(x, env, attrs) for x in e.elts)
    if isinstance(e, ast.Attribute) and isinstance(e.value, ast.Name) and e.value.id == "self":
        if e.attr in attrs:
            return attrs[e.attr]
        raise Unsupported(f"__init__: self.{e.attr} read before assignment")
    if isinstance(e, ast.BinOp) and isinstance(e.op, ast.Add):
        a, b = ev(e.left, env, attrs), ev(e.right, env, attrs)
        if isinstance(a, str) and isinstance(b, str):
            return a + b
        raise Unsupported("__init__: + on non-constant strings")
    if isinstance(e, ast.Call):
        f = ast.unparse(e.func)
        if f == "tuple" and len(e.args) == 1 and not e.keywords:
            v = ev(e.args[0], env, attrs)
            if v is INDENT:
                return ("tuple_of_indent",)
            if isinstance(v, (tuple, list)):
                return tuple(v)
            if isinstance(v, str):
                return tuple(v)
            raise Unsupported("__init__: tuple() of unknown value")
        if f == "re.compile" and len(e.args) == 1 and not e.keywords:
            v = ev(e.args[0], env, attrs)
            if isinstance(v, str):
                return ("regex", v)
            raise Unsupported("__init__: re.compile of a non-constant")
    raise Unsupported("__init__: expression " + ast.unparse(e)[:120])


def run_init(cs: Classes, cname: str, args: list, kwargs: dict, attrs: dict) -> None:
    """Symbolically run cname.__init__(*args, **kwargs) (inherited when not defined)."""
    owner = None
    for c in cs.chain(cname):
        if cs.method(c, "__init__") is not None:
            owner = c
            break
    if owner is None:
        if args or kwargs:
            raise Unsupported(f"{cname}: arguments reach object.__init__")
        return
    fn = cs.method(owner, "__init__")
    a = fn.args
    if a.posonlyargs or a.kwonlyargs:
        raise Unsupported(f"{owner}.__init__: unsupported parameter kinds")
    params = [p.arg for p in a.args][1:]
    defaults = dict(zip(params[len(params) - len(a.defaults):], a.defaults))
    env: dict = {}
    rest_args, rest_kwargs = list(args), dict(kwargs)
    for p in params:
        if rest_args:
            env[p] = rest_args.pop(0)
        elif p in rest_kwargs:
            env[p] = rest_kwargs.pop(p)
        elif p in defaults:
            env[p] = ev(defaults[p], {}, {})
        else:
            raise Unsupported(f"{owner}.__init__: missing argument {p}")
    if a.vararg:
        env["*" + a.vararg.arg] = rest_args
    elif rest_args:
        raise Unsupported(f"{owner}.__init__: too many positional arguments")
    if a.kwarg:
        env["**" + a.kwarg.arg] = rest_kwargs
    elif rest_kwargs:
        raise Unsupported(f"{owner}.__init__: unexpected keyword {sorted(rest_kwargs)}")
    for st in fn.body:
        if isinstance(st, ast.Expr) and isinstance(st.value, ast.Constant):
            continue
        if isinstance(st, ast.Expr) and isinstance(st.value, ast.Call) and ast.unparse(st.value.func) == "super().__init__":
            call = st.value
            cargs: list = []
            for x in call.args:
                if isinstance(x, ast.Starred):
                    key = "*" + ast.unparse(x.value)
                    if key not in env:
                        raise Unsupported(f"{owner}.__init__: *{key}")
                    cargs.extend(env[key])
                else:
                    cargs.append(ev(x, env, attrs))
            ckw: dict = {}
            for k in call.keywords:
                if k.arg is None:
                    key = "**" + ast.unparse(k.value)
                    if key not in env:
                        raise Unsupported(f"{owner}.__init__: **{key}")
                    ckw.update(env[key])
                else:
                    ckw[k.arg] = ev(k.value, env, attrs)
            b = cs.base(owner)
            if b is None:
                raise Unsupported(f"{owner}.__init__: super() without a known base")
            run_init(cs, b, cargs, ckw, attrs)
            continue
        if isinstance(st, ast.Assign) and len(st.targets) == 1 and isinstance(st.targets[0], ast.Attribute) \
                and isinstance(st.targets[0].value, ast.Name) and st.targets[0].value.id == "self":
            attrs[st.targets[0].attr] = ev(st.value, env, attrs)
            continue
        raise Unsupported(f"{owner}.__init__: statement " + ast.unparse(st)[:120])


# ---------------------------------------------------------------------------------------
# literal tables inside methods


def str_tuple(e) -> tuple[str, ...] | None:
    if isinstance(e, ast.Constant) and isinstance(e.value, str):
        return (e.value,)
    if isinstance(e, (ast.Tuple, ast.List)) and all(isinstance(x, ast.Constant) and isinstance(x.value, str) for x in e.elts):
        return tuple(x.value for x in e.elts)
    return None


def policy_filter(fn: ast.FunctionDef, what: str) -> tuple[str, tuple[str, ...]]:
    """a `split` that drops lines: the tuple of words and how they are tested."""
    tuples = {}
    for n in ast.walk(fn):
        if isinstance(n, ast.Assign) and len(n.targets) == 1 and isinstance(n.targets[0], ast.Name):
            t = str_tuple(n.value)
            if t is not None and isinstance(n.value, (ast.Tuple, ast.List)):
                tuples[n.targets[0].id] = t
    kinds = []
    for n in ast.walk(fn):
        if isinstance(n, ast.Call) and isinstance(n.func, ast.Attribute) and n.func.attr in ("startswith", "endswith") \
                and len(n.args) == 1:
            arg = n.args[0]
            words = tuples.get(arg.id) if isinstance(arg, ast.Name) else str_tuple(arg)
            if words is None:
                raise Unsupported(f"{what}: {n.func.attr}() argument is not a literal tuple")
            recv = ast.unparse(n.func.value)
            stripped = ".strip()" in recv
            kinds.append((n.func.attr, stripped, words))
    if len(kinds) != 1:
        raise Unsupported(f"{what}: expected exactly one startswith/endswith line filter, found {len(kinds)}")
    uses_filter = any(isinstance(n, ast.Call) and ast.unparse(n.func) == "filter" for n in ast.walk(fn))
    neg = any(isinstance(n, ast.UnaryOp) and isinstance(n.op, ast.Not) for n in ast.walk(fn))
    spaces = any(isinstance(n, ast.Call) and ast.unparse(n.func) == "self.split_remove_spaces" for n in ast.walk(fn))
    if not (uses_filter and neg and spaces):
        raise Unsupported(f"{what}: not `split_remove_spaces` followed by a negative filter")
    attr, stripped, words = kinds[0]
    kind = {("startswith", True): "strip_startswith", ("endswith", False): "endswith"}.get((attr, stripped))
    if kind is None:
        raise Unsupported(f"{what}: unsupported test {attr} (stripped={stripped})")
    return kind, words


def is_spaces_only_split(fn: ast.FunctionDef) -> bool:
    body = [s for s in fn.body if not (isinstance(s, ast.Expr) and isinstance(s.value, ast.Constant))]
    return len(body) == 1 and isinstance(body[0], ast.Return) and isinstance(body[0].value, ast.Call) \
        and ast.unparse(body[0].value.func) == "self.split_remove_spaces" and len(body[0].value.args) == 1


def cisco_dispatch(fn: ast.FunctionDef) -> list[tuple[tuple[str, ...], str]]:
    """CiscoFormatter.block_exit: [(row prefixes, exit word)] for the non-default exits."""
    out = []
    ifs = [s for s in fn.body if isinstance(s, ast.If)]
    if len(ifs) != 1:
        raise Unsupported("CiscoFormatter.block_exit: expected one if/else")
    node = ifs[0]
    while True:
        t = node.test
        if not (isinstance(t, ast.Call) and isinstance(t.func, ast.Attribute) and t.func.attr == "startswith" and len(t.args) == 1):
            raise Unsupported("CiscoFormatter.block_exit: test is not <row>.startswith(<literal>)")
        words = str_tuple(t.args[0])
        if words is None:
            raise Unsupported("CiscoFormatter.block_exit: startswith argument")
        ys = [n for n in ast.walk(ast.Module(body=node.body, type_ignores=[])) if isinstance(n, ast.YieldFrom)]
        if len(ys) != 1 or not (isinstance(ys[0].value, ast.Call) and ast.unparse(ys[0].value.func) == "block_wrapper"
                                and len(ys[0].value.args) == 1 and isinstance(ys[0].value.args[0], ast.Constant)):
            raise Unsupported("CiscoFormatter.block_exit: branch is not `yield from block_wrapper(<str>)`")
        out.append((words, ys[0].value.args[0].value))
        if len(node.orelse) == 1 and isinstance(node.orelse[0], ast.If):
            node = node.orelse[0]
            continue
        if "super().block_exit" not in ast.unparse(ast.Module(body=node.orelse, type_ignores=[])):
            raise Unsupported("CiscoFormatter.block_exit: else branch does not defer to super().block_exit")
        return out


def nokia_wrapper(fn: ast.FunctionDef) -> str:
    words = []
    for n in ast.walk(fn):
        if isinstance(n, ast.Compare) and len(n.ops) == 1 and isinstance(n.ops[0], ast.Eq) \
                and isinstance(n.comparators[0], ast.Constant) and isinstance(n.comparators[0].value, str):
            words.append(n.comparators[0].value)
    if len(words) != 1:
        raise Unsupported("NokiaFormatter.split: expected one `line == <word>` comparison")
    return words[0]


def ros_ctx(fn: ast.FunctionDef) -> str:
    """which context level RosFormatter.blocks_and_context takes the section path from"""
    found = []
    for n in ast.walk(fn):
        if isinstance(n, ast.If):
            t = ast.unparse(n.test)
            if t == "context and context.parent and context.parent.row":
                body = ast.unparse(ast.Module(body=n.body, type_ignores=[]))
                if "context.parent.current" in body and "{context.parent.row} {row}" in body:
                    found.append("RosCtxParent")
            elif t == "context and context.row":
                body = ast.unparse(ast.Module(body=n.body, type_ignores=[]))
                if "context.current" in body and "{context.row} {row}" in body:
                    found.append("RosCtxSelf")
    if len(found) != 1:
        raise Unsupported("RosFormatter.blocks_and_context: section-path expression not recognised")
    return found[0]


def ros_flush(fn: ast.FunctionDef) -> bool:
    """does RosFormatter._formatted_blocks emit the pending line after its loop?"""
    body = [s for s in fn.body if not (isinstance(s, ast.Expr) and isinstance(s.value, ast.Constant))]
    loops = [i for i, s in enumerate(body) if isinstance(s, ast.For)]
    if len(loops) != 1:
        raise Unsupported("RosFormatter._formatted_blocks: expected one loop")
    tail = body[loops[0] + 1:]
    if not tail:
        return False
    if len(tail) == 1 and isinstance(tail[0], ast.If) and ast.unparse(tail[0].test) == "isinstance(line, str)" \
            and ast.unparse(ast.Module(body=tail[0].body, type_ignores=[])).strip() == "yield line":
        return True
    raise Unsupported("RosFormatter._formatted_blocks: statements after the loop not recognised")


SHAPE_NOTES: list = []      # advisory only, see shape_note()


def shape_note(msg: str) -> None:
    """An ALGORITHM no longer has the text the hand-written model was read from.  This is not a reason to fail
    closed: the algorithmic models (Model/Join.v ...) are tied to the code by the correspondence run, which
    compares behaviour and is insensitive to how the code is written; only DATA the theorems are stated over
    (delimiters, vendor table, dispatch words) must be re-read or the table is withheld.  The note is reported in
    the evidence (gen_tables)."""
    SHAPE_NOTES.append(msg)


def juniper_flush(fn: ast.FunctionDef) -> None:
    src = ast.unparse(fn)
    for needle in ("line.endswith(self.Comment.end)", "self._block_begin", "self._block_end", "self._statement_end"):
        if needle not in src:
            shape_note(f"JuniperFormatter._formatted_blocks: `{needle}` no longer appears literally")


# ---------------------------------------------------------------------------------------


METHODS = ("join", "split", "_blocks", "blocks_and_context", "_formatted_blocks")


def translate(repo: Path):
    del SHAPE_NOTES[:]
    vendors = read_vendors(repo)
    tp = ast.parse((repo / "annet" / "annlib" / "tabparser.py").read_text())
    cs = Classes(tp)
    rows = []
    summary = {}
    for v in vendors:
        c = v["formatter"]
        if c not in cs.cls:
            raise Unsupported(f"{v['name']}: formatter class {c} not defined in tabparser.py")
        attrs: dict = {}
        run_init(cs, c, [], {"indent": INDENT}, attrs)
        ind = attrs.get("_indent")
        if ind is INDENT:
            indent = "None"
        elif isinstance(ind, str):
            indent = f"(Some {cstr(ind)})"
        else:
            raise Unsupported(f"{c}: _indent is neither the caller's indent nor a constant")
        for k in ("_block_begin", "_block_end", "_statement_end"):
            if not isinstance(attrs.get(k), str):
                raise Unsupported(f"{c}: {k} is not a constant string")
        pats = []
        if "_sub_regexs" in attrs:
            for item in attrs["_sub_regexs"]:
                if not (isinstance(item, tuple) and len(item) == 2 and isinstance(item[0], tuple) and item[0][0] == "regex"
                        and item[1] == ""):
                    raise Unsupported(f"{c}: _sub_regexs entry is not (re.compile(<const>), '')")
                pats.append(item[0][1])
        owners = {m: cs.owner(c, m) for m in ("join", "split", "_blocks", "blocks_and_context")}
        owners["_formatted_blocks"] = next((k for k in cs.chain(c) if cs.method(k, "_formatted_blocks")), "")
        bexit = attrs.get("_block_exit", "")
        if not isinstance(bexit, str):
            raise Unsupported(f"{c}: _block_exit is not a constant")
        rows.append(
            "  {| v_name := %s; v_reverse := %s; v_exit := %s; v_class := %s;\n"
            "     v_join := %s; v_split := %s; v_blocks := %s; v_ctx := %s; v_fmt := %s;\n"
            "     v_indent := %s; v_block_begin := %s; v_block_end := %s; v_stmt_end := %s;\n"
            "     v_block_exit := %s; v_patterns := %s |}" % (
                cstr(v["name"]), cstr(v["reverse"]), cstr(v["exit"]), cstr(c),
                cstr(owners["join"]), cstr(owners["split"]), cstr(owners["_blocks"]),
                cstr(owners["blocks_and_context"]), cstr(owners["_formatted_blocks"]),
                indent, cstr(attrs["_block_begin"]), cstr(attrs["_block_end"]), cstr(attrs["_statement_end"]),
                cstr(bexit), clist(cstr(p) for p in pats)))
        summary[v["name"]] = c

    # literal tables of the vendor splits
    policy = []
    spaces_only = []
    for cname in sorted({v["formatter"] for v in vendors} | {cs.owner(v["formatter"], "split") for v in vendors}):
        fn = cs.method(cname, "split")
        if fn is None:
            continue
        if cname in ("CommonFormatter", "JuniperFormatter", "NokiaFormatter", "RosFormatter", "CiscoFormatter"):
            continue
        if is_spaces_only_split(fn):
            spaces_only.append(cname)
            continue
        try:
            kind, words = policy_filter(fn, f"{cname}.split")
        except Unsupported as e:
            # keep the table readable: the class is listed with a kind the model does not know, so `family` is None
            # for its vendors (the table theorems stop checking) while the correspondence still runs
            kind, words = "unrecognised: " + str(e)[:120], ()
        policy.append((cname, kind, words))
    for needed in ("CommonFormatter", "JuniperFormatter", "NokiaFormatter", "RosFormatter", "CiscoFormatter",
                   "BlockExitFormatter"):
        if needed not in cs.cls:
            raise Unsupported(f"class {needed} missing")
    cisco = cisco_dispatch(cs.method("CiscoFormatter", "block_exit"))
    csplit = ast.unparse(cs.method("CiscoFormatter", "split"))
    for needle in ("self.split_remove_spaces", "self._split_indent", "[self._block_exit]", "' ' * additional_indent"):
        if needle not in csplit:
            shape_note(f"CiscoFormatter.split: `{needle}` no longer appears literally")
    nokia = nokia_wrapper(cs.method("NokiaFormatter", "split"))
    rctx = ros_ctx(cs.method("RosFormatter", "blocks_and_context"))
    rflush = ros_flush(cs.method("RosFormatter", "_formatted_blocks"))
    juniper_flush(cs.method("JuniperFormatter", "_formatted_blocks"))
    splitters = sorted(st.name for st in cs.cls["RosFormatter"].body
                       if isinstance(st, ast.FunctionDef) and st.name.startswith("_splitter_"))
    jcomment = {}
    for st in cs.cls["JuniperFormatter"].body:
        if isinstance(st, ast.ClassDef) and st.name == "Comment":
            for s2 in st.body:
                if isinstance(s2, ast.Assign) and len(s2.targets) == 1 and isinstance(s2.targets[0], ast.Name) \
                        and isinstance(s2.value, ast.Constant) and isinstance(s2.value.value, str):
                    jcomment[s2.targets[0].id] = s2.value.value
    if set(jcomment) != {"begin", "end"}:
        raise Unsupported("JuniperFormatter.Comment: begin/end constants not found")
    # parse_to_tree default comments
    ptt = next((n for n in tp.body if isinstance(n, ast.FunctionDef) and n.name == "parse_to_tree"), None)
    if ptt is None or [a.arg for a in ptt.args.args] != ["text", "splitter", "comments"] or len(ptt.args.defaults) != 1:
        raise Unsupported("parse_to_tree(text, splitter, comments=...) signature changed")
    comments = str_tuple(ptt.args.defaults[0])
    if comments is None:
        raise Unsupported("parse_to_tree: default comments is not a literal tuple")
    txt = f"""(* GENERATED by harness/translators/tr_vendors.py from annet/vendors/*.py and annet/annlib/tabparser.py — do not edit *)
From Coq Require Import List String.
Import ListNotations.
Open Scope string_scope.

(* v_join/v_split/v_blocks/v_ctx/v_fmt: the class of the formatter's base chain that defines join / split /
   _blocks / blocks_and_context / _formatted_blocks ("" = none).  v_indent: None = the caller's indent
   reaches CommonFormatter.__init__, Some s = it does not and s is used.  v_patterns: the regex sources of
   _sub_regexs as compiled inside __init__. *)
Record vendor := {{
  v_name : string; v_reverse : string; v_exit : string; v_class : string;
  v_join : string; v_split : string; v_blocks : string; v_ctx : string; v_fmt : string;
  v_indent : option string; v_block_begin : string; v_block_end : string; v_stmt_end : string;
  v_block_exit : string; v_patterns : list string
}}.

Definition vendors : list vendor := [
{(";" + chr(10)).join(rows)}
].

(* splits that are exactly `return self.split_remove_spaces(text)` *)
Definition spaces_only_splits : list string := {clist(cstr(c) for c in spaces_only)}.

(* splits that drop lines: class, test ("strip_startswith" | "endswith"), words *)
Definition policy_end_splits : list (string * string * list string) :=
  {clist("(%s, %s, %s)" % (cstr(c), cstr(k), clist(cstr(w) for w in ws)) for c, k, ws in policy)}.

(* CiscoFormatter.block_exit: row prefixes -> non-default block exit word *)
Definition cisco_exits : list (list string * string) :=
  {clist("(%s, %s)" % (clist(cstr(w) for w in ws), cstr(x)) for ws, x in cisco)}.

Definition nokia_wrapper : string := {cstr(nokia)}.

Inductive ros_ctx := RosCtxParent | RosCtxSelf.
(* RosFormatter.blocks_and_context composes the section path from context.parent.row (RosCtxParent) or
   context.row (RosCtxSelf) *)
Definition ros_section_ctx : ros_ctx := {rctx}.
Definition ros_final_flush : bool := {"true" if rflush else "false"}.
Definition ros_splitters : list string := {clist(cstr(s) for s in splitters)}.

Definition juniper_comment_begin : string := {cstr(jcomment["begin"])}.
Definition juniper_comment_end : string := {cstr(jcomment["end"])}.

Definition default_comments : list string := {clist(cstr(c) for c in comments)}.
"""
    summary["_policy"] = {c: list(ws) for c, _, ws in policy}
    summary["_ros_ctx"] = rctx
    if SHAPE_NOTES:
        summary["_shape_notes"] = list(SHAPE_NOTES)
    return [("Src_vendors.v", txt, summary)]
