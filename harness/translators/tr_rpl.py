"""annet/rpl_generators/{policy,prefix_lists,community,aspath,rd}.py -> coq/Gen/Src_rpl.v   (C14)

What is read: the ACL text every shipped routing-policy generator declares for itself, i.e. the
string constant returned by the methods `acl_huawei` / `acl_arista` of

    policy.py        RoutingPolicyGenerator        huawei, arista
    prefix_lists.py  PrefixListFilterGenerator     huawei, arista
    community.py     CommunityListGenerator        huawei, arista
    aspath.py        AsPathFilterGenerator         huawei, arista
    rd.py            RDFilterFilterGenerator       huawei

The files are read with `ast` only (nothing is imported or executed).  The text is parsed the way
annet.annlib.rbparser.acl.compile_acl_text -> syntax.parse_text -> tabparser.parse_to_tree reads it
(lines stripped, blank lines skipped, indentation = nesting, `%param` suffix) into the structured
form of harness/aclgen.py and printed with aclgen.coq_aitem's conventions as values of type
`Annet.Model.Acl.acl`.

Fails closed (raises, so coq/Gen/Src_rpl.v is not produced and Proofs/RplAcl.v does not build) when
* one of the five files, classes or nine methods is missing, or a class defines the method twice;
* a method body is anything else than (an optional docstring and) `return <string constant>`;
* the class binds a name `acl_...` by assignment instead of defining a method (methods `acl_safe_*` and
  `acl_<vendor>` of vendors outside the C14 model - huawei, arista - are skipped: outside the property);
* a line of a text is not made of: plain words, `*`, `~`, followed by nothing or by `%global` /
  `%global=1`; or is a comment / ignore rule / uses a tab; or the indentation is inconsistent;
* the same line occurs twice under the same parent (the text parser would merge them).
"""
from __future__ import annotations

import ast
import re
from pathlib import Path

from ..core import cstr, clist, cbool, cnat, copt

# (file, class, key, vendors that must have an acl_<vendor> method returning a constant)
SOURCES = [
    ("policy.py", "RoutingPolicyGenerator", "policy", ["huawei", "arista"]),
    ("prefix_lists.py", "PrefixListFilterGenerator", "prefix", ["huawei", "arista"]),
    ("community.py", "CommunityListGenerator", "community", ["huawei", "arista"]),
    ("aspath.py", "AsPathFilterGenerator", "aspath", ["huawei", "arista"]),
    ("rd.py", "RDFilterFilterGenerator", "rd", ["huawei"]),
]

WORD = re.compile(r"^[A-Za-z0-9][A-Za-z0-9_\-]*$")


class Unsupported(Exception):
    pass


def _const_return(fn: ast.FunctionDef, where: str) -> str:
    body = list(fn.body)
    if body and isinstance(body[0], ast.Expr) and isinstance(body[0].value, ast.Constant) \
            and isinstance(body[0].value.value, str) and len(body) > 1:
        body = body[1:]                                            # docstring
    if len(body) != 1 or not isinstance(body[0], ast.Return) or not isinstance(body[0].value, ast.Constant) \
            or not isinstance(body[0].value.value, str):
        raise Unsupported(f"{where}: body is not `return <string constant>`")
    if fn.decorator_list:
        raise Unsupported(f"{where}: decorated")
    return body[0].value.value


def _class_acls(path: Path, cls_name: str, vendors: list[str]) -> dict[str, str]:
    tree = ast.parse(path.read_text(encoding="utf-8"))
    classes = [n for n in tree.body if isinstance(n, ast.ClassDef) and n.name == cls_name]
    if len(classes) != 1:
        raise Unsupported(f"{path.name}: class {cls_name} found {len(classes)} times at top level")
    cls = classes[0]
    found: dict[str, str] = {}
    for node in ast.walk(cls):
        name = None
        if isinstance(node, (ast.FunctionDef, ast.AsyncFunctionDef)):
            name = node.name
        elif isinstance(node, ast.Assign):
            for t in node.targets:
                if isinstance(t, ast.Name) and t.id.startswith("acl_"):
                    raise Unsupported(f"{path.name}: {cls_name}.{t.id} is assigned, not defined")
        if name is None or not name.startswith("acl_"):
            continue
        vendor = name[len("acl_"):]
        where = f"{path.name}: {cls_name}.{name}"
        if node not in cls.body:
            raise Unsupported(f"{where}: not defined directly in the class body")
        if vendor == "safe" or vendor.startswith("safe_") or vendor not in vendors:
            # acl_safe_* (the --acl-safe mode) and ACLs of vendors the C14 model does not cover are outside
            # the property (huawei, arista): adding one is not a broken tie
            continue
        if vendor in found:
            raise Unsupported(f"{where}: defined twice")
        if not isinstance(node, ast.FunctionDef):
            raise Unsupported(f"{where}: async")
        found[vendor] = _const_return(node, where)
    for v in vendors:
        if v not in found:
            raise Unsupported(f"{path.name}: {cls_name}.acl_{v} is missing")
    return found


def _parse_line(line: str, where: str) -> dict:
    """one stripped line -> item (without kids)"""
    if line[0] in "#!":
        raise Unsupported(f"{where}: comment / ignore rule {line!r}")
    toks = line.split(" ")
    if "" in toks:
        raise Unsupported(f"{where}: repeated blanks in {line!r}")
    glob = False
    pat = []
    for i, t in enumerate(toks):
        if t.startswith("%"):
            if t not in ("%global", "%global=1") or i != len(toks) - 1 or i == 0:
                raise Unsupported(f"{where}: parameter {t!r} in {line!r} is outside the translated subset")
            glob = True
        elif t in ("*", "~"):
            if t == "~" and not (i == len(toks) - 1 or (i == len(toks) - 2 and toks[-1].startswith("%"))):
                raise Unsupported(f"{where}: `~` not at the end of {line!r}")
            pat.append(t)
        elif WORD.match(t):
            pat.append(t)
        else:
            raise Unsupported(f"{where}: token {t!r} in {line!r} is outside the translated subset")
    if not pat:
        raise Unsupported(f"{where}: empty rule row in {line!r}")
    return {"pat": " ".join(pat), "raw": line, "ign": False, "glob": glob, "cd": None, "prio": 0,
            "gens": [], "kids": []}


def parse_acl_text(text: str, where: str) -> list[dict]:
    """tabparser._stripped_indents / _stacked on the lines of the text"""
    if "\t" in text or "\r" in text:
        raise Unsupported(f"{where}: tab or carriage return in the ACL text")
    items: list[dict] = []
    stack: list[dict] = []              # the open items, outermost first
    indents: list[int] = []
    curr = 0
    g_level = None
    for raw_line in text.split("\n"):
        line = raw_line.strip(" ")
        if not line:
            continue
        if line.startswith("%"):
            raise Unsupported(f"{where}: continuation / context line {line!r}")
        level = len(raw_line) - len(raw_line.lstrip(" "))
        if g_level is None:
            g_level = level
        level -= g_level
        if level < 0:
            raise Unsupported(f"{where}: invalid top indentation at {line!r}")
        if level > curr:
            indents.append(level - curr)
            curr = level
        elif level < curr:
            while curr > level and indents:
                curr -= indents.pop()
            if curr != level:
                raise Unsupported(f"{where}: invalid indentation at {line!r}")
        depth = len(indents)
        if depth > len(stack):
            raise Unsupported(f"{where}: first line is indented deeper than its parent")   # unreachable
        it = _parse_line(line, where)
        stack = stack[:depth]
        siblings = stack[-1]["kids"] if stack else items
        if any(s["raw"] == it["raw"] for s in siblings):
            raise Unsupported(f"{where}: line {line!r} twice under the same parent")
        if stack and stack[-1]["glob"]:
            raise Unsupported(f"{where}: children under the %global rule {stack[-1]['raw']!r}")
        siblings.append(it)
        stack.append(it)
    if not items:
        raise Unsupported(f"{where}: empty ACL")
    return items


def _coq_items(items: list[dict]) -> str:
    """aclgen.coq_aitem's field conventions (raw row ign glob cd prio gens kids), except that raw is the
    source line itself (`~ %global=1`, where aclgen.raw_rule would print `~ %global`): raw is only the key
    under which the text parser files the line"""
    return clist(
        f"(AItem {cstr(it['raw'])} {cstr(it['pat'])} {cbool(it['ign'])} {cbool(it['glob'])} "
        f"{copt(None)} {cnat(it['prio'])} {clist([])} {_coq_items(it['kids'])})"
        for it in items)


def _count(items):
    return sum(1 + _count(it["kids"]) for it in items)


def translate(repo: Path):
    base = repo / "annet" / "rpl_generators"
    defs = []
    texts = []
    summary = []
    for fname, cls, key, vendors in SOURCES:
        path = base / fname
        if not path.is_file():
            raise Unsupported(f"{path} is missing")
        acls = _class_acls(path, cls, vendors)
        for v in vendors:
            where = f"{fname}: {cls}.acl_{v}"
            items = parse_acl_text(acls[v], where)
            defs.append(f"(* {where} *)\nDefinition acl_{key}_{v} : acl :=\n  {_coq_items(items)}.")
            texts.append(f"Definition acl_text_{key}_{v} : string :=\n  {cstr(acls[v])}.")
            summary.append(f"{key}/{v}:{_count(items)}")
    names = [f"acl_{key}_{v}" for _, _, key, vs in SOURCES for v in vs]
    out = [
        "(* GENERATED by harness/translators/tr_rpl.py from /repo/annet/rpl_generators/*.py — do not edit.",
        "   The ACL text each shipped routing-policy generator returns from acl_<vendor>(), as a structured",
        "   ACL (Model/Acl.v) and verbatim. *)",
        "From Coq Require Import List String.",
        "From Annet Require Import Base.Str Model.Acl.",
        "Import ListNotations.",
        "Open Scope string_scope.",
        "",
        "\n\n".join(defs),
        "",
        "(* the source texts, verbatim *)",
        "\n".join(texts),
        "",
        "Definition rpl_acls : list (string * acl) :=\n  ["
        + ";\n   ".join(f"({cstr(n)}, {n})" for n in names) + "].",
        "",
    ]
    return [("Src_rpl.v", "\n".join(out), "rpl generator ACLs (rules per ACL): " + " ".join(summary))]
