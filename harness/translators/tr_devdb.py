"""devdb.json + vendor match() lists  ->  coq/Gen/Src_devdb.v   (C18, DESIGN §2.3).

Reads only text (json / ast), never imports the repository.  Fails closed (CheckFailure)
when the sources no longer have the shape the Coq model of C18 is written for:

* devdb.json is one flat object  "A.B.C" -> regex source, no duplicate keys, every name
  non-empty printable ASCII;
* annet/vendors/__init__.py registers vendors by one `from .library import (a, b, ...)`
  (registration order = order of that import list; library modules must not import each
  other, otherwise the order would differ);
* every imported library module holds exactly one `@registry.register` class with a
  constant `NAME = "..."` and a `match()` that returns a literal list of constant strings;
* annet/vendors/registry.py: `Registry.match` still has the shape
  "collect (vendor, item.count('.')) for matching items; sorted(..., key=itemgetter(1),
  reverse=True), first element";  annet/annlib/netdev/db.py still has the functions the
  model follows.

Regex ids: one id per *distinct* regex source, numbered by first occurrence in the json
(the code keys tree levels by compiled pattern, and equal sources give equal patterns, so
two siblings with the same source share one tree node - the model needs that identity).
"""
from __future__ import annotations

import ast
import json
from pathlib import Path

HW_ATTRS = {"model", "vendor", "soft", "match", "dump", "_soft"}   # real attributes of HardwareView


def _fail(msg: str):
    from ..core import CheckFailure
    raise CheckFailure("tr_devdb: " + msg)


def _cstr(s: str) -> str:
    for ch in s:
        if not (32 <= ord(ch) <= 126):
            _fail(f"non printable-ASCII character in {s!r}")
    return '"' + s.replace('"', '""') + '"'


def _clist(xs) -> str:
    return "[" + "; ".join(xs) + "]"


def read_devdb(repo: Path):
    """-> (entries [(seq tuple, regex source)], rid_of {regex source: id}) in json order."""
    f = repo / "annet/annlib/netdev/devdb/data/devdb.json"
    if not f.exists():
        _fail(f"{f} is missing")
    dup = []

    def hook(pairs):
        seen = set()
        for k, _ in pairs:
            if k in seen:
                dup.append(k)
            seen.add(k)
        return pairs

    try:
        pairs = json.loads(f.read_text(), object_pairs_hook=hook)
    except Exception as e:  # noqa
        _fail(f"devdb.json does not parse: {e}")
    if dup:
        _fail(f"duplicate keys in devdb.json: {dup}")
    if not isinstance(pairs, list) or not pairs:
        _fail("devdb.json is not a non-empty object")
    entries, rid_of = [], {}
    for k, v in pairs:
        if not isinstance(k, str) or not isinstance(v, str):
            _fail(f"devdb.json entry {k!r} is not string -> string")
        seq = tuple(k.split("."))
        if any(not part for part in seq):
            _fail(f"devdb.json key {k!r} has an empty component")
        rid_of.setdefault(v, len(rid_of))
        entries.append((seq, v))
    return entries, rid_of


def _const_str(node) -> str | None:
    return node.value if isinstance(node, ast.Constant) and isinstance(node.value, str) else None


def read_vendors(repo: Path):
    """-> [(NAME, [match item, ...])] in registration order."""
    init = repo / "annet/vendors/__init__.py"
    tree = ast.parse(init.read_text())
    order = None
    for st in tree.body:
        if isinstance(st, ast.ImportFrom) and st.level == 1 and st.module == "library":
            if order is not None:
                _fail("more than one `from .library import` in annet/vendors/__init__.py")
            order = [a.name for a in st.names]
        elif isinstance(st, (ast.Import, ast.ImportFrom)):
            mod = getattr(st, "module", None) or ""
            if "library" in mod or any("library" in a.name for a in st.names):
                _fail("unexpected import of the vendor library in annet/vendors/__init__.py")
    if not order:
        _fail("annet/vendors/__init__.py no longer imports the vendor library in one statement")
    lib_init = repo / "annet/vendors/library/__init__.py"
    if lib_init.exists() and lib_init.read_text().strip():
        _fail("annet/vendors/library/__init__.py is no longer empty (registration order unknown)")
    out, names = [], set()
    for mod in order:
        f = repo / "annet/vendors/library" / f"{mod}.py"
        if not f.exists():
            _fail(f"{f} is missing")
        t = ast.parse(f.read_text())
        classes = []
        for st in t.body:
            if isinstance(st, (ast.Import, ast.ImportFrom)):
                m = (getattr(st, "module", None) or "") + " " + " ".join(a.name for a in st.names)
                if "vendors.library" in m or (isinstance(st, ast.ImportFrom) and st.level > 0):
                    _fail(f"{f.name} imports another vendor module; registration order is no longer the import list")
            if isinstance(st, ast.ClassDef) and any(
                    isinstance(d, ast.Attribute) and d.attr == "register" and
                    isinstance(d.value, ast.Name) and d.value.id == "registry" for d in st.decorator_list):
                classes.append(st)
        if len(classes) != 1:
            _fail(f"{f.name}: expected exactly one @registry.register class, found {len(classes)}")
        name, items = None, None
        for st in classes[0].body:
            if isinstance(st, ast.Assign) and len(st.targets) == 1 and isinstance(st.targets[0], ast.Name) \
                    and st.targets[0].id == "NAME":
                name = _const_str(st.value)
            if isinstance(st, ast.FunctionDef) and st.name == "match":
                body = [b for b in st.body if not (isinstance(b, ast.Expr) and _const_str(b.value) is not None)]
                if len(body) == 1 and isinstance(body[0], ast.Return) and isinstance(body[0].value, ast.List):
                    items = [_const_str(e) for e in body[0].value.elts]
        if not name:
            _fail(f"{f.name}: NAME is not a constant non-empty string")
        if items is None or any(i is None for i in items):
            _fail(f"{f.name}: match() is not `return [<string constants>]`")
        if name in names:
            _fail(f"vendor {name} registered twice")
        names.add(name)
        for it in items:
            parts = it.split(".")
            if parts and parts[0] == "hw":
                parts = parts[1:]
            if any(not p for p in parts) or not parts:
                _fail(f"{f.name}: match item {it!r} has an empty component")
            if any(p in HW_ATTRS or p.startswith("__") for p in parts):
                _fail(f"{f.name}: match item {it!r} names a real attribute of HardwareView")
        out.append((name, items))
    return out


SHAPE_NOTES: list = []


def check_shapes(repo: Path) -> None:
    del SHAPE_NOTES[:]
    reg = ast.parse((repo / "annet/vendors/registry.py").read_text())
    src = None
    for st in ast.walk(reg):
        if isinstance(st, ast.ClassDef) and st.name == "Registry":
            for fn in st.body:
                if isinstance(fn, ast.FunctionDef) and fn.name == "match":
                    src = ast.unparse(fn)
    if src is None:
        _fail("Registry.match not found")
    need = ["for name, vendor in self.vendors.items()", "for item in vendor.match()", "hw.match(item)",
            "matched.append((vendor, item.count('.')))",
            "next(iter(sorted(matched, key=itemgetter(1), reverse=True)))[0]"]
    # Advisory only: Registry.match / find_true_sequences are modelled by hand (Model/HwDb.v) and tied to the code by
    # the exhaustive run over every database key, cross-branch strings and registration permutations, which compares
    # behaviour; how the functions are written is not a reason to withhold the DATA tables (devdb.json, match() lists).
    for n in need:
        if n not in src:
            SHAPE_NOTES.append(f"Registry.match: `{n}` no longer appears literally")
    db = ast.parse((repo / "annet/annlib/netdev/db.py").read_text())
    fns = {st.name: ast.unparse(st) for st in db.body if isinstance(st, ast.FunctionDef)}
    for n in ("get_db", "find_true_sequences", "_build_tree", "_seq_subs", "_make_allowed_by_seq", "_make_seq_variants"):
        if n not in fns:
            SHAPE_NOTES.append(f"annlib/netdev/db.py: function {n} is gone")
    for n in ("get_db", "find_true_sequences"):          # the entry points the runner and the model are about
        if n not in fns:
            _fail(f"annlib/netdev/db.py: function {n} is gone")
    dd = (repo / "annet/annlib/netdev/devdb/__init__.py").read_text()
    if 'tuple(seq.split("."))' not in dd or "re.compile(regexp)" not in dd:
        SHAPE_NOTES.append("devdb/__init__.py: _prepare_db no longer has the text it was modelled from")


def translate(repo: Path):
    entries, rid_of = read_devdb(repo)
    vendors = read_vendors(repo)
    check_shapes(repo)
    lines = [
        "(* GENERATED by harness/translators/tr_devdb.py from annet/annlib/netdev/devdb/data/devdb.json",
        "   and annet/vendors/{__init__,library/*}.py - do not edit, rewritten on every run. *)",
        "From Coq Require Import List String.",
        "Import ListNotations.",
        "Open Scope string_scope.",
        "",
        "(* regex id -> regex source (documentation; the model never interprets the source) *)",
        "Definition Src_regex : list (nat * string) := [",
        ";\n".join(f"  ({i}, {_cstr(rx)})" for rx, i in sorted(rid_of.items(), key=lambda kv: kv[1])),
        "].",
        "",
        "(* devdb.json in file order: (sequence, regex id) *)",
        "Definition Src_db : list (list string * nat) := [",
        ";\n".join(f"  ({_clist(_cstr(p) for p in seq)}, {rid_of[rx]})" for seq, rx in entries),
        "].",
        "",
        "(* registered vendors in registration order: (NAME, match() items as (attribute path, item.count('.'))) *)",
        "Definition Src_vendors : list (string * list (list string * nat)) := [",
        ";\n".join("  (" + _cstr(n) + ", " + _clist(
            "(" + _clist(_cstr(p) for p in (it.split(".")[1:] if it.split(".")[0] == "hw" else it.split("."))) +
            f", {it.count('.')})" for it in items) + ")" for n, items in vendors),
        "].",
        "",
    ]
    summary = {"entries": len(entries), "distinct_regexes": len(rid_of), "vendors": [n for n, _ in vendors],
               "max_depth": max(len(s) for s, _ in entries)}
    if SHAPE_NOTES:
        summary["_shape_notes"] = list(SHAPE_NOTES)
    return [("Src_devdb.v", "\n".join(lines), summary)]
