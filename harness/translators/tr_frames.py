"""annet/annlib/patching.py, annet/annlib/rulebook/common.py, annet/annlib/rbparser/*.py,
annet/rulebook/__init__.py, annet/rulebook/patching.py, annet/rulebook/**/*.py, annet/api/__init__.py
    -> coq/Gen/Src_frames.v   (C20)

What is read (with `ast`; names of locals never matter, values are followed through assignments):

* make_diff: is what reaches `apply_diff_rb` a `copy.deepcopy` of the 1st / 2nd parameter
  (`copy.deepcopy(x)`, `deepcopy(x)`, any import alias, inline in the call or bound to a name first);
* apply_diff_rb: does it remove rows from its 1st / 2nd parameter (`.pop`, `del`);
* _select_match: is the "attrs" entry of the returned match a deep copy of the rule's attrs;
* make_patch: is the `rule=` argument of the logic call a deep copy taken inside the loop over keys;
* _find_acl_matches: the store into attrs["match"] of the shared rule;
* lru_cache on compile_patching_text / compile_acl_text / compile_ordering_text / compile_row_regexp /
  compile_deploying_text and the provider's rulebook cache;
* a census of EVERY statement of the pipeline functions that mutates an object (item/attribute
  assignment, del, augmented assignment, mutating method call): a statement is accepted when it acts
  directly on a container the function has just created, or when it is one of the known writes
  (normalised: origin of the root variable, constant part of the access path, operation).  Anything
  else makes `src_frames_known = false` with the reason — the tie theorem C20_source_frames then fails;
* the %logic functions (signature `rule, key, diff, ...`) that assign into `rule[...]`, with the
  fields they write, and the ones that write through any other parameter; every other function of the
  rulebook modules (%diff_logic functions and helpers) that writes through an `["attrs"]` entry, i.e. into the
  dictionary _select_match returned (juniper.comment_processor writes attrs["context"]).

Fail closed, never raises: an unexpected shape gives `src_frames_known := false`.
"""
from __future__ import annotations

import ast
from pathlib import Path

MUTATORS = {"append", "extend", "insert", "pop", "popitem", "remove", "clear", "update", "setdefault", "sort",
            "reverse", "add", "discard", "move_to_end", "__setitem__", "__delitem__", "appendleft", "popleft"}
FRESH_CALLS = {"odict", "OrderedDict", "dict", "list", "set", "tuple", "sorted", "PatchTree", "defaultdict", "frozenset"}


class Unknown(Exception):
    pass


# ------------------------------------------------------------------ helpers

def parse(path: Path) -> ast.Module:
    return ast.parse(path.read_text())


def deepcopy_names(mod: ast.Module) -> tuple[set, set]:
    """(module aliases of `copy`, names bound to copy.deepcopy)"""
    mods, funcs = set(), set()
    for n in ast.walk(mod):
        if isinstance(n, ast.Import):
            for a in n.names:
                if a.name == "copy":
                    mods.add(a.asname or "copy")
        elif isinstance(n, ast.ImportFrom) and n.module == "copy":
            for a in n.names:
                if a.name == "deepcopy":
                    funcs.add(a.asname or "deepcopy")
    return mods, funcs


def is_deepcopy(call: ast.AST, dc) -> bool:
    mods, funcs = dc
    if not isinstance(call, ast.Call) or len(call.args) < 1:
        return False
    f = call.func
    if isinstance(f, ast.Name):
        return f.id in funcs
    return isinstance(f, ast.Attribute) and f.attr == "deepcopy" and isinstance(f.value, ast.Name) and f.value.id in mods


def find_func(tree: ast.AST, name: str, cls: str | None = None) -> ast.FunctionDef:
    scope = tree
    if cls is not None:
        for n in ast.walk(tree):
            if isinstance(n, ast.ClassDef) and n.name == cls:
                scope = n
                break
        else:
            raise Unknown(f"class {cls} not found")
    for n in ast.walk(scope):
        if isinstance(n, ast.FunctionDef) and n.name == name:
            return n
    raise Unknown(f"function {name} not found")


def call_name(c: ast.Call) -> str:
    f = c.func
    if isinstance(f, ast.Name):
        return f.id
    if isinstance(f, ast.Attribute):
        return f.attr
    return "?"


def params(fn: ast.FunctionDef) -> list[str]:
    a = fn.args
    return [x.arg for x in a.posonlyargs + a.args + a.kwonlyargs] + \
           ([a.vararg.arg] if a.vararg else []) + ([a.kwarg.arg] if a.kwarg else [])


def own_nodes(fn: ast.FunctionDef):
    """nodes of fn, not descending into nested function / class definitions (they are analysed
    on their own when they matter; their free variables are treated as derived)"""
    todo = list(fn.body)
    while todo:
        n = todo.pop()
        yield n
        for c in ast.iter_child_nodes(n):
            if isinstance(c, (ast.FunctionDef, ast.AsyncFunctionDef, ast.ClassDef, ast.Lambda)):
                continue
            todo.append(c)


def all_nodes_with_nested(fn: ast.FunctionDef):
    return ast.walk(fn)


# ------------------------------------------------------------------ mutation census

def is_fresh_value(v: ast.AST, dc) -> bool:
    if isinstance(v, (ast.Dict, ast.List, ast.Set, ast.Tuple, ast.ListComp, ast.DictComp, ast.SetComp, ast.Constant,
                      ast.JoinedStr, ast.BinOp, ast.Compare, ast.BoolOp, ast.UnaryOp)):
        return True
    if isinstance(v, ast.Call):
        if is_deepcopy(v, dc):
            return True
        f = v.func
        if isinstance(f, ast.Name) and f.id in FRESH_CALLS:
            return True
    return False


def fresh_locals(fn: ast.FunctionDef, dc) -> set:
    ps = set(params(fn))
    assigned: dict[str, list] = {}
    for n in all_nodes_with_nested(fn):
        if isinstance(n, ast.Assign):
            for t in n.targets:
                if isinstance(t, ast.Name):
                    assigned.setdefault(t.id, []).append(is_fresh_value(n.value, dc))
                else:
                    for x in ast.walk(t):
                        if isinstance(x, ast.Name) and isinstance(x.ctx, ast.Store):
                            assigned.setdefault(x.id, []).append(False)
        elif isinstance(n, ast.AnnAssign) and isinstance(n.target, ast.Name):
            assigned.setdefault(n.target.id, []).append(n.value is not None and is_fresh_value(n.value, dc))
        elif isinstance(n, ast.AugAssign) and isinstance(n.target, ast.Name):
            assigned.setdefault(n.target.id, []).append(is_fresh_value(n.value, dc))
        elif isinstance(n, (ast.For, ast.comprehension)):
            for x in ast.walk(n.target):
                if isinstance(x, ast.Name):
                    assigned.setdefault(x.id, []).append(False)
        elif isinstance(n, ast.NamedExpr) and isinstance(n.target, ast.Name):
            assigned.setdefault(n.target.id, []).append(is_fresh_value(n.value, dc))
        elif isinstance(n, (ast.With, ast.AsyncWith)):
            for it in n.items:
                if it.optional_vars is not None:
                    for x in ast.walk(it.optional_vars):
                        if isinstance(x, ast.Name):
                            assigned.setdefault(x.id, []).append(False)
        elif isinstance(n, ast.ExceptHandler) and n.name:
            assigned.setdefault(n.name, []).append(False)
    return {k for k, v in assigned.items() if k not in ps and v and all(v)}


def access(e: ast.AST):
    """expr -> (root name or None, constant access path)"""
    path = []
    while True:
        if isinstance(e, ast.Subscript):
            s = e.slice
            path.append(s.value if isinstance(s, ast.Constant) and isinstance(s.value, str) else "*")
            e = e.value
        elif isinstance(e, ast.Attribute):
            path.append("." + e.attr)
            e = e.value
        elif isinstance(e, ast.Starred):
            e = e.value
        else:
            break
    root = e.id if isinstance(e, ast.Name) else None
    return root, tuple(reversed(path))


def _stores(node) -> set:
    return {x.id for x in ast.walk(node) if isinstance(x, ast.Name) and isinstance(x.ctx, ast.Store)}


def census(fn: ast.FunctionDef, dc) -> list[tuple]:
    """[(root class, path, op, lineno)] for every mutating statement of fn (nested defs included).
    Root classes: SELF, P<i> (i-th parameter, not rebound to a new object on the way here), F (a container
    this function created: every binding of the name is a display / constructor / deepcopy, or the
    name was rebound to one earlier in the same or an enclosing block), D (anything else)."""
    ps = [p for p in params(fn)]
    fresh_all = fresh_locals(fn, dc)
    out = []

    # Named temporaries for a part of a container (`items = pre[rule]["items"][key][op]; items.append(x)`): a local
    # that is bound exactly once, to an access chain, stands for that chain - the write is classified exactly as
    # if the chain had been written out, so introducing or removing such a temporary does not change the census.
    store_count: dict = {}
    for n in all_nodes_with_nested(fn):
        if isinstance(n, ast.Name) and isinstance(n.ctx, ast.Store):
            store_count[n.id] = store_count.get(n.id, 0) + 1
    aliases: dict = {}
    for n in all_nodes_with_nested(fn):
        if isinstance(n, ast.Assign) and len(n.targets) == 1 and isinstance(n.targets[0], ast.Name) \
                and isinstance(n.value, (ast.Subscript, ast.Attribute)):
            name = n.targets[0].id
            r, pth = access(n.value)
            if name not in ps and store_count.get(name) == 1 and r is not None and r != name \
                    and (r in ps or r == "self" or r in fresh_all or store_count.get(r) == 1):
                aliases[name] = (r, pth)

    def acc(e):
        root, path = access(e)
        for _ in range(6):
            if root in aliases:
                r2, p2 = aliases[root]
                root, path = r2, p2 + path
            else:
                break
        return root, path

    def cls_of(root, fresh_now):
        if root is None:
            return "X"
        if root == "self":
            return "SELF"
        if root in fresh_now:
            return "F"
        if root in ps:
            return f"P{ps.index(root)}"
        if root in fresh_all:
            return "F"
        return "D"

    def targets(t):
        if isinstance(t, (ast.Tuple, ast.List)):
            for x in t.elts:
                yield from targets(x)
        else:
            yield t

    def scan_expr_nodes(nodes, fresh_now):
        for top in nodes:
            todo = [top]
            while todo:
                n = todo.pop()
                if isinstance(n, (ast.FunctionDef, ast.AsyncFunctionDef)):
                    block(n.body, set())          # a nested function: nothing is known to be fresh
                    continue
                if isinstance(n, ast.Call) and isinstance(n.func, ast.Attribute) and n.func.attr in MUTATORS:
                    root, path = acc(n.func.value)
                    if not (root == "self" and path == ()):      # self.method(...) is not a container mutation
                        out.append((cls_of(root, fresh_now), path, n.func.attr, n.lineno))
                todo.extend(ast.iter_child_nodes(n))

    def block(stmts, fresh_now):
        fresh_now = set(fresh_now)
        for st in stmts:
            if isinstance(st, (ast.Assign, ast.AugAssign, ast.AnnAssign)):
                tl = st.targets if isinstance(st, ast.Assign) else [st.target]
                for t0 in tl:
                    for t in targets(t0):
                        if isinstance(t, (ast.Subscript, ast.Attribute)):
                            root, path = acc(t)
                            out.append((cls_of(root, fresh_now), path,
                                        "aug" if isinstance(st, ast.AugAssign) else "set", st.lineno))
                scan_expr_nodes([st], fresh_now)
                if isinstance(st, ast.Assign) and st.value is not None and is_fresh_value(st.value, dc) \
                        and all(isinstance(t, ast.Name) for t in st.targets):
                    fresh_now |= {t.id for t in st.targets}
                else:
                    fresh_now -= _stores(st)
            elif isinstance(st, ast.Delete):
                for t in st.targets:
                    if isinstance(t, (ast.Subscript, ast.Attribute)):
                        root, path = acc(t)
                        out.append((cls_of(root, fresh_now), path, "del", st.lineno))
            elif isinstance(st, (ast.FunctionDef, ast.AsyncFunctionDef)):
                block(st.body, set())
            elif isinstance(st, ast.ClassDef):
                continue
            else:
                # compound or simple statement: header expressions, then nested blocks
                bodies = []
                headers = []
                for field, value in ast.iter_fields(st):
                    if isinstance(value, list) and value and all(isinstance(x, ast.stmt) for x in value):
                        bodies.append(value)
                    elif isinstance(value, list):
                        for x in value:
                            if isinstance(x, ast.ExceptHandler):
                                bodies.append(x.body)
                            elif isinstance(x, ast.AST):
                                headers.append(x)
                    elif isinstance(value, ast.AST):
                        headers.append(value)
                scan_expr_nodes(headers, fresh_now)
                inner = set(fresh_now)
                if isinstance(st, (ast.For, ast.AsyncFor)):
                    inner -= _stores(st.target)
                for b in bodies:
                    block(b, inner)
                fresh_now -= _stores(st)
    block(fn.body, set())
    return out


def benign(m) -> bool:
    c, path, op, _ = m
    if c != "F":
        return False
    if op in ("set", "aug", "del"):
        return len(path) == 1 and not path[0].startswith(".")
    return len(path) == 0


# known writes of the pipeline functions, normalised.  (file key, class or None, function) -> allowed
PATCHING = "annet/annlib/patching.py"
COMMON = "annet/annlib/rulebook/common.py"
CENSUS_SCOPE = {
    (PATCHING, None, "make_diff"): set(),
    (PATCHING, None, "apply_diff_rb"): {("P0", (), "pop"), ("P1", (), "pop"), ("P0", ("*",), "del"), ("P1", ("*",), "del")},
    (PATCHING, None, "make_pre"): {("F", ("*", "items", "*"), "set"), ("F", ("*", "items", "*", "*"), "append")},
    (PATCHING, None, "make_patch"): set(),
    (PATCHING, None, "apply_acl"): set(),
    (PATCHING, None, "apply_acl_diff"): set(),
    (PATCHING, None, "mark_unchanged"): set(),
    (PATCHING, None, "strip_unchanged"): set(),
    (PATCHING, None, "match_row_to_acl"): set(),
    (PATCHING, None, "_match_row_to_rules"): set(),
    (PATCHING, None, "_find_acl_matches"): {("D", ("attrs", "match"), "set")},
    (PATCHING, None, "_find_rules_matches"): set(),
    (PATCHING, None, "_select_match"): set(),
    (PATCHING, None, "_rules_local_global"): set(),
    (PATCHING, None, "_normalize_row_for_acl"): set(),
    (PATCHING, "Orderer", "__init__"): {("SELF", (".rb",), "set"), ("SELF", (".vendor",), "set")},
    (PATCHING, "Orderer", "ref_insert"): set(),
    (PATCHING, "Orderer", "insert"): {("SELF", (".rb",), "set")},
    (PATCHING, "Orderer", "rule_weight"): set(),
    (PATCHING, "Orderer", "get_order"): set(),
    (PATCHING, "Orderer", "order_config"): set(),
    (COMMON, None, "call_diff_logic"): {("F", ("*", "*", "*"), "set")},
    (COMMON, None, "base_diff"): set(),
    (COMMON, None, "default_diff"): set(),
    (COMMON, None, "ordered_diff"): set(),
    (COMMON, None, "rewrite_diff"): {("D", (), "clear"), ("D", ("*",), "set"), ("D", (), "append")},
    (COMMON, None, "multiline_diff"): set(),
    (COMMON, None, "_ignore_case"): {("D", ("*",), "set"), ("P0", ("*",), "set")},
    ("annet/api/__init__.py", None, "_diff_and_patch"): set(),
    ("annet/api/__init__.py", None, "patch_from_pre"): set(),
}


def run_census(repo: Path, trees: dict, reasons: list) -> dict:
    found = {}
    for (rel, cls, name), allowed in CENSUS_SCOPE.items():
        try:
            mod = trees[rel]
            fn = find_func(mod, name, cls)
        except Unknown as e:
            reasons.append(f"{rel}: {e}")
            continue
        ms = census(fn, deepcopy_names(mod))
        found[(rel, cls, name)] = ms
        for m in ms:
            if benign(m) or m[:3] in allowed:
                continue
            reasons.append(f"{rel}:{m[3]} {cls + '.' if cls else ''}{name}: unclassified write "
                           f"{m[2]} on {m[0]}{''.join('[' + p + ']' for p in m[1])}")
    return found


# ------------------------------------------------------------------ the call sites

def eval_copy(e: ast.AST, env: dict, dc):
    if isinstance(e, ast.Name):
        return env.get(e.id, ("other", e.id))
    if is_deepcopy(e, dc):
        return ("deep", eval_copy(e.args[0], env, dc))
    return ("other", ast.dump(e)[:80])


def callee_arg(call: ast.Call, callee: ast.FunctionDef, idx: int):
    names = [a.arg for a in callee.args.posonlyargs + callee.args.args]
    if idx < len(call.args):
        if any(isinstance(a, ast.Starred) for a in call.args[:idx + 1]):
            raise Unknown("starred argument")
        return call.args[idx]
    for k in call.keywords:
        if k.arg == names[idx]:
            return k.value
    raise Unknown(f"argument {idx} of {callee.name} not found in call")


def straight_env(fn: ast.FunctionDef, dc, until: ast.AST):
    """Environment (name -> abstract value) at the first top-level statement containing `until`.
    Assignments nested in compound statements before it make their targets unknown."""
    env = {p: ("param", i) for i, p in enumerate(params(fn))}
    for st in fn.body:
        if any(n is until for n in ast.walk(st)):
            # assignments earlier in the same statement do not exist for simple statements
            return env
        if isinstance(st, ast.Assign) and all(isinstance(t, ast.Name) for t in st.targets):
            val = eval_copy(st.value, env, dc)
            for t in st.targets:
                env[t.id] = val
        else:
            for n in ast.walk(st):
                if isinstance(n, ast.Name) and isinstance(n.ctx, ast.Store):
                    env[n.id] = ("other", "assigned in compound statement")
    raise Unknown("statement not found at top level")


def follow_names(fn: ast.FunctionDef, v: ast.AST, inside: ast.AST | None = None):
    """Follow `x = y` bindings (each name bound exactly once in fn) from v to a non-name expression.
    Returns (expression, all bindings on the way lie inside `inside`)."""
    ok_inside = True
    for _ in range(4):
        if not isinstance(v, ast.Name):
            return v, ok_inside
        defs = [n for n in own_nodes(fn) if isinstance(n, ast.Assign)
                and any(isinstance(t, ast.Name) and t.id == v.id for t in n.targets)]
        if len(defs) != 1:
            raise Unknown(f"{fn.name}: {len(defs)} bindings of {v.id}")
        if inside is not None and not any(x is defs[0] for x in ast.walk(inside)):
            ok_inside = False
        v = defs[0].value
    raise Unknown(f"{fn.name}: binding chain too long")


def analyse_make_diff(mod: ast.Module):
    dc = deepcopy_names(mod)
    fn = find_func(mod, "make_diff")
    callee = find_func(mod, "apply_diff_rb")
    calls = [n for n in ast.walk(fn) if isinstance(n, ast.Call) and call_name(n) == "apply_diff_rb"]
    if len(calls) != 1:
        raise Unknown(f"make_diff: {len(calls)} calls of apply_diff_rb")
    call = calls[0]
    env = straight_env(fn, dc, call)
    res = []
    for i in (0, 1):
        val = eval_copy(callee_arg(call, callee, i), env, dc)
        if val == ("deep", ("param", i)):
            res.append(True)
        elif val == ("param", i):
            res.append(False)
        else:
            raise Unknown(f"make_diff: argument {i} of apply_diff_rb is neither the parameter nor its deepcopy: {val}")
    # the diff logic must see the very objects apply_diff_rb has filtered (same names, not rebound between)
    dl = [n for n in ast.walk(fn) if isinstance(n, ast.Call) and call_name(n) == "call_diff_logic"]
    if len(dl) != 1 or len(dl[0].args) < 3:
        raise Unknown("make_diff: expected one positional call of call_diff_logic")
    env2 = straight_env(fn, dc, dl[0])
    for i in (0, 1):
        a, b = callee_arg(call, callee, i), dl[0].args[i + 1]
        if not (isinstance(a, ast.Name) and isinstance(b, ast.Name) and a.id == b.id and env.get(a.id) == env2.get(b.id)):
            raise Unknown("make_diff: call_diff_logic does not receive the objects apply_diff_rb filtered")
    return res[0], res[1]


def analyse_apply_diff_rb(mod: ast.Module):
    fn = find_func(mod, "apply_diff_rb")
    ms = census(fn, deepcopy_names(mod))
    pops = [False, False]
    for c, path, op, _ in ms:
        for i in (0, 1):
            if c == f"P{i}" and ((op in ("pop", "popitem", "clear") and path == ()) or (op == "del" and len(path) == 1)):
                pops[i] = True
    return pops[0], pops[1]


def analyse_select_match(mod: ast.Module):
    dc = deepcopy_names(mod)
    fn = find_func(mod, "_select_match")
    rets = [n for n in own_nodes(fn) if isinstance(n, ast.Return) and isinstance(n.value, ast.Tuple) and len(n.value.elts) == 2
            and not (isinstance(n.value.elts[0], ast.Constant) and n.value.elts[0].value is None)]
    if len(rets) != 1 or not isinstance(rets[0].value.elts[0], ast.Name):
        raise Unknown("_select_match: cannot find `return match, children_rules`")
    mname = rets[0].value.elts[0].id
    vals = []
    for n in own_nodes(fn):
        if isinstance(n, ast.Assign):
            for t in n.targets:
                if isinstance(t, ast.Name) and t.id == mname and isinstance(n.value, ast.Dict):
                    for k, v in zip(n.value.keys, n.value.values):
                        if isinstance(k, ast.Constant) and k.value == "attrs":
                            vals.append(v)
                if isinstance(t, ast.Subscript) and isinstance(t.value, ast.Name) and t.value.id == mname and \
                        isinstance(t.slice, ast.Constant) and t.slice.value == "attrs":
                    vals.append(n.value)
    if len(vals) != 1:
        raise Unknown(f"_select_match: {len(vals)} definitions of match['attrs']")
    v = vals[0]
    v, _ = follow_names(fn, v)
    if is_deepcopy(v, dc):
        root, path = access(v.args[0])
        if path and path[-1] == "attrs":
            return True
        raise Unknown("_select_match: deepcopy of something that is not <rule>['attrs']")
    root, path = access(v)
    if root is not None and path and path[-1] == "attrs":
        return False                                   # the rule's own dictionary
    if isinstance(v, ast.Call):                       # .copy(), dict(...): a shallow copy is not the deep one
        return False
    raise Unknown("_select_match: unrecognised value for match['attrs']")


def analyse_make_patch(mod: ast.Module):
    dc = deepcopy_names(mod)
    fn = find_func(mod, "make_patch")
    calls = [n for n in own_nodes(fn) if isinstance(n, ast.Call) and any(k.arg == "rule" for k in n.keywords)]
    if len(calls) != 1:
        raise Unknown(f"make_patch: {len(calls)} calls with a rule= argument")
    call = calls[0]
    rule_arg = next(k.value for k in call.keywords if k.arg == "rule")
    # the innermost for loop that contains the call
    loops = []

    def visit(node, stack):
        for c in ast.iter_child_nodes(node):
            if isinstance(c, (ast.FunctionDef, ast.Lambda, ast.ClassDef)):
                continue
            if c is call:
                loops.extend(stack)
            visit(c, stack + [c] if isinstance(c, ast.For) else stack)
    visit(fn, [])
    if len(loops) < 2:
        raise Unknown("make_patch: the logic call is not inside the (rule, key) loops")
    key_loop = loops[1]                               # loop over content["items"].items()
    v, in_key_loop = follow_names(fn, rule_arg, key_loop)
    if is_deepcopy(v, dc):
        # a copy taken outside the loop over keys is shared by the keys of a rule
        return bool(in_key_loop)
    root, path = access(v)
    if path and path[-1] == "attrs":
        return False
    if isinstance(v, ast.Call):                       # .copy(), dict(...): shallow
        return False
    raise Unknown("make_patch: unrecognised rule= argument")


def analyse_acl_match_write(mod: ast.Module):
    fn = find_func(mod, "_find_acl_matches")
    return any(m[:3] == ("D", ("attrs", "match"), "set") for m in census(fn, deepcopy_names(mod)))


def has_lru(mod: ast.Module, name: str) -> bool:
    fn = find_func(mod, name)
    for d in fn.decorator_list:
        t = d.func if isinstance(d, ast.Call) else d
        n = t.attr if isinstance(t, ast.Attribute) else (t.id if isinstance(t, ast.Name) else "")
        if n in ("lru_cache", "cache"):
            return True
    return False


def provider_cache(mod: ast.Module) -> bool:
    fn = find_func(mod, "get_rulebook", "DefaultRulebookProvider")
    for n in own_nodes(fn):
        if isinstance(n, ast.If) and isinstance(n.test, ast.Compare) and len(n.test.ops) == 1 and isinstance(n.test.ops[0], ast.In):
            c = n.test.comparators[0]
            if isinstance(c, ast.Attribute) and isinstance(c.value, ast.Name) and c.value.id == "self":
                if any(isinstance(r, ast.Return) for r in n.body):
                    return True
    return False


# ------------------------------------------------------------------ %logic functions that write

def logic_writers(repo: Path, reasons: list):
    rule_w, diff_w, match_w = [], [], []
    files = [repo / COMMON] + sorted((repo / "annet" / "rulebook").glob("*/*.py"))
    for f in files:
        try:
            mod = parse(f)
        except SyntaxError as e:
            reasons.append(f"{f}: {e}")
            continue
        dc = deepcopy_names(mod)
        if f == repo / COMMON:
            dotted = "common"
        else:
            dotted = f.parent.name + ("" if f.stem == "__init__" else "." + f.stem)
        for fn in mod.body:
            if not isinstance(fn, ast.FunctionDef):
                continue
            ps = params(fn)
            if ps[:3] != ["rule", "key", "diff"]:
                # any other function of a rulebook module (%diff_logic functions and their helpers): writes
                # that go through an "attrs" entry reach the dictionary _select_match returned
                mf = set()
                for c, path, op, line in census(fn, dc):
                    if "attrs" in path and c != "F":
                        k = path.index("attrs")
                        if op == "set" and len(path) > k + 1 and not path[k + 1].startswith(".") and path[k + 1] != "*":
                            mf.add(path[k + 1])
                        else:
                            reasons.append(f"{f.relative_to(repo)}:{line} {fn.name}: unclassified write through ['attrs']")
                if mf:
                    match_w.append((f"{dotted}.{fn.name}", sorted(mf)))
                continue
            fields, dw = set(), False
            for c, path, op, line in census(fn, dc):
                if c == "P0":
                    if op == "set" and len(path) == 1 and not path[0].startswith(".") and path[0] != "*":
                        fields.add(path[0])
                    else:
                        reasons.append(f"{f.relative_to(repo)}:{line} {fn.name}: write to rule that is not rule[<const>] = ...")
                elif c == "P2":
                    dw = True
                elif c.startswith("P"):
                    reasons.append(f"{f.relative_to(repo)}:{line} {fn.name}: logic writes through parameter {ps[int(c[1:])]}")
            if fields:
                rule_w.append((f"{dotted}.{fn.name}", sorted(fields)))
            if dw:
                diff_w.append(f"{dotted}.{fn.name}")
    return rule_w, diff_w, match_w


# ------------------------------------------------------------------ entry point

def cstr(s: str) -> str:
    return '"' + s.replace('"', '""') + '"'


def cbool(b) -> str:
    return "true" if b else "false"


def translate(repo: Path):
    reasons: list[str] = []
    flags = {k: False for k in ("diff_copy_old", "diff_copy_new", "diff_pops_old", "diff_pops_new", "select_copy",
                                "patch_copy", "acl_match_write", "cache_patching", "cache_acl")}
    extra = {"cache_ordering": False, "cache_row_regexp": False, "cache_deploying": False, "cache_provider": False}
    rule_w, diff_w, match_w = [], [], []
    trees = {}
    for rel in {k[0] for k in CENSUS_SCOPE} | {"annet/rulebook/__init__.py", "annet/rulebook/patching.py",
                                                "annet/annlib/rbparser/acl.py", "annet/annlib/rbparser/ordering.py",
                                                "annet/annlib/rbparser/syntax.py", "annet/rulebook/deploying.py"}:
        try:
            trees[rel] = parse(repo / rel)
        except Exception as e:  # noqa
            reasons.append(f"{rel}: cannot parse: {type(e).__name__}: {e}")
    pm = trees.get(PATCHING)

    def attempt(what, fn):
        try:
            return fn()
        except Unknown as e:
            reasons.append(f"{what}: {e}")
        except Exception as e:  # noqa  (fail closed)
            reasons.append(f"{what}: {type(e).__name__}: {e}")
        return None

    if pm is not None:
        r = attempt("make_diff", lambda: analyse_make_diff(pm))
        if r:
            flags["diff_copy_old"], flags["diff_copy_new"] = r
        r = attempt("apply_diff_rb", lambda: analyse_apply_diff_rb(pm))
        if r:
            flags["diff_pops_old"], flags["diff_pops_new"] = r
        else:
            flags["diff_pops_old"] = flags["diff_pops_new"] = True
        r = attempt("_select_match", lambda: analyse_select_match(pm))
        if r is not None:
            flags["select_copy"] = r
        r = attempt("make_patch", lambda: analyse_make_patch(pm))
        if r is not None:
            flags["patch_copy"] = r
        r = attempt("_find_acl_matches", lambda: analyse_acl_match_write(pm))
        flags["acl_match_write"] = True if r is None else r
    for key, rel, fname in (("cache_patching", "annet/rulebook/patching.py", "compile_patching_text"),
                            ("cache_acl", "annet/annlib/rbparser/acl.py", "compile_acl_text")):
        r = attempt(fname, lambda: has_lru(trees[rel], fname))
        flags[key] = True if r is None else r        # sharing is the dangerous value
    for key, rel, fname in (("cache_ordering", "annet/annlib/rbparser/ordering.py", "compile_ordering_text"),
                            ("cache_row_regexp", "annet/annlib/rbparser/syntax.py", "compile_row_regexp"),
                            ("cache_deploying", "annet/rulebook/deploying.py", "compile_deploying_text")):
        r = attempt(fname, lambda: has_lru(trees[rel], fname))
        extra[key] = True if r is None else r
    r = attempt("DefaultRulebookProvider.get_rulebook", lambda: provider_cache(trees["annet/rulebook/__init__.py"]))
    extra["cache_provider"] = True if r is None else r
    # the provider cache shares the compiled patching rulebook just as the lru_cache does
    flags["cache_patching"] = flags["cache_patching"] or extra["cache_provider"]
    found = run_census(repo, trees, reasons)
    try:
        rule_w, diff_w, match_w = logic_writers(repo, reasons)
    except Exception as e:  # noqa
        reasons.append(f"logic writers: {type(e).__name__}: {e}")
    known = not reasons
    order = ["diff_copy_old", "diff_copy_new", "diff_pops_old", "diff_pops_new", "select_copy", "patch_copy",
             "acl_match_write", "cache_patching", "cache_acl"]
    txt = "(* GENERATED by harness/translators/tr_frames.py from annet/annlib/patching.py, annet/annlib/rulebook/common.py,\n" \
          "   annet/annlib/rbparser/*.py, annet/rulebook/*.py, annet/api/__init__.py -- do not edit *)\n" \
          "From Coq Require Import List String Bool.\nFrom Annet Require Import Model.Frame.\nImport ListNotations.\nOpen Scope string_scope.\n\n"
    txt += "(* every mutating statement of the pipeline functions was classified *)\n"
    txt += f"Definition src_frames_known : bool := {cbool(known)}.\n"
    txt += "Definition src_frames_reasons : list string := [" + "; ".join(cstr(r[:200]) for r in reasons[:12]) + "].\n\n"
    txt += "Definition src_frames : frames :=\n  {| " + ";\n     ".join(f"fr_{k} := {cbool(flags[k])}" for k in order) + " |}.\n\n"
    txt += "(* other caches (informational: the objects they share have no mutable part in the model) *)\n"
    for k, v in extra.items():
        txt += f"Definition src_{k} : bool := {cbool(v)}.\n"
    txt += "\n(* %logic functions that assign to rule[...] (dotted name as in %logic=, fields) *)\n"
    txt += "Definition src_rule_writers : list rule_writer :=\n  [" + ";\n   ".join(
        f"({cstr(n)}, [{'; '.join(cstr(x) for x in fs)}])" for n, fs in rule_w) + "].\n"
    txt += "(* functions of the rulebook modules (%diff_logic) that write into match[\"attrs\"][<field>] *)\n"
    txt += "Definition src_match_attr_writers : list rule_writer :=\n  [" + ";\n   ".join(
        f"({cstr(n)}, [{'; '.join(cstr(x) for x in fs)}])" for n, fs in match_w) + "].\n"
    txt += "(* %logic functions that write to their diff argument (buckets of the pre of this call) *)\n"
    txt += "Definition src_diff_writers : list string := [" + "; ".join(cstr(n) for n in diff_w) + "].\n"
    summary = {"known": known, "reasons": reasons[:12], "flags": flags, "caches": extra, "rule_writers": rule_w,
               "diff_writers": diff_w, "match_attr_writers": match_w,
               "census": {f"{k[1] + '.' if k[1] else ''}{k[2]}": [f"{m[0]}{list(m[1])}.{m[2]}" for m in v if not benign(m)]
                          for k, v in found.items() if any(not benign(m) for m in v)}}
    return [("Src_frames.v", txt, summary)]
