"""annet/parallel.py -> coq/Gen/Src_parallel.v  (C12).

Re-reads, with `ast`, the *shape* of the two loops the pool protocol consists of:

* Parallel.irun, multi-process way, `while True:` — the order of
  snapshot (`X = not pool`) / done_queue.get / _check_children / raise terminate_exc / yield from /
  `if <test>: break` / restart loop, and the break test as a formula over
  {not pool, a snapshot variable, the queue.Empty flag};
* _pool_worker `while True:` — the order of task_queue.get / STOP return / invoke / done_queue.put /
  tasks_done += 1 / sys.exit(9).

Fail closed: anything that cannot be classified gives `src_known := false` (and a reason), which makes the
tie theorem C12_source_shape fail.  The translator never raises (other properties share the run).
"""
from __future__ import annotations

import ast
from pathlib import Path


class Unknown(Exception):
    pass


def _find_func(tree: ast.AST, name: str) -> ast.FunctionDef:
    for node in ast.walk(tree):
        if isinstance(node, ast.FunctionDef) and node.name == name:
            return node
    raise Unknown(f"function {name} not found")


def _while_true_loops(fn: ast.AST) -> list[ast.While]:
    return [n for n in ast.walk(fn) if isinstance(n, ast.While)
            and isinstance(n.test, ast.Constant) and n.test.value is True]


def _calls(node: ast.AST) -> list[str]:
    out = []
    for n in ast.walk(node):
        if isinstance(n, ast.Call):
            f = n.func
            if isinstance(f, ast.Attribute):
                base = f.value
                b = base.id if isinstance(base, ast.Name) else (base.attr if isinstance(base, ast.Attribute) else "?")
                out.append(f"{b}.{f.attr}")
            elif isinstance(f, ast.Name):
                out.append(f.id)
    return out


def _is_not_pool(e: ast.AST) -> bool:
    return (isinstance(e, ast.UnaryOp) and isinstance(e.op, ast.Not)
            and isinstance(e.operand, ast.Name) and e.operand.id == "pool")


def _is_hook(st: ast.stmt) -> bool:
    """`if _verif_on(): ...` blocks of the verification hook are transparent."""
    return (isinstance(st, ast.If) and isinstance(st.test, ast.Call)
            and isinstance(st.test.func, ast.Name) and st.test.func.id == "_verif_on")


def _has(node: ast.AST, typ) -> bool:
    return any(isinstance(n, typ) for n in ast.walk(node))


def parent_shape(fn: ast.FunctionDef):
    loops = [w for w in _while_true_loops(fn) if "done_queue.get" in _calls(w)]
    if len(loops) != 1:
        raise Unknown(f"expected one `while True` polling done_queue in irun, found {len(loops)}")
    loop = loops[0]
    order: list[str] = []
    snap_vars: set[str] = set()
    empty_flag = None
    brk = None
    for st in loop.body:
        if _is_hook(st):
            continue
        calls = _calls(st)
        if isinstance(st, ast.Assign) and len(st.targets) == 1 and isinstance(st.targets[0], ast.Name):
            name = st.targets[0].id
            if _is_not_pool(st.value):
                snap_vars.add(name)
                order.append("OSnap")
                continue
            if isinstance(st.value, ast.Constant) and not calls:
                continue                      # exc = None, queue_empty = False, terminate_by_timeout = False ...
        if isinstance(st, ast.Try) and "done_queue.get" in calls:
            # except queue.Empty: <flag> = True
            flags = []
            for h in st.handlers:
                t = h.type
                tn = t.attr if isinstance(t, ast.Attribute) else (t.id if isinstance(t, ast.Name) else None)
                if tn != "Empty":
                    raise Unknown("done_queue.get guarded by a handler other than queue.Empty")
                for b in h.body:
                    if (isinstance(b, ast.Assign) and isinstance(b.targets[0], ast.Name)
                            and isinstance(b.value, ast.Constant) and b.value.value is True):
                        flags.append(b.targets[0].id)
            if len(flags) != 1:
                raise Unknown("cannot identify the queue-empty flag")
            empty_flag = flags[0]
            if any(isinstance(n, (ast.Break, ast.Continue, ast.Return, ast.Yield, ast.YieldFrom)) for n in ast.walk(st)):
                raise Unknown("control flow inside the get block")
            order.append("OGet")
            continue
        if "self._check_children" in calls:
            if not isinstance(st, ast.Assign):
                raise Unknown("_check_children call in an unexpected statement")
            order.append("OReap")
            continue
        if _has(st, ast.Raise):
            if _has(st, (ast.Break, ast.Continue, ast.Yield, ast.YieldFrom)):
                raise Unknown("raise mixed with other control flow")
            order.append("OAbort")
            continue
        if _has(st, (ast.Yield, ast.YieldFrom)):
            ok = (isinstance(st, ast.If) and isinstance(st.test, ast.UnaryOp) and isinstance(st.test.op, ast.Not)
                  and isinstance(st.test.operand, ast.Name) and st.test.operand.id == empty_flag and not st.orelse)
            if not ok or _has(st, (ast.Break, ast.Continue, ast.Return)):
                raise Unknown("yield not of the form `if not <empty flag>: ... yield from ...`")
            order.append("ODeliver")
            continue
        if _has(st, ast.Break):
            if not (isinstance(st, ast.If) and len(st.body) == 1 and isinstance(st.body[0], ast.Break) and not st.orelse):
                raise Unknown("break not of the form `if <test>: break`")
            if brk is not None:
                raise Unknown("more than one break")
            brk = st.test
            order.append("OBreakTest")
            continue
        if isinstance(st, ast.For) and any(c.endswith(".start") for c in calls):
            it = st.iter
            if not (isinstance(it, ast.Name) and it.id == "retired_workers"):
                raise Unknown("restart loop does not iterate over retired_workers")
            order.append("ORestart")
            continue
        if _has(st, (ast.Continue, ast.Return)):
            raise Unknown(f"unclassified control flow at line {st.lineno}")
        if isinstance(st, ast.If) and not any(c.startswith(("done_queue.", "task_queue.", "pool.")) or c.endswith(".start")
                                               for c in calls):
            continue                          # computing terminate_exc etc.: no protocol action
        raise Unknown(f"unclassified statement at line {st.lineno}")
    if brk is None:
        raise Unknown("no break in the loop")

    def bx(e: ast.AST) -> str:
        if _is_not_pool(e):
            return "BPoolEmpty"
        if isinstance(e, ast.Name) and e.id in snap_vars:
            return "BAllReaped"
        if isinstance(e, ast.Name) and e.id == empty_flag:
            return "BQueueEmpty"
        if isinstance(e, ast.BoolOp) and isinstance(e.op, ast.And):
            parts = [bx(v) for v in e.values]
            acc = parts[-1]
            for p in reversed(parts[:-1]):
                acc = f"(BAnd {p} {acc})"
            return acc
        raise Unknown(f"break test not understood: {ast.unparse(e)}")

    return order, bx(brk), ast.unparse(brk)


def worker_shape(fn: ast.FunctionDef):
    loops = [w for w in _while_true_loops(fn) if "task_queue.get" in _calls(w)]
    if len(loops) != 1:
        raise Unknown("expected one `while True` around task_queue.get in _pool_worker")
    order: list[str] = []
    for st in loops[0].body:
        if _is_hook(st):
            continue
        calls = _calls(st)
        if "task_queue.get" in calls:
            order.append("OWGet")
        elif isinstance(st, ast.If) and _has(st, ast.Return):
            if "STOP" not in ast.unparse(st.test) or "done_queue.put" in calls:
                raise Unknown("return not guarded by the STOP test")
            order.append("OWStopReturn")
        elif "invoke_retry" in calls:
            if "done_queue.put" in calls or _has(st, (ast.Return, ast.Break, ast.Continue)):
                raise Unknown("invoke block has unexpected control flow")
            order.append("OWInvoke")
        elif "done_queue.put" in calls:
            if not isinstance(st, ast.Expr):
                raise Unknown("done_queue.put is conditional")
            order.append("OWPut")
        elif isinstance(st, ast.AugAssign) and isinstance(st.target, ast.Name) and st.target.id == "tasks_done":
            order.append("OWCount")
        elif "sys.exit" in calls:
            t = ast.unparse(st.test) if isinstance(st, ast.If) else ""
            if t.replace(" ", "") != "pool.max_tasksandtasks_done>=pool.max_tasks":
                raise Unknown(f"retirement test not understood: {t}")
            order.append("OWRetire")
        elif _has(st, (ast.Return, ast.Break, ast.Continue)):
            raise Unknown(f"unclassified control flow in worker at line {st.lineno}")
        elif any(c.startswith(("done_queue.", "task_queue.")) for c in calls):
            raise Unknown(f"unclassified queue operation in worker at line {st.lineno}")
    return order


def translate(repo: Path):
    known, why = True, ""
    parent, brk, brk_src, worker = [], "BTrue", "", []
    try:
        tree = ast.parse((repo / "annet" / "parallel.py").read_text())
        parent, brk, brk_src = parent_shape(_find_func(tree, "irun"))
        worker = worker_shape(_find_func(tree, "_pool_worker"))
    except (Unknown, OSError, SyntaxError) as e:  # fail closed, but only for C12
        known, why = False, f"{type(e).__name__}: {e}"
    why_c = why.replace("*)", "* )").replace("(*", "( *")
    text = (
        "(* GENERATED by harness/translators/tr_parallel.py from annet/parallel.py -- do not edit *)\n"
        "From Coq Require Import List.\nFrom Annet Require Import Model.Pool.\nImport ListNotations.\n\n"
        f"(* break test in the source: {brk_src} *)\n"
        + (f"(* NOT UNDERSTOOD: {why_c} *)\n" if not known else "")
        + f"Definition src_known : bool := {'true' if known else 'false'}.\n"
        f"Definition src_parent_order : list pop := [{'; '.join(parent)}].\n"
        f"Definition src_break : bexpr := {brk}.\n"
        f"Definition src_worker_order : list wop := [{'; '.join(worker)}].\n"
    )
    summary = {"known": known, "why": why, "parent_order": parent, "break": brk, "break_src": brk_src,
               "worker_order": worker}
    return [("Src_parallel.v", text, summary)]
