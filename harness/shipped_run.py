"""Real runs with the SHIPPED rulebooks (get_rulebook(hw)) on configurations synthesised from the shipped rule
lines themselves; judged by Coq against the rulebooks Coq parses from the RAW lines (Gen/Src_rules.v).

Used by C08 (stage `c08_stage`: patches over the words of the shipped *.order rules; Spec/P_C08s.v: sorted, rank,
and the pin clause for `%order_reverse` rules) and by C01 (stage `c01_stage`: for every shipped undo_redo rule a
pair (old, new) in which one row of the rule changes its text inside its key, under the parents the rule needs;
Spec/P_C01s.v: Device.exec on the real command paths reaches expected).

Everything in this module only STEERS generation: rule lines are read from the rendered text with a crude
parameter split (the parser under test is not asked), rows are instantiated from the rule words; whether a row
matches a rule, which clause applies and whether it holds is decided by the real code and by Coq.
"""
from __future__ import annotations

import re

from . import core, pipeline as P
from .core import cstr, cforest, copt
from .translators.tr_rules import CANON_HW

FILL = ["x1", "10", "Eth0/1", "foo", "VRF_X", "10.0.0.1", "abc", "7", "gold"]


def split_raw(raw: str) -> tuple[str, dict]:
    """(row, params) of a raw rule line: params start at the first white space followed by %name"""
    m = re.search(r"\s%[a-zA-Z_]", raw)
    if not m:
        return re.sub(r"\s+", " ", raw.strip()), {}
    params = {k: (v or "1") for k, v in re.findall(r"\s%([a-zA-Z_]\w*)(?:=(\S*))?", raw[m.start():])}
    return re.sub(r"\s+", " ", raw[:m.start()].strip()), params


def inst(pat: str, rng, alt: int = 0) -> str | None:
    """a row the rule row `pat` probably matches (None: a word of it cannot be instantiated)"""
    from .props.c07 import sample_word
    out = []
    toks = pat.replace("(?i)", "").split(" ")
    for i, t in enumerate(toks):
        if t in ("*", "~"):
            out.append(FILL[(alt + i) % len(FILL)])
        elif t.startswith(("*/", "~/")) and t.endswith("/") and len(t) > 3:
            w = sample_word(t[2:-1], rng)
            if not w:
                return None
            out.append(w)
        elif t.startswith("!"):
            return None
        elif any(c in t for c in "()[]?+|\\^$"):
            w = sample_word(t, rng)
            if not w:
                return None
            out.append(w)
        elif t:
            out.append(t)
    row = " ".join(out)
    return row if row and all(33 <= ord(c) <= 126 or c == " " for c in row) else None


def render() -> list[dict]:
    doc = core.run_impl("rules_runner.py", {"op": "render", "hw": CANON_HW}, timeout=600)
    return [e for e in doc["hw"] if "exc" not in e]


def nest(path_rows: list[str], leaf: dict) -> dict:
    t = leaf
    for r in reversed(path_rows):
        t = {r: t}
    return t


def merge(a: dict, b: dict) -> dict:
    out = {k: v for k, v in a.items()}
    for k, v in b.items():
        out[k] = merge(out[k], v) if k in out else v
    return out


REPORT_FILE = """From Coq Require Import List String Bool Arith ZArith NArith Ascii.
Import ListNotations.
Open Scope string_scope.
Open Scope list_scope.
{imports}
Definition cases : list (nat * ({ty})) := [
{body}
].
Definition rep := Eval vm_compute in (map (fun c => (fst c, {fn} (snd c))) cases).
Eval vm_compute in rep.
"""


def coq_reports(prop: str, imports: str, ty: str, fn: str, terms: list[str], tag: str, per_file: int) -> dict:
    """index -> the value of `fn term` (a tuple of booleans, numbers and lists of them), each term evaluated once"""
    import ast
    import shutil
    from concurrent.futures import ThreadPoolExecutor
    core.ensure_built(imports)
    d = core.BUILD / "cases" / prop / tag
    if d.exists():
        shutil.rmtree(d)
    d.mkdir(parents=True)
    files = []
    for k in range(0, len(terms), per_file):
        body = ";\n".join(f"({i}%nat, {terms[i]})" for i in range(k, min(len(terms), k + per_file)))
        f = d / f"{tag}_{k // per_file}.v"
        f.write_text(REPORT_FILE.format(imports=imports, ty=ty, body=body, fn=fn))
        files.append(f)

    def one(f):
        for _ in range(3):
            p = core.coqc_file(f, timeout=1200)
            if p.returncode in (137, -9) and not (p.stdout + p.stderr).strip():
                continue
            break
        if p.returncode != 0:
            raise core.CheckFailure(f"case file {f} failed to compile:\n{(p.stdout + p.stderr)[-3000:]}")
        parts = re.split(r"^\s*=\s", p.stdout, flags=re.M)[1:]
        if len(parts) != 1:
            raise core.CheckFailure(f"unexpected coqc output for {f}: {p.stdout[-2000:]}")
        txt = parts[0].rsplit("\n     :", 1)[0]
        txt = txt.replace("true", "True").replace("false", "False").replace(";", ",")
        return ast.literal_eval(re.sub(r"\s+", " ", txt).strip())

    out = {}
    with ThreadPoolExecutor(max_workers=core.NPROC) as ex:
        for rep in ex.map(one, files):
            for item in rep:
                out[item[0]] = item[1:] if len(item) > 2 else item[1]
    for f in files:
        for ext in (".vo", ".vok", ".vos", ".glob"):
            f.with_suffix(ext).unlink(missing_ok=True)
        (f.parent / ("." + f.stem + ".aux")).unlink(missing_ok=True)
    return out


# --------------------------------------------------------------------------------------------------------------
# C08


def _walk_order(tree, path=()):
    """(path of parent rule rows, row, params) of every ordering rule line, any depth"""
    for raw, kids in tree:
        row, params = split_raw(raw)
        yield path, row, params
        yield from _walk_order(kids, path + (row,))


def c08_cases(ctx, ents: list[dict]) -> list[dict]:
    rng = ctx.rng("shipped-c08")
    cases = []
    seen_rules = set()
    for e in ents:
        tree = e["kinds"]["order"]["tree"]
        if not tree:
            continue
        prefix = e["reverse"]
        rules = list(_walk_order(tree))
        top = [(row, pr) for path, row, pr in rules if not path and "order_reverse" not in pr
               and not row.startswith(prefix + " ") and row != "~"]

        def others(k):
            rows = []
            for row, _ in rng.sample(top, min(k, len(top))):
                r = inst(row, rng, alt=rng.randrange(5))
                if r and not r.startswith(prefix + " "):
                    rows.append(r)
            return rows

        # A: every %order_reverse rule: its row without the negation word, present in old only, beside rows of
        # other rules that are removed / added at the same level
        pinned = [(path, row) for path, row, pr in rules if "order_reverse" in pr and row.startswith(prefix + " ")]
        for path, row in pinned:
            # the quick tier runs every %order_reverse rule of an *.order file once (first hardware string that
            # renders it), the thorough tier for every hardware string
            if not ctx.thorough and (e["kinds"]["order"]["file"], path, row) in seen_rules:
                continue
            seen_rules.add((e["kinds"]["order"]["file"], path, row))
            r = inst(row[len(prefix) + 1:], rng)
            prow = [inst(p_, rng) for p_ in path]
            if not r or any(x is None or x.startswith(prefix + " ") for x in prow):
                continue
            oth = others(6 if ctx.thorough else 4) if not path else []
            gone, come = oth[::2], oth[1::2]
            old = nest(prow, {**{x: {} for x in gone}, r: {}})
            new = nest(prow, {x: {} for x in come})
            cases.append({"hw": e["hw"], "vendor": e["vendor"], "old": old, "new": new, "src": "pinned-removal",
                          "rule": row, "depth": len(path)})
        # B: rows of random top-level rules, removed and added
        for _ in range(12 if ctx.thorough else 1):
            oth = others(8)
            if len(oth) < 2:
                break
            keep = oth[:1]
            old = {x: {} for x in keep + oth[1::2]}
            new = {x: {} for x in keep + oth[2::2]}
            cases.append({"hw": e["hw"], "vendor": e["vendor"], "old": old, "new": new, "src": "rule-words",
                          "rule": None, "depth": 0})
    return cases


C08_IMPORTS = ("From Annet Require Import Base.Str Base.Tree Model.Rulebook Model.Order Model.Patch Model.ShippedText "
               "Spec.P_C08 Spec.P_Shipped Spec.P_C08s Gen.Src_rules.")


def c08_stage(ctx, prop: str = "C08") -> dict:
    import time
    t0 = time.time()
    ents = render()
    cases = c08_cases(ctx, ents)
    pay = [{"vendor": c["vendor"], "hw": c["hw"], "shipped": True, "old": c["old"], "new": c["new"],
            "patching": "", "ordering": ""} for c in cases]
    outs = core.run_impl_sharded("pipeline_runner.py", pay, shards=min(core.NPROC, max(1, len(pay) // 12)))
    keep = [i for i, o in enumerate(outs) if "fatal" not in o]
    for i, o in enumerate(outs):
        if "fatal" in o:
            ctx.add_violation(core.Violation(
                signature=f"{prop}/shipped/run-raised", what="the real pipeline raised on a shipped rulebook: " + o["fatal"][-400:],
                replay={"case": cases[i], "impl": o}, no_input=True))
            break
    terms = []
    for i in keep:
        c, o = cases[i], outs[i]
        patch = None if (o.get("err") or "patch" not in o) else P.coq_ptree(o["patch"])
        terms.append(f"(Obs08s {cstr(c['hw'])} {cforest(c['old'])} {cforest(c['new'])} {copt(patch)})")
    # Spec/P_C08s.c8s_report = (P_C08s, [parsed; neg_free; computed; sorted; rank; pin], constrained items)
    rep = coq_reports(prop, C08_IMPORTS, "obs08s", "c8s_report", terms, "shipped_run",
                      per_file=max(2, -(-len(terms) // core.NPROC)))
    names = ("parsed", "neg_free", "computed", "sorted", "rank", "pin")
    res = {k: [] for k in ("holds", "unconstrained") + names}
    for j in range(len(terms)):
        holds, flags, n_pin = rep[j]
        if not holds:
            res["holds"].append(j)
        for k, v in zip(names, flags):
            if not v:
                res[k].append(j)
        if n_pin:
            res["unconstrained"].append(j)
    reported = set()
    for j in res["holds"]:
        i = keep[j]
        failed = [k for k in ("parsed", "sorted", "rank", "pin") if j in res[k]]
        sig = f"{prop}/shipped/" + "+".join(failed or ["holds"])
        if sig in reported:
            continue
        reported.add(sig)
        what = {"pin": "a removal command that the shipped ordering text pins to an explicit position "
                       "(`<negation> X %order_reverse` after `X`) does not carry the pinned sort key in the real patch",
                "rank": "a command of the real patch does not carry the rank of the one shipped ordering rule mentioning it",
                "sorted": "a level of the real patch is not sorted by its keys",
                "parsed": "hardware string / ordering text unknown to the Coq tables"}
        ctx.add_violation(core.Violation(
            signature=sig, what="; ".join(what[k] for k in failed) or "P_C08s is false",
            replay={"case": cases[i], "impl": {"patch": outs[i].get("patch"), "err": outs[i].get("err")},
                    "clauses": failed}, no_input=(failed == ["parsed"])))
    constrained = [keep[j] for j in res["unconstrained"]]
    by_src: dict[str, int] = {}
    for c in cases:
        by_src[c["src"]] = by_src.get(c["src"], 0) + 1
    return {"wall_s": round(time.time() - t0, 1), "runs": len(cases), "by_stream": by_src, "evaluated": len(keep),
            "inputs_with_negated_rows": len(res["neg_free"]), "patch_not_computed": len(res["computed"]),
            "runs_with_a_pinned_removal_constrained_by_the_pin_clause": len(constrained),
            "pinned_rules_constrained": sorted({cases[i]["hw"] + ": " + cases[i]["rule"] for i in constrained
                                                if cases[i]["rule"]})[:80],
            "violations": sorted(reported)}


def c08_replay(ctx, doc, prop: str = "C08") -> int:
    c = doc["replay"]["case"]
    o = core.run_impl("pipeline_runner.py", [{"vendor": c["vendor"], "hw": c["hw"], "shipped": True, "old": c["old"],
                                              "new": c["new"], "patching": "", "ordering": ""}])[0]
    print("hw:", c["hw"], "\nold:", c["old"], "\nnew:", c["new"])
    for it in o.get("patch") or []:
        print("  ", it["sk"], it["row"])
    patch = None if (o.get("err") or "patch" not in o) else P.coq_ptree(o["patch"])
    term = f"(Obs08s {cstr(c['hw'])} {cforest(c['old'])} {cforest(c['new'])} {copt(patch)})"
    out = core.coq_eval(prop, C08_IMPORTS, [f"(P_C08s {term}, c8s_flags {term})"], tag="shipped_replay")
    print("P_C08s, [parsed; neg_free; computed; sorted; rank; pin] =", out[0])
    return 0 if out[0].startswith("(true") else 1


# --------------------------------------------------------------------------------------------------------------
# C01

C01_IMPORTS = ("From Annet Require Import Base.Str Base.Tree Model.Pattern Model.Rulebook Model.Diff Model.Order "
               "Model.Patch Model.Blocks Model.Pipeline Model.Device Model.ShippedText Spec.P_C01 Spec.P_Shipped "
               "Spec.P_C01s Gen.Src_rules.")
C01_FLAGS = ("parsed", "chain_found", "in_domain", "computed", "order_ok", "reaches", "second_noop", "second_empty",
             "diff_empty", "agree_device")
C01_CLAUSES = {
    "computed": "a logic raised",
    "order_ok": "the real patch orders a removal command after a direct command of the same (rule, key) slot",
    "reaches": "executing the emitted command paths on old does not reach expected(R, old, new)",
    "second_noop": "the second patch, computed on the device state after the first, changes the device again",
    "second_empty": "the second patch still contains commands",
    "diff_empty": "the second diff is not empty",
}


def two_texts(pat: str, rng) -> tuple[str, str] | None:
    """two rows of the rule `pat` with the same key and different texts (None: the key holds the whole row)"""
    toks = pat.split(" ")
    if toks and (toks[-1] == "~" or toks[-1].startswith("~/")):
        return None
    base = inst(pat, rng)
    if not base:
        return None
    return base + " 1500", base + " 9000"


def c01_cases(ctx, prop: str) -> list[dict]:
    from .props.c07 import parse_coq
    rng = ctx.rng("shipped-c01")
    names = ["hw_" + "".join(ch if ch.isalnum() else "_" for ch in h) for h in CANON_HW]
    core.ensure_built(C01_IMPORTS)
    outs = core.coq_eval(prop, C01_IMPORTS, [f"(sh_vendor {n}, shipped_ur_paths {n})" for n in names],
                         timeout=900, tag="shipped_ur_paths")
    cases, seen = [], set()
    for hw, txt in zip(CANON_HW, outs):
        vendor, paths = parse_coq(txt)
        for path in paths:
            raws = [p[0] for p in path]
            key = (vendor, tuple(p[1] for p in path))
            if not ctx.thorough and key in seen:          # quick: each rule of a *.rul file once
                continue
            seen.add(key)
            rows = [inst(p[1], rng) for p in path[:-1]]
            tt = two_texts(path[-1][1], rng)
            if tt is None or any(r is None for r in rows):
                continue
            cases.append({"hw": hw, "vendor": vendor, "path": raws, "rule": " / ".join(p[1] for p in path),
                          "old": nest(rows, {tt[0]: {}}), "new": nest(rows, {tt[1]: {}})})
    return cases


def c01_term(c, o) -> str:
    patch = None if ("err" in o or "patch" not in o) else P.coq_ptree(o["patch"])
    sec = o.get("second") or {}
    paths2 = None if ("err" in o or "err" in sec or "cmd_paths" not in sec) else P.coq_paths(sec["cmd_paths"])
    return ("(Obs01s " + " ".join([
        cstr(c["hw"]), P.coq_vendor(c["vendor"]), core.clist(core.cnat(x) for x in c["path"]), cforest(c["old"]),
        cforest(c["new"]), copt(patch), P.coq_paths(o.get("cmd_paths", [])), cforest(o.get("dev", c["old"])),
        copt(paths2), core.cbool(not sec.get("diff"))]) + ")")


def c01_stage(ctx, prop: str = "C01") -> dict:
    import time
    t0 = time.time()
    cases = c01_cases(ctx, prop)
    cases = [c for c in cases if c["vendor"] in P.BLOCK_VENDORS]
    outs = core.run_impl_sharded("shipped_c01_runner.py", cases, shards=min(core.NPROC, max(1, len(cases) // 3)))
    for c, o in zip(cases, outs):
        if "fatal" in o:
            raise core.CheckFailure("shipped_c01_runner failed: " + o["fatal"][-800:])
    keep = [i for i, o in enumerate(outs) if o.get("matched")]
    terms = [c01_term(cases[i], outs[i]) for i in keep]
    rep = coq_reports(prop, C01_IMPORTS, "obs01s", "c1s_report", terms, "shipped_run", per_file=2) if terms else {}
    reported, in_dom, disagree = set(), 0, []
    for j, i in enumerate(keep):
        holds, flags = rep[j]
        fl = dict(zip(C01_FLAGS, flags))
        in_dom += fl["in_domain"]
        if fl["computed"] and not fl["agree_device"]:
            disagree.append(i)
        if holds:
            continue
        failed = [k for k in C01_CLAUSES if not fl[k]] if fl["parsed"] else ["parsed"]
        sig = f"{prop}/shipped/" + "+".join(failed)
        if sig in reported:
            continue
        reported.add(sig)
        ctx.add_violation(core.Violation(
            signature=sig,
            what=f"with the shipped rulebook of {cases[i]['hw']}, for a row of the rule {cases[i]['rule']} "
                 f"that changes its text inside its key: " + "; ".join(C01_CLAUSES.get(k, k) for k in failed),
            replay={"case": cases[i], "impl": outs[i], "clauses": failed, "flags": fl},
            no_input=(failed == ["parsed"])))
    if disagree and not reported:
        i = disagree[0]
        ctx.add_violation(core.Violation(
            signature=f"{prop}/shipped/model-impl-disagree/device",
            what="Device.exec (Coq) on the real command paths and the runner's device mirror differ",
            replay={"case": cases[i], "impl": outs[i]}, no_input=True))
    return {"wall_s": round(time.time() - t0, 1), "undo_redo_rules_run": len(cases), "rows_matched_by_the_intended_rules": len(keep),
            "in_domain": in_dom, "rules": [c["hw"] + ": " + c["rule"] for c in cases][:60],
            "violations": sorted(reported)}


def c01_replay(ctx, doc, prop: str = "C01") -> int:
    c = doc["replay"]["case"]
    o = core.run_impl("shipped_c01_runner.py", [c])[0]
    print("hw:", c["hw"], "rule chain:", c["path"], "\nold:", c["old"], "\nnew:", c["new"])
    print("cmd_paths:", o.get("cmd_paths"), "\ndevice after:", o.get("dev"), "\nsecond:", o.get("second"))
    if not o.get("matched"):
        print("rows are no longer matched by the rule chain")
        return 1
    out = core.coq_eval(prop, C01_IMPORTS, [f"c1s_report {c01_term(c, o)}"], tag="shipped_replay")
    print("P_C01s,", list(C01_FLAGS), "=", out[0])
    return 0 if out[0].startswith("(true") else 1
