#!/usr/bin/env python3
"""Markdown table of the seeded changes and the verdict of the last full drill sweep.

  python3 harness/drill_table.py [logdir]            print the table
  python3 harness/drill_table.py [logdir] --design   replace the table in DESIGN.md (between the markers)

logdir defaults to build/logs/drill_full (one <id>.json per seeded change, written by harness/drill.py).
"""
from __future__ import annotations

import json
import re
import sys
from pathlib import Path

VERIF = Path(__file__).resolve().parent.parent
BEGIN, END = "<!-- seeded-table:begin -->", "<!-- seeded-table:end -->"


def table(logdir: Path) -> str:
    sys.path.insert(0, str(VERIF))
    from harness.seeded_meta import TABLE
    lines = ["| id | change | tests / demo (with, without) | verdict of `./check <property> --tier quick` | signature |",
             "|---|---|---|---|---|"]
    n = det = inp = 0
    for sid in sorted(p.name for p in (VERIF / "seeded").iterdir() if p.is_dir()):
        what = TABLE.get(sid, ("?", "?"))[0]
        f = logdir / f"{sid}.json"
        tests = demo = verdict = sig = "—"
        if f.exists():
            try:
                d = json.loads(f.read_text())
            except ValueError:
                d = None
            if d:
                n += 1
                tests = (d.get("repo_tests_with_change") or "—").split(" in ")[0]
                demo = f"{d.get('demo_with_change', {}).get('rc')}, {d.get('demo_without_change', {}).get('rc')}"
                c = d.get("checks", {}).get(d["property"], {})
                if d.get("detected"):
                    det += 1
                    verdict = "VIOLATION, input" if d.get("detected_with_input") else "VIOLATION, no-input"
                    inp += bool(d.get("detected_with_input"))
                else:
                    verdict = f"**missed** (rc {c.get('rc')})"
                sigs = [m.group(1) for l in c.get("verdict", []) for m in [re.match(r"\s+\(([^:]+):", l)] if m]
                sig = "`" + sigs[0] + "`" if sigs else "—"
        lines.append(f"| {sid} | {what} | {tests}; {demo} | {verdict} | {sig} |")
    lines.append("")
    lines.append(f"Sweep total: {n} changes drilled, {det} reported as VIOLATION ({inp} with a concrete failing input).")
    return "\n".join(lines)


def main() -> int:
    args = [a for a in sys.argv[1:] if not a.startswith("--")]
    logdir = Path(args[0]) if args else VERIF / "build" / "logs" / "drill_full"
    t = table(logdir)
    if "--design" in sys.argv:
        p = VERIF / "DESIGN.md"
        s = p.read_text()
        block = f"{BEGIN}\n{t}\n{END}"
        if BEGIN in s:
            s = re.sub(re.escape(BEGIN) + r".*?" + re.escape(END), lambda m: block, s, flags=re.S)
        else:
            s = s.replace("@@SEEDED_TABLE@@", block)
        p.write_text(s)
        print("DESIGN.md updated")
    else:
        print(t)
    return 0


if __name__ == "__main__":
    sys.exit(main())
