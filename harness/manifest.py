"""Regenerate /verif/MANIFEST.json from the property modules (harness/props/cNN.py: META)."""
from __future__ import annotations

import importlib
import json

from . import core

ALL = [f"C{i:02d}" for i in range(1, 21)]
# properties whose check has been reviewed by the lead and passes on the unchanged tree; a module that exists
# but is not listed here is work in progress and is reported under not_applicable with that reason
READY = {f"C{i:02d}" for i in range(1, 21)}

DEFAULT_NOTE = ("Theorems are about the Gallina model; the model is tied to /repo by the correspondence run "
                "(Coq evaluates model-vs-implementation agreement and the property predicate on the "
                "implementation's outputs) and by regenerated coq/Gen tables. Trusted: Coq kernel + VM, "
                "harness generators/printers/runners.")


def write() -> None:
    checks = []
    na = []
    for pid in ALL:
        try:
            mod = importlib.import_module(f"harness.props.{pid.lower()}")
        except ModuleNotFoundError:
            na.append({"property_id": pid,
                       "reason": f"check not built yet in this state of /verif (planned, DESIGN.md §3.{pid}); nothing is claimed"})
            continue
        meta = getattr(mod, "META", None)
        if pid not in READY:
            na.append({"property_id": pid,
                       "reason": f"check under construction in this state of /verif (DESIGN.md §3.{pid}); nothing is claimed yet"})
            continue
        if not meta or meta.get("not_applicable"):
            na.append({"property_id": pid, "reason": (meta or {}).get("not_applicable", "module without META")})
            continue
        checks.append({
            "property_id": pid,
            "quick_cmd": f"./check {pid} --tier quick",
            "thorough_cmd": f"./check {pid} --tier thorough",
            "evidence_file": f"/verif/evidence/{pid}.json",
            "replay_cmd_template": f"./check {pid} --replay {{path}}",
            "engine": "coq-proof+correspondence",
            "level_claimed": {
                "category": meta.get("category", "proof"),
                "text": meta["text"],
                "design_ref": f"DESIGN.md §3.{pid}",
            },
            "level_note": meta.get("note", DEFAULT_NOTE),
            "technique": meta.get("technique", "Coq theorem over Gallina model + vm_compute correspondence against the implementation"),
        })
    man = {
        "version": 1,
        "setup_cmd": "./check --setup",
        "hooks": {
            "guard": "ANNET_VERIF",
            "enable": "checks run the implementation with ANNET_VERIF=1 PYTHONPATH=/repo PYTHONHASHSEED=0 /venv/bin/python",
            "baseline_off_cmd": "cd /repo && env -u ANNET_VERIF /venv/bin/python -m pytest -ra -q -p no:cacheprovider --timeout=900 --continue-on-collection-errors",
            "source_commits": json.loads((core.VERIF / "hooks.json").read_text())["source_commits"] if (core.VERIF / "hooks.json").exists() else [],
            "add_only": True,
        },
        "engines": [{
            "name": "coq-proof+correspondence",
            "path": "/verif/check",
            "serves_properties": [c["property_id"] for c in checks],
            "kind_free_text": "Coq 8.16.1 theorems over Gallina models (coq/), models tied to /repo by regenerated "
                              "tables (coq/Gen) and by vm_compute correspondence on implementation outputs",
        }],
        "checks": checks,
        "notes": "See DESIGN.md. known_findings.json lists recorded defects; evidence/ is rewritten on every run.",
        "not_applicable": na,
    }
    (core.VERIF / "MANIFEST.json").write_text(json.dumps(man, indent=1) + "\n")
