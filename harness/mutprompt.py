#!/usr/bin/env python3
"""Write the brief for a fresh mutation sub-agent (one per property) to <outdir>/<id>.txt.

  /venv/bin/python harness/mutprompt.py /tmp/mutprompts5 5     (round number = suffix of the scratch paths)

The brief contains ONLY the property record and working instructions (nothing about the checks), plus one line per
change already kept under seeded/ so that the agent produces something different.  The agent is then started with:
"Read the file <outdir>/<id>.txt and carry out the task it describes exactly.  Do not read anything under /verif."
"""
import json
import sys
from pathlib import Path

VERIF = Path(__file__).resolve().parent.parent
sys.path.insert(0, str(VERIF))
from harness.seeded_meta import TABLE  # noqa: E402


def main():
    out, rnd = Path(sys.argv[1]), sys.argv[2]
    out.mkdir(parents=True, exist_ok=True)
    for line in (VERIF / "properties.jsonl").read_text().splitlines():
        p = json.loads(line)
        pid = p["id"]
        prev = [TABLE[k][0] for k in sorted(TABLE) if k.startswith(pid + "-")]
        txt = f"""You are helping to evaluate a verification effort for the Python project annetutil/annet at /repo (a git
repository; do NOT modify /repo's working tree, do NOT commit there).  Do not read anything under /verif, /root/.vp or
/root/.claude.

Craft ONE realistic source change to annet that BREAKS the semantic property below while the code still imports and the
existing test suite still passes (all 337 tests).  It must need something specific in order to manifest (an error
path, a boundary value, an interaction of two features, a vendor override, a second operation in the same process) and
must differ in mechanism and location from the ideas already known (below).  Small diff.

THE PROPERTY ({pid}):
{json.dumps(p, indent=1, ensure_ascii=False)}

Already-known ideas that you must NOT repeat:
""" + "".join(f"  - {x}\n" for x in prev) + f"""
How to work:
1. git -C /repo worktree add --detach /tmp/mut{rnd}-{pid} HEAD ; work only there.
2. Edit; run: cd /tmp/mut{rnd}-{pid} && PYTHONPATH=/tmp/mut{rnd}-{pid} /venv/bin/python -m pytest -q -p no:cacheprovider --timeout=900 -x
   (337 passed; check annet.__file__).  Write demo.py (imports annet via PYTHONPATH only; exit 0 when the property holds
   on its inputs, 1 with a message when violated): rc 1 with PYTHONPATH=/tmp/mut{rnd}-{pid}, rc 0 with PYTHONPATH=/repo.
3. Save to /tmp/mut{rnd}-out/{pid}/a/ : patch.diff (`git -C /tmp/mut{rnd}-{pid} diff`), demo.py, NOTES.md.
4. git -C /repo worktree remove --force /tmp/mut{rnd}-{pid} ; git -C /repo worktree prune.
Use /venv/bin/python.  No network.  Ignore 'WARNING conda...' lines.  Leave the ANNET_VERIF hook in annet/parallel.py alone.
Final message: 4-6 lines: files/functions touched, mechanism, what is needed to manifest, confirmed results.
"""
        (out / f"{pid}.txt").write_text(txt)
    print("wrote", out)


if __name__ == "__main__":
    main()
