"""Shipped rulebooks (coq/Gen/Src_rules.v): correspondence of the Coq-parsed rulebooks with the rulebooks the real
provider compiles, and the evidence tables of C01 / C08.  Called from harness/props/c01.py and c08.py.

* correspondence: for every canonical hardware string the runner (harness/impl/rules_runner.py, op "compiled")
  reports get_rulebook(hw) reduced to rule order, nesting, type ignore, %global, canonical logic / diff_logic
  names, reverse template, parent, multiline, force_commit, ignore_case (patching), raw_rule, %order_reverse,
  %global, %scope (ordering), raw_rule and nesting (deploying); a generated case file makes Coq compare that with
  what Model/ShippedText.v parses from the RAW lines (Spec/P_Shipped.agree_*).  What a rule PATTERN matches is
  C07's correspondence (every shipped row on synthesised rows); it is not repeated here.
* the hypothesis of C01_shipped_converges_partial (the literal-word test is sound) is tested on the real regexps
  for every (undo_redo pattern, %order_reverse pattern) pair of every shipped rulebook with sample keys.
"""
from __future__ import annotations

import re

from . import core
from .core import cstr, clist, cbool, copt
from .translators.tr_rules import CANON_HW

IMPORTS = ("From Annet Require Import Base.Str Model.Rulebook Model.Order Model.ShippedText Spec.P_Shipped "
           "Gen.Src_rules.")
IMPORTS_RULES = IMPORTS + "\nFrom Annet Require Import Proofs.ShippedRules."
TY = "shipped_case"


def _ascii(s: str) -> str:
    return "".join(ch if (32 <= ord(ch) <= 126 or ch == "\t") else "?" for ch in s)


def c_robs(r: dict) -> str:
    rev = None if r["reverse"] is None else cstr(_ascii(r["reverse"]))
    return (f"(RObs {cstr(_ascii(r['raw']))} {cbool(r['type'] == 'ignore')} {cbool(r['global'])} "
            f"{cstr(r['logic'] or '')} {cstr(r['diff_logic'])} {copt(rev)} {cbool(r['parent'])} "
            f"{cbool(r['multiline'])} {cbool(r['force_commit'])} {cbool(r['ignore_case'])} "
            f"{clist(c_robs(k) for k in r['kl'])} {clist(c_robs(k) for k in r['kg'])})")


def c_oobs(o: dict) -> str:
    scope = copt(None if o["scope"] is None else clist(cstr(s) for s in o["scope"]))
    return (f"(OObs {cstr(_ascii(o['raw']))} {cbool(o['orev'])} {cbool(o['global'])} {scope} "
            f"{clist(c_oobs(k) for k in o['kids'])})")


def c_dobs(d: dict) -> str:
    return f"(DObs {cstr(_ascii(d['raw']))} {clist(c_dobs(k) for k in d['kids'])})"


def c_case(e: dict) -> str:
    p = e["patching"]
    return (f"({cstr(e['hw'])}, ({clist(c_robs(r) for r in p['local'])}, {clist(c_robs(r) for r in p['global'])}), "
            f"{clist(c_oobs(o) for o in e['ordering'])}, {clist(c_dobs(d) for d in e['deploying'])})")


def _count(rs, kids=("kl", "kg")) -> int:
    return sum(1 + sum(_count(r[k], kids) for k in kids) for r in rs)


def correspondence(ctx, prop: str) -> dict:
    """Coq-parsed shipped rulebooks vs get_rulebook(hw); registers violations, returns coverage numbers."""
    real = core.run_impl("rules_runner.py", {"op": "compiled", "hw": CANON_HW}, timeout=600)
    broken = [e for e in real if "exc" in e]
    if broken:
        ctx.add_violation(core.Violation(
            signature=f"{prop}/shipped/rulebook-does-not-compile",
            what=f"get_rulebook raised for {broken[0]['hw']}: {broken[0]['exc']}",
            replay={"hw": broken[0]["hw"], "exc": broken[0]["exc"]}))
        real = [e for e in real if "exc" not in e]
    terms = [c_case(e) for e in real]
    res = core.run_case_files(prop, TY, IMPORTS,
                              {"patching": "agree_patching", "ordering": "agree_ordering",
                               "deploying": "agree_deploying"}, terms, per_file=4, tag="shipped")
    for label in ("patching", "ordering", "deploying"):
        for i in res[label][:1]:
            e = real[i]
            ctx.add_violation(core.Violation(
                signature=f"{prop}/shipped/{label}-rulebook-differs",
                what=f"the {label} rulebook Coq parses from the rendered text of {e['hw']} (Model/ShippedText.v) differs "
                     f"from the rulebook the real provider compiles (rule order, nesting, %params, logic names or "
                     f"reverse templates)",
                replay={"hw": e["hw"], "kind": label, "real": e[label] if label != "patching" else e["patching"]},
                no_input=True))
    n_rules = sum(_count(e["patching"]["local"]) + _count(e["patching"]["global"]) for e in real)
    n_ord = sum(_count(e["ordering"], ("kids",)) for e in real)
    n_dep = sum(_count(e["deploying"], ("kids",)) for e in real)
    return {"hardware": [e["hw"] for e in real], "patching_rules_compared": n_rules, "ordering_rules_compared": n_ord,
            "deploying_rules_compared": n_dep,
            "disagreements": {k: [real[i]["hw"] for i in v] for k, v in res.items()}}


def _strings(txt: str) -> list[str]:
    return [m.group(1).replace('""', '"') for m in re.finditer(r'"((?:[^"]|"")*)"', txt)]


REPORT = """(fun h : shw =>
  match shipped_srules h, shipped_ordering h with
  | Some s, Some ord =>
    let R := to_rset Src_logic_alias pat_ok s in
    let OR := orev_pats ord in
    let ur := (flat_map undo_redo_pats (fst R) ++ flat_map undo_redo_pats (snd R))%list in
    let q := lit_quiet (sh_reverse h) OR in
    (Some (shipped_cond (no_test (sh_reverse h)) ord R, shipped_cond (lit_quiet (sh_reverse h)) ord R),
     (List.length (srs_flat s), List.length (os_flat ord), List.length (filter o_rev (os_flat ord)),
      List.length (filter (fun r => negb (pat_ok (o_pat r))) (os_flat ord)), List.length (shipped_deploying h)),
     sh_reverse h, ur, OR, map q ur,
     flat_map (fun i => match s_opaque Src_logic_alias pat_ok i with nil => nil | l => (s_raw i, l) :: nil end) (srs_flat s))
  | _, _ => (None, (0, 0, 0, 0, 0), sh_reverse h, nil, nil, nil, nil)
  end)"""


def tables_and_quiet(ctx, prop: str) -> dict:
    """One Coq evaluation per hardware string: the counts, the two verdicts of the structural condition, the opaque
    rules, and the (undo_redo pattern, %order_reverse pattern) pairs whose separation by the literal-word test
    (the hypothesis of C01_shipped_converges_partial) is then tested on the real regexps."""
    core.ensure_built(IMPORTS_RULES)
    names = ["hw_" + "".join(ch if ch.isalnum() else "_" for ch in h) for h in CANON_HW]
    out = core.coq_eval(prop, IMPORTS_RULES, [f"{REPORT} {n}" for n in names], timeout=900, tag="shipped_tables")
    doc = {"per_hardware": {}, "opaque_rules": {}}
    jobs = []
    for h, txt in zip(CANON_HW, out):
        m = re.match(r"\(\s*(None|Some \((true|false), (true|false)\)),\s*\((\d+), (\d+), (\d+), (\d+), (\d+)\),\s*", txt)
        if not m:
            raise core.CheckFailure(f"shipped report of {h} not understood: {txt[:300]}")
        rest = txt[m.end():]
        # prefix, ur, OR, verdicts, opaque : split on the top-level list brackets
        parts = _split_top(rest)
        prefix = _strings(parts[0])[0]
        ur, orv = _strings(parts[1]), _strings(parts[2])
        verdict = re.findall(r"true|false", parts[3])
        reasons = {}
        for mm in re.finditer(r'\("((?:[^"]|"")*)",\s*\[([^\]]*)\]\)', parts[4]):
            for r in _strings(mm.group(2)):
                reasons.setdefault(r, []).append(mm.group(1))
        doc["per_hardware"][h] = {
            "parsed": m.group(1) != "None",
            "condition_without_pattern_test": m.group(2), "condition_with_literal_test": m.group(3),
            "patching_rules": int(m.group(4)), "opaque_to_the_model": sum(1 for _ in re.finditer(r'\("', parts[4])),
            "ordering_rules": int(m.group(5)), "order_reverse_rules": int(m.group(6)),
            "ordering_patterns_unmodelled": int(m.group(7)), "deploying_rules": int(m.group(8)),
            "undo_redo_rules": len(ur)}
        doc["opaque_rules"][h] = {r: {"count": len(v), "first": v[:4]} for r, v in reasons.items()}
        if ur and orv:
            jobs.append({"hw": h, "prefix": prefix, "pps": [p for p, q in zip(ur, verdict) if q == "true"], "pos": orv})
    if jobs:
        res = core.run_impl("rules_runner.py", {"op": "quiet", "jobs": jobs}, timeout=600)
        for r in res["hits"][:1]:
            ctx.add_violation(core.Violation(
                signature=f"{prop}/shipped/literal-test-unsound",
                what=f"the %order_reverse pattern {r['po']!r} matches the removal command {r['cmd']!r} of the undo_redo "
                     f"rule {r['pp']!r} although the literal-word test separates them",
                replay=r))
        doc["quiet_pairs_tested"] = {"pairs": res["pairs"], "commands": res["commands"], "hits": len(res["hits"])}
    else:
        doc["quiet_pairs_tested"] = {"pairs": 0}
    return doc


def _split_top(txt: str) -> list[str]:
    """split `"p", [..], [..], [..], [..])` into its five top-level components"""
    parts, depth, cur, in_str = [], 0, "", False
    i = 0
    while i < len(txt):
        ch = txt[i]
        if in_str:
            cur += ch
            if ch == '"':
                if i + 1 < len(txt) and txt[i + 1] == '"':
                    cur += '"'
                    i += 1
                else:
                    in_str = False
        elif ch == '"':
            in_str = True
            cur += ch
        elif ch in "[(":
            depth += 1
            cur += ch
        elif ch in "])":
            depth -= 1
            cur += ch
        elif ch == "," and depth == 0:
            parts.append(cur)
            cur = ""
        else:
            cur += ch
        i += 1
    parts.append(cur)
    return parts


def overlap_tables(prop: str) -> dict:
    core.ensure_built(IMPORTS)
    names = ["hw_" + "".join(ch if ch.isalnum() else "_" for ch in h) for h in CANON_HW]
    out = core.coq_eval(prop, IMPORTS, [f"shipped_overlaps {n}" for n in names], timeout=900, tag="shipped_overlaps")
    doc = {}
    for h, txt in zip(CANON_HW, out):
        s = _strings(txt)
        pairs = list(zip(s[0::2], s[1::2]))
        doc[h] = {"pairs_not_separated": len(pairs),
                  "with_catch_all": sum(1 for a, b in pairs if b.strip().split(" %")[0] == "~"),
                  "first": [list(p) for p in pairs if p[1].strip().split(" %")[0] != "~"][:25]}
    return doc
