"""ACL TEXTS for the C06 text front end (Model/AclText.v): printers with layout / spelling noise, malformed texts,
Coq printers of the compiled structure.

Three kinds of text are made from a structured ACL `A` (harness/aclgen.py):
  clean    acl_text(A) exactly as aclgen prints it                      -> compile_acl_text == compile_acl A
  layout   other indentation units per block (blanks or a tab), blank lines, indented "#" comments, "#" comments in
           column 0 between top-level items, trailing blanks            -> still == compile_acl A (the lines' keys are
           unchanged)
  spelled  irregular blanks / tabs inside the lines, %params reordered, spelled otherwise (%global=yes, %prio=007,
           %cant_delete=true), unknown %params, %params on continuation lines, %context rows, duplicated lines
                                                                         -> only model == implementation
and malformed ones: bad dedent (ParserError), a "#" comment in column 0 below a parent (its children become top-level
rows), bad parameter values (ValidatorError), "!rule" (NotImplementedError), a bare "!", a bad %context row.
"""
from __future__ import annotations

import random

from .core import cstr, clist, cbool, cnat
from . import aclgen

TEXT_IMPORTS = (aclgen.ACL_IMPORTS +
                "\nFrom Annet Require Import Model.Offside Model.AclText Spec.P_C06_text Proofs.AclTextParse "
                "Proofs.AclTextProofs.")


# ------------------------------------------------------------------ layout noise (keys of the lines unchanged)

def layout_text(rng: random.Random, items: list[dict], *, col0_comments: bool = True) -> str:
    lines: list[str] = []
    base = rng.choice(["", "", "", " ", "  ", "\t"])          # the whole text may be shifted

    def emit(its, indent, top):
        unit = rng.choice(["    ", "  ", " ", "\t", "        ", "   ", " \t"])
        for it in its:
            if rng.random() < 0.12:
                lines.append(rng.choice(["", "   ", "\t"]))
            if rng.random() < 0.1:
                lines.append(base + indent + rng.choice([" ", "  "]) + "# note " + rng.choice(aclgen.LIT))
            if top and col0_comments and rng.random() < 0.08:
                lines.append("# section " + rng.choice(aclgen.LIT))
            lines.append(base + indent + aclgen.raw_rule(it) + rng.choice(["", "", " ", "\t ", "   "]))
            if it.get("kids"):
                emit(it["kids"], indent + unit, False)
    emit(items, "", True)
    if rng.random() < 0.2:
        lines.append("")
    return "\n".join(lines)


# ------------------------------------------------------------------ spelling noise (model == implementation only)

TRUE_SP = ["1", "true", "yes", "TRUE", "Yes"]
FALSE_SP = ["0", "false", "no", "No", "FALSE"]


def blank(rng):
    return rng.choice([" ", " ", "  ", "\t", " \t ", "   "])


def spelled_raw(rng: random.Random, it: dict) -> tuple[str, list[str]]:
    """-> (row part, list of %param words)"""
    row = ("!" if it.get("ign") else "") + blank(rng).join(it["pat"].split(" ")) if rng.random() < 0.5 else \
        ("!" if it.get("ign") else "") + it["pat"]
    ps = []
    if it.get("glob"):
        ps.append(rng.choice(["%global", "%global", "%global=" + rng.choice(TRUE_SP), "%global="]))
    elif rng.random() < 0.08:
        ps.append("%global=" + rng.choice(FALSE_SP))
    if it.get("cd") is not None:
        cd = it["cd"]
        if cd == [True] and rng.random() < 0.4:
            ps.append(rng.choice(["%cant_delete", "%cant_delete="]))
        else:
            sep = rng.choice([",", ",", ",,", ","])
            ps.append("%cant_delete=" + sep.join(rng.choice(TRUE_SP if b else FALSE_SP) for b in cd) +
                      rng.choice(["", "", ","]))
    if it.get("prio", 0) != 0 or it.get("prio_explicit"):
        ps.append("%prio=" + rng.choice(["", "", "0", "00"]) + str(it.get("prio", 0)))
    if it.get("gens"):
        ps.append("%generator_names=" + rng.choice([",", ",", ",,"]).join(it["gens"]))
    if rng.random() < 0.1:
        ps.append(rng.choice(["%foo", "%foo=bar", "%_x1=%global", "%comment=a,b"]))
    if rng.random() < 0.07 and it.get("prio", 0) == 0 and not it.get("prio_explicit"):
        ps += ["%prio=4", "%prio=0"] if rng.random() < 0.5 else ["%prio=0", "%prio=2"]      # the last one wins
    rng.shuffle(ps)
    return row, ps


def spelled_text(rng: random.Random, items: list[dict]) -> str:
    lines: list[str] = []

    def emit(its, indent):
        unit = rng.choice(["    ", "  ", "\t", "   "])
        ctx_done = False
        for it in its:
            if rng.random() < 0.06:
                lines.append(rng.choice(["", "  "]))
            if rng.random() < 0.06:
                lines.append(indent + " # " + rng.choice(["note", "%global", "x %prio=3"]))
            if rng.random() < 0.04 and not ctx_done:
                lines.append(indent + "%context=" + rng.choice(["a:b", "role:leaf", " k:v"]))
                ctx_done = True
            row, ps = spelled_raw(rng, it)
            line = indent + row
            k = 0
            while k < len(ps):
                if rng.random() < 0.15:                      # continuation line
                    lines.append(line)
                    if rng.random() < 0.3:
                        lines.append("")                     # an empty line before the continuation
                    line = rng.choice([indent, indent + unit, "", indent + "      "]) + ps[k]
                else:
                    line += blank(rng) + ps[k]
                k += 1
            lines.append(line + rng.choice(["", "", " "]))
            if rng.random() < 0.05:
                lines.append(lines[-1])                      # the very same line again
            if it.get("kids"):
                emit(it["kids"], indent + unit)
    emit(items, rng.choice(["", "", " "]))
    return "\n".join(lines)


# ------------------------------------------------------------------ malformed texts

def malformed_text(rng: random.Random, items: list[dict]) -> tuple[str, str]:
    """-> (text, kind)"""
    text = aclgen.acl_text(items)
    lines = text.split("\n")
    kind = rng.choice(["dedent", "dedent", "col0-comment", "bad-prio", "bad-bool", "bad-cd", "ignore", "bare-bang",
                       "bad-context", "indent-first", "two-errors", "glued-param", "pct-in-row"])
    i = rng.randrange(len(lines))
    ind = len(lines[i]) - len(lines[i].lstrip(" "))
    if kind == "dedent":
        deep = [j for j, l in enumerate(lines) if l.startswith("    ")]
        if deep:
            j = rng.choice(deep)
            n = len(lines[j]) - len(lines[j].lstrip(" "))
            lines.insert(j + 1, " " * (n - rng.choice([1, 2, 3])) + "gamma 7")
        else:
            lines = ["  " + lines[0], " beta"] + lines[1:]
    elif kind == "col0-comment":
        lines.insert(i + 1, "# " + rng.choice(["x", "interface", ""]))
    elif kind == "bad-prio":
        lines[i] += " %prio=" + rng.choice(["x", "-1", "1.5", "1x", "0x10", "--"])
    elif kind == "bad-bool":
        lines[i] += " %global=" + rng.choice(["maybe", "2", "tru", "on", "1,0"])
    elif kind == "bad-cd":
        lines[i] += " %cant_delete=" + rng.choice(["1,2", "x", "1;0", "yes,nope"])
    elif kind == "ignore":
        lines.insert(i + 1, " " * ind + rng.choice(["!", "! ", "!  "]) + rng.choice(["alpha *", "x"]))
    elif kind == "bare-bang":
        lines.insert(i + 1, " " * ind + rng.choice(["!", "! %global", "!\t"]))
        if rng.random() < 0.5:
            lines.insert(i + 2, " " * (ind + 2) + "under bang %prio=" + rng.choice(["1", "x"]))
    elif kind == "bad-context":
        lines.insert(i, " " * ind + "%context=" + rng.choice(["a", "a:b:c", "", "a:b %prio=x"]))
    elif kind == "indent-first":
        lines = ["   " + lines[0]] + lines[1:]
    elif kind == "two-errors":
        lines[i] += " %prio=zz"
        lines.append(" " * 3 + "x")
        lines.append(" " * 1 + "y")
    elif kind == "glued-param":
        lines[i] = lines[i].replace(" %", "%", 1) if " %" in lines[i] else lines[i] + "%global"
    elif kind == "pct-in-row":
        lines[i] = " " * ind + "mtu 5% x" + rng.choice([" %global", "", " % global", " %1a", " %prio"])
    return "\n".join(lines), kind


# ------------------------------------------------------------------ Coq printers

def coq_rules(d: dict) -> str:
    def side(rs):
        return clist(f"(ARule {cstr(r[0])} {clist(cbool(b) for b in r[1])} {cnat(r[2])} "
                     f"{clist(cstr(g) for g in r[3])} {side(r[4]['local'])} {side(r[4]['global'])})" for r in rs)
    return f"({side(d['local'])}, {side(d['global'])})"


def coq_tres(o: dict) -> str:
    if "rules" in o:
        return f"(inr {coq_rules(o['rules'])})"
    e = o["err"]
    if e == "parser":
        return f"(inl (EParser {cnat(o['line'])} {cstr(o['row'])}))"
    return {"validator": "(inl EValidator)", "context": "(inl EContext)", "notimpl": "(inl ENotImpl)"}[e]


def coq_case(text: str, a: list[dict] | None, o: dict) -> str:
    return f"(CT {cstr(text)} {'None' if a is None else '(Some ' + aclgen.coq_acl(a) + ')'} {coq_tres(o)})"


def rules_size(d: dict) -> int:
    return sum(1 + rules_size(r[4]) for r in d["local"] + d["global"])
