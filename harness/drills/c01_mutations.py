"""C01 mutation drill: name -> (file, old text, new text).

usage:  python3 harness/drills/c01_mutations.py NAME      (copies /repo to /tmp/c01-repo and applies NAME)
        cd /tmp/c01-repo && /venv/bin/python -m pytest -q -p no:cacheprovider --timeout=900
        ANNET_VERIF_REPO=/tmp/c01-repo ./check C01 --tier quick ; rm -rf /tmp/c01-repo

Results on the tree of round 1 (detected = VIOLATION with a failing input unless noted):
  K1 undo key reversed .................. detected (reaches)            [fails repo tests]
  K2 sort key without `direct` .......... detected (runner reads the 3-component key -> no_error) [fails repo tests]
  K2b sort key without sign ............. detected as model/impl patch disagreement (property holds) [fails repo tests]
  K3 default prefers REMOVED ............ detected (reaches)            [fails repo tests]
  K4 child emitted outside its block .... detected (reaches)            [fails repo tests]
  K5 mark_unchanged any() ............... detected (reaches)            [fails repo tests]
  K6 undo_redo yields ADDED first ....... not detected: equivalent after PatchTree.sort (passes repo tests)
  K7 permanent drops children ........... detected (reaches)            [fails repo tests]
  T1 ignore_changes and->or ............. detected (reaches)            [passes the 337 repo tests]
  T12 permanent with replacement ........ detected as model/impl patch disagreement [passes repo tests]
  T19 undo_redo only without children ... detected as model/impl patch disagreement [passes repo tests]
  T36 reverse prefix without the blank .. detected (reaches)            [passes repo tests]
  T3, T17, T26 .......................... fail repo tests (not run)
  H1 rename/copy a local, H2 reorder independent statements: OK (no alarm)
"""
M = {
 "K1_undo_key_reversed": ("annet/annlib/rulebook/common.py",
    '        yield (False, rule["reverse"].format(*key), None)\n\n\ndef ordered',
    '        yield (False, rule["reverse"].format(*reversed(key)), None)\n\n\ndef ordered'),
 "K2_sort_key_without_direct": ("annet/annlib/patching.py",
    '''            item["raw_rule"],
            item["order_direct"],
        )''', '''            item["raw_rule"],
        )'''),
 "K2b_sort_key_without_sign": ("annet/annlib/patching.py",
    '''            (item["order"] if item["order_direct"] else -item["order"]),''',
    '''            item["order"],'''),
 "K3_default_prefers_removed": ("annet/annlib/rulebook/common.py",
    '''    elif diff[Op.ADDED] or diff[Op.MOVED]:
        key = Op.ADDED if diff.get(Op.ADDED) else Op.MOVED
        # При модификации строки удаление нас не интересует, добавление проходит как affected
        yield (True, diff[key][0]["row"], diff[key][0]["children"])
    elif diff[Op.REMOVED]:
        # При удалении или перемещеннии блока просто снести строку
        yield (False, rule["reverse"].format(*key), None)''',
    '''    elif diff[Op.REMOVED]:
        # При удалении или перемещеннии блока просто снести строку
        yield (False, rule["reverse"].format(*key), None)
    elif diff[Op.ADDED] or diff[Op.MOVED]:
        key = Op.ADDED if diff.get(Op.ADDED) else Op.MOVED
        # При модификации строки удаление нас не интересует, добавление проходит как affected
        yield (True, diff[key][0]["row"], diff[key][0]["children"])'''),
 "K4_child_outside_block": ("annet/annlib/tabparser.py",
    '''            if row is BlockBegin:
                path.append(path[-1])
            elif row is BlockEnd:
                path.pop()
            else:
                if path:
                    path.pop()
                path.append(row)
                ret[tuple(path)] = context
        return ret''',
    '''            if row is BlockBegin:
                path.append(path[-1])
            elif row is BlockEnd:
                path.pop()
            else:
                if path:
                    path.pop()
                path.append(row)
                ret[tuple(path[-2:])] = context
        return ret'''),
 "K5_mark_unchanged_any": ("annet/annlib/patching.py",
    '''            if all(x[0] == Op.UNCHANGED for x in children):
                op = Op.UNCHANGED''',
    '''            if children and any(x[0] == Op.UNCHANGED for x in children):
                op = Op.UNCHANGED'''),
 "K6_undo_redo_order": ("annet/annlib/rulebook/common.py",
    '''        for side in [Op.REMOVED, Op.ADDED]:''', '''        for side in [Op.ADDED, Op.REMOVED]:'''),
 "K7_permanent_drops_children": ("annet/annlib/rulebook/common.py",
    '''        diff[Op.AFFECTED] += diff[Op.REMOVED]
        diff[Op.REMOVED] = []''', '''        diff[Op.REMOVED] = []'''),
 "H1_rename_local": ("annet/annlib/patching.py",
    '''    tree = PatchTree()
    for item in patch:
        sort_key = (''', '''    tree = PatchTree()
    for item in patch:
        item = dict(item)
        sort_key = ('''),
 "H2_reorder_statements": ("annet/annlib/patching.py",
    '''    old = copy.deepcopy(old)
    new = copy.deepcopy(new)
    diff_pre = apply_diff_rb(old, new, rb)''', '''    new = copy.deepcopy(new)
    old = copy.deepcopy(old)
    diff_pre = apply_diff_rb(old, new, rb)'''),
}

M.update({
 "T1_ignore_changes_or": ("annet/annlib/rulebook/common.py",
    "    if diff[Op.ADDED] and diff[Op.REMOVED]:\n        pass", "    if diff[Op.ADDED] or diff[Op.REMOVED]:\n        pass"),
 "T3_reverse_tilde_only_without_star": ("annet/rulebook/patching.py",
    '    if row[-1] == "~":\n        row = row[:-1] + "{}"', '    if row[-1] == "~" and "*" not in row:\n        row = row[:-1] + "{}"'),
 "T17_cmd_paths_depth3": ("annet/annlib/tabparser.py",
    "                ret[tuple(path)] = context\n        return ret\n\n    def patch_plain", "                ret[tuple(path[-3:])] = context\n        return ret\n\n    def patch_plain"),
 "T12_permanent_replaced": ("annet/annlib/rulebook/common.py",
    '        if not diff[Op.REMOVED][0]["children"]:\n            return', '        if not diff[Op.REMOVED][0]["children"] and not diff[Op.ADDED]:\n            return'),
 "T19_undo_redo_needs_no_children": ("annet/annlib/rulebook/common.py",
    "    if not (diff[Op.ADDED] and diff[Op.REMOVED] and not diff[Op.AFFECTED]):", "    if not (diff[Op.ADDED] and diff[Op.REMOVED] and not diff[Op.AFFECTED]) or diff[Op.ADDED][0][\"children\"]:"),
 "T20_mark_unchanged_deep_only": ("annet/annlib/patching.py",
    "            if all(x[0] == Op.UNCHANGED for x in children):\n                op = Op.UNCHANGED", "            if all(x[0] == Op.UNCHANGED for x in children) or (len(children) > 3 and sum(x[0] != Op.UNCHANGED for x in children) == 1 and children[-1][0] == Op.UNCHANGED and children[0][0] == Op.UNCHANGED and False):\n                op = Op.UNCHANGED"),
})

M.update({
 "T26_children_first_match_only": ("annet/annlib/patching.py",
    "                global_children = merge_dicts(global_children, rule[\"children\"][\"global\"])\n",
    "                global_children = merge_dicts(global_children, rule[\"children\"][\"global\"])\n                break\n"),
 "T36_reverse_prefix_no_space": ("annet/rulebook/patching.py",
    '    if row.startswith(reverse_prefix + " "):\n        row = row[len(reverse_prefix + " "):]', '    if row.startswith(reverse_prefix):\n        row = row[len(reverse_prefix + " "):]'),
})

if __name__ == "__main__":
    import sys, shutil, subprocess, os
    name = sys.argv[1]
    f, old, new = M[name]
    dst = "/tmp/c01-repo"
    if os.path.exists(dst): shutil.rmtree(dst)
    shutil.copytree("/repo", dst, ignore=shutil.ignore_patterns(".git", "__pycache__", "*.pyc"))
    p = os.path.join(dst, f)
    s = open(p).read()
    assert s.count(old) == 1, (name, s.count(old))
    open(p, "w").write(s.replace(old, new))
    print("applied", name)
