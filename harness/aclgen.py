"""Structured ACLs for the C06 / C02 / C10 checks: generator, ACL-text printer, Coq printer.

A *structured ACL* is a list of item dicts (one per text line, children nested)

    {"pat": "interface *",          # the rule row (plain rule language of Model/Pattern.v)
     "ign": False,                   # "!row" (compile_acl_text refuses these: NotImplementedError)
     "glob": False,                  # %global
     "cd": None | [True, False],     # %cant_delete=1,0   (None: the built-in default applies)
     "prio": 0,                      # %prio=N (printed only when != 0 or "prio_explicit")
     "gens": [],                     # %generator_names=a,b
     "kids": [...]}

`acl_text(items)` is what the real `compile_acl_text` is fed, `coq_acl(items)` the value
of type `Annet.Model.Acl.acl` (= list aitem) the Coq model `compile_acl` is fed.  The text of
two ACLs merged is `acl_text(A) + "\n" + acl_text(B)`, the Coq value `A ++ B`.

Importable by other property modules:  from ..aclgen import gen_acl, acl_text, coq_acl,
gen_tree, coq_avendor, ACL_IMPORTS, VENDORS
"""
from __future__ import annotations

import random

from .core import cstr, clist, cbool, cnat, copt

LIT = ["alpha", "beta", "gamma", "mtu", "ip", "peer", "vlan", "interface", "port", "system", "interfaces"]
VAL = ["1", "2", "3", "x", "y", "10.0.0.1", "Eth1", "interfaces", "0"]
GENS = ["g1", "g2", "g3"]

# vendor -> reverse prefix (registry[vendor].reverse); only "juniper" strips "inactive: "
VENDORS = {
    "huawei": "undo", "h3c": "undo", "optixtrans": "undo",
    "cisco": "no", "nexus": "no", "iosxr": "no", "arista": "no", "aruba": "no", "b4com": "no",
    "juniper": "delete", "ribbon": "delete", "nokia": "delete",
    "routeros": "remove", "pc": "-",
}
ACL_VENDORS = ["huawei", "cisco", "arista", "juniper", "nokia", "routeros", "pc", "iosxr"]

ACL_IMPORTS = "From Annet Require Import Base.Str Base.Tree Model.Pattern Model.Acl."


def coq_avendor(v: str) -> str:
    return f"(AVendor {cstr(VENDORS[v])} {cbool(v == 'juniper')})"


# ------------------------------------------------------------------ text / Coq printers

def raw_rule(it: dict) -> str:
    s = ("!" if it.get("ign") else "") + it["pat"]
    if it.get("glob"):
        s += " %global"
    if it.get("cd") is not None:
        cd = it["cd"]
        s += " %cant_delete" if cd == [True] and it.get("cd_bare") else \
             " %cant_delete=" + ",".join("1" if b else "0" for b in cd)
    if it.get("prio", 0) != 0 or it.get("prio_explicit"):
        s += f" %prio={it.get('prio', 0)}"
    if it.get("gens"):
        s += " %generator_names=" + ",".join(it["gens"])
    return s


def acl_text(items: list[dict], level: int = 0) -> str:
    lines = []
    for it in items:
        lines.append("    " * level + raw_rule(it))
        if it.get("kids"):
            lines.append(acl_text(it["kids"], level + 1))
    return "\n".join(lines)


def coq_aitem(it: dict) -> str:
    cd = copt(None if it.get("cd") is None else clist(cbool(b) for b in it["cd"]))
    return (f"(AItem {cstr(raw_rule(it))} {cstr(it['pat'])} {cbool(bool(it.get('ign')))} "
            f"{cbool(bool(it.get('glob')))} {cd} {cnat(it.get('prio', 0))} "
            f"{clist(cstr(g) for g in it.get('gens', []))} {coq_acl(it.get('kids', []))})")


def coq_acl(items: list[dict]) -> str:
    return clist(coq_aitem(it) for it in items)


# ------------------------------------------------------------------ generator

def gen_pattern(rng: random.Random, rev: str, used: set) -> str:
    p = ""
    for _ in range(20):
        n = rng.choice([1, 1, 2, 2, 3])
        toks = [rng.choice(LIT)]
        if rng.random() < 0.06:
            toks = [rev + rng.choice(["body", "x", "-flag"])]    # starts with the prefix, without the blank
        for _ in range(n - 1):
            toks.append(rng.choice(LIT + VAL[:3] + ["*", "*", "*", "*"]))
        r = rng.random()
        if r < 0.12:
            toks.append("~")
        elif r < 0.2 and toks[-1] == "*":
            toks[-1] = "*/[a-z0-9]+/"
        elif r < 0.24:
            toks = ["~"]
        elif r < 0.27:
            toks = ["*"]
        if rng.random() < 0.07 and toks[0] not in ("~", "*"):
            toks.insert(0, rev)                      # a rule written in the reverse form
        p = " ".join(toks)
        if p not in used:
            break
    used.add(p)
    return p


def gen_item(rng: random.Random, pat: str, rev: str, depth: int, max_depth: int, aligned: bool) -> dict:
    it = {"pat": pat, "ign": False, "glob": False, "cd": None, "prio": 0, "gens": [], "kids": []}
    if rng.random() < 0.12:
        it["glob"] = True
    x = rng.random()
    if x < 0.2:
        it["cd"] = [True]
        it["cd_bare"] = rng.random() < 0.5
    elif x < 0.32:
        it["cd"] = [False]
    elif x < 0.36 and not aligned:
        it["cd"] = [rng.random() < 0.5 for _ in range(2)]
    if rng.random() < 0.15:
        it["prio"] = rng.choice([0, 1, 1, 2, 5])
        it["prio_explicit"] = True
    if rng.random() < 0.5:
        n = len(it["cd"]) if (aligned and it["cd"] is not None) else (1 if aligned else rng.choice([1, 1, 2]))
        it["gens"] = [rng.choice(GENS) for _ in range(n)]
    if depth < max_depth and rng.random() < (0.55 if depth == 0 else 0.35):
        it["kids"] = gen_acl(rng, rev, depth + 1, max_depth, (1, 4), aligned)
    return it


def gen_acl(rng: random.Random, rev: str, depth: int = 0, max_depth: int = 3, width=(1, 5),
            aligned: bool = True, ign_rate: float = 0.0) -> list[dict]:
    """aligned: every rule has as many generator names as cant_delete flags (or none) — what
    annet.generators builds; only then is the `exclusive` check independent of hidden state."""
    used: set = set()
    out = []
    for _ in range(rng.randint(*width)):
        out.append(gen_item(rng, gen_pattern(rng, rev, used), rev, depth, max_depth, aligned))
    # an overlapping, more specific sibling ("foo *" next to "foo 1"), sharing some children rules
    if out and rng.random() < 0.35:
        base = rng.choice(out)
        if "*" in base["pat"].split():
            spec = " ".join(rng.choice(VAL[:3]) if t == "*" else t for t in base["pat"].split())
            if spec not in used:
                used.add(spec)
                it = gen_item(rng, spec, rev, depth, max_depth, aligned)
                if base["kids"] and rng.random() < 0.6:
                    it["kids"] = [dict(k, **({"cd": [not (k["cd"] or [False])[0]]} if rng.random() < 0.3 else {}))
                                  for k in base["kids"] if rng.random() < 0.7] + \
                                 (it["kids"] if rng.random() < 0.5 else [])
                    it["glob"] = False
                out.insert(rng.randrange(len(out) + 1), it)
    # the same row twice with other parameters (united by _merge_toplevel)
    if out and rng.random() < 0.15:
        base = rng.choice(out)
        it = gen_item(rng, base["pat"], rev, depth, max_depth, aligned)
        if rng.random() < 0.6:                       # united by max(): make the priorities differ
            it["prio"], it["prio_explicit"] = rng.choice([1, 2, 3]), True
        out.append(it)
    # the very same line twice (merged by the text parser)
    if out and rng.random() < 0.06:
        base = rng.choice(out)
        out.append(dict(base, kids=gen_acl(rng, rev, depth + 1, max_depth, (1, 2), aligned) if depth < max_depth else []))
    if ign_rate and rng.random() < ign_rate:
        out.insert(rng.randrange(len(out) + 1),
                   {"pat": gen_pattern(rng, rev, used), "ign": True, "glob": False, "cd": None, "prio": 0,
                    "gens": [], "kids": []})
    for it in out:
        if it["glob"]:
            it["kids"] = it["kids"] if rng.random() < 0.2 else []
    return out


def gen_acl_variant(rng: random.Random, a: list[dict], rev: str, aligned: bool = True) -> list[dict]:
    """A second ACL related to `a`: shares lines, changes parameters of some, adds others."""
    out = []
    for it in a:
        x = rng.random()
        if x < 0.35:
            continue
        if x < 0.55:
            out.append(dict(it, kids=gen_acl_variant(rng, it["kids"], rev, aligned)))
        elif x < 0.8:
            n = gen_item(rng, it["pat"], rev, 3, 3, aligned)
            n["kids"] = gen_acl_variant(rng, it["kids"], rev, aligned) if not n["glob"] else []
            out.append(n)
        else:
            out.append(it)
    out += gen_acl(rng, rev, 1, 3, (0, 3), aligned)
    if rng.random() < 0.3:
        rng.shuffle(out)
    return out


def inst(rng: random.Random, pat: str, extra: bool = True) -> str:
    ws = []
    for t in pat.split():
        if t == "*":
            ws.append(rng.choice(VAL))
        elif t.startswith("*/"):
            ws.append(rng.choice(["a1", "b2", "zz"]))
        elif t == "~":
            ws.extend(rng.sample(VAL + LIT, rng.randint(1, 2)))
        else:
            ws.append(t)
    if extra and not pat.endswith("~") and rng.random() < 0.35:
        ws.extend(rng.sample(VAL, rng.randint(1, 2)))
    return " ".join(ws)


def gen_tree(rng: random.Random, acl: list[dict], vendor: str, depth: int = 0, inherited: list | None = None,
             density: float = 0.75, noise: float = 0.2, budget: list | None = None) -> dict:
    """A config tree mostly drawn from the ACL: instances of its rows, their reverse forms,
    rows for inherited %global rules, uncovered rows."""
    rev = VENDORS[vendor]
    inherited = list(inherited or [])
    budget = [60] if budget is None else budget          # at most ~60 rows per tree
    t: dict = {}
    glob_here = [it for it in acl if it.get("glob") and not it.get("ign")]
    for it in acl + [g for g in inherited if rng.random() < 0.4]:
        if rng.random() > density:
            continue
        holes = "*" in it["pat"] or "~" in it["pat"]
        for _ in range(rng.choice([1, 1, 2, 3]) if holes else 1):
            row = inst(rng, it["pat"])
            x = rng.random()
            if x < 0.12:
                row = row[len(rev) + 1:] if row.startswith(rev + " ") else rev + " " + row
            elif x < 0.16 and vendor == "juniper":
                row = "inactive: " + row
            if not row or row in t or budget[0] <= 0:
                continue
            budget[0] -= 1
            kids_src = list(it.get("kids", []))
            # children rules of every rule with the same row are united; sometimes borrow a sibling's
            for other in acl:
                if other is not it and other.get("kids") and rng.random() < 0.25:
                    kids_src += other["kids"]
            if depth < 4 and (kids_src or inherited or glob_here) and rng.random() < 0.8:
                t[row] = gen_tree(rng, kids_src, vendor, depth + 1, inherited + glob_here, density, noise, budget)
            else:
                t[row] = {}
    if rng.random() < noise:
        t["unknown " + rng.choice(VAL)] = {} if rng.random() < 0.7 else {"alpha 1": {}}
    if rng.random() < noise / 2:
        t[rev + " " + rng.choice(LIT) + " " + rng.choice(VAL)] = {}
    items = list(t.items())
    rng.shuffle(items)
    return dict(items)


def acl_size(items: list[dict]) -> int:
    return sum(1 + acl_size(it.get("kids", [])) for it in items)


def acl_depth(items: list[dict]) -> int:
    return 0 if not items else 1 + max(acl_depth(it.get("kids", [])) for it in items)


# ------------------------------------------------------------------ targeted families

def _it(pat, **kw):
    d = {"pat": pat, "ign": False, "glob": False, "cd": None, "prio": 0, "gens": [], "kids": []}
    d.update(kw)
    return d


def gen_acl_overlap(rng: random.Random, rev: str) -> tuple[list[dict], dict]:
    """Several rules matching the same rows, each owned by one of two or three generators with
    mixed cant_delete flags: what the `exclusive` check of match_row_to_acl looks at."""
    base = rng.choice(["alpha", "port", "vlan"])
    pats = [f"{base} *", f"{base} 1", f"{base} ~", "~", "* 1", f"{base} * x", f"{rev} {base} *"]
    rng.shuffle(pats)
    names = GENS[:rng.choice([2, 2, 3])]
    acl = []
    for p in pats[: rng.randint(2, 5)]:
        it = _it(p, cd=[rng.random() < 0.5], gens=[rng.choice(names)])
        if rng.random() < 0.15:
            it["glob"] = True
        if rng.random() < 0.15:
            it["prio"], it["prio_explicit"] = rng.choice([1, 2]), True
        if rng.random() < 0.3 and not it["glob"]:
            it["kids"] = [_it("~", cd=[rng.random() < 0.5], gens=[rng.choice(names)]),
                          _it("mtu *", cd=[rng.random() < 0.5], gens=[rng.choice(names)])][: rng.randint(1, 2)]
        acl.append(it)
    tree = {}
    for row in [f"{base} 1", f"{base} 2", f"{base} 1 x", f"{rev} {base} 1", "beta 1", f"{base}"]:
        if rng.random() < 0.7:
            tree[row] = {"mtu 9000": {}, "ip x": {}} if rng.random() < 0.5 else {}
    return acl, tree


def gen_acl_shared_children(rng: random.Random, rev: str) -> tuple[list[list[dict]], dict]:
    """Two (or three) generators' ACLs whose parent rules overlap on SOME rows only: P = `w *` with a child
    block rule that has children of its own, Q = a more specific sibling (`w */a[0-9]+/` or a literal) that
    contributes %global rules.  A row matched by both is governed by the union of the children rule sets;
    a row matched by P alone must see P's children only - whatever was computed for other rows before it
    (the compiled ACL is cached per text and shared by every row, pass and device of a process).
    Returns (one structured ACL per generator, a tree in which rows of both kinds sit side by side, in either
    order, each with rows that only Q's %global rules would pass)."""
    w, u = rng.sample(["port", "vlan", "peer", "system", "interface"], 2)
    d, f, g = rng.sample(["alpha", "beta", "gamma", "mtu", "ip"], 3)
    spec = rng.choice([f"{w} */a[0-9]+/", f"{w} a1", f"{w} */a[0-9]+/"])
    deep = rng.random() < 0.7
    p_kids = [_it(f"{u} *", kids=[_it(f"{d} ~")] if deep else [])]
    if not deep:
        p_kids.append(_it(f"{d} ~"))
    P = _it(f"{w} *", cd=rng.choice([None, [True], [False]]), kids=p_kids)
    q_kids = [_it(f"{f} ~", glob=True)]
    if rng.random() < 0.6:
        q_kids.append(_it(f"{g} *", glob=True, cd=[rng.random() < 0.5]))
    if rng.random() < 0.3:
        q_kids.append(_it(f"{u} *", kids=[_it(f"{g} ~")]))
    Q = _it(spec, kids=q_kids)
    parts = [[P], [Q]]
    if rng.random() < 0.3:
        parts.append([_it(f"{w} */b[0-9]+/", kids=[_it(f"{g} ~", glob=rng.random() < 0.5)])])
    if rng.random() < 0.3:
        parts.reverse()
    if rng.random() < 0.35:                       # the overlapping rules one level down, under a common wrapper
        wrap = rng.choice(["system", "interfaces", "alpha"])
        parts = [[_it(wrap, kids=p)] for p in parts]
    else:
        wrap = None

    def body(k):
        inner = {f"{d} x{k}": {}, f"{f} inet": {}, f"{g} 7": {}}
        t = {f"{u} 0": dict(inner) if deep else {f"{f} inet": {}}, f"{f} top{k}": {}}
        if not deep:
            t[f"{d} y{k}"] = {}
        if rng.random() < 0.4:
            t[f"{u} 1"] = {f"{d} z": {}}
        return t
    rows = [(f"{w} a1", body(1)), (f"{w} x2", body(2))]
    if rng.random() < 0.5:
        rows.append((f"{w} b3", body(3)))
    if rng.random() < 0.3:
        rows.append((f"{w} a9", body(9)))
    if rng.random() < 0.3:
        rows.reverse()
    tree = dict(rows)
    if rng.random() < 0.3:
        tree[f"{f} outside"] = {}
    if wrap:
        tree = {wrap: tree}
    return parts, tree


def gen_acl_conflict(rng: random.Random, rev: str) -> tuple[list[dict], dict]:
    """Two rules matching the same row contribute the same child row with different parameters
    (prio, cant_delete), and a competitor of another kind (a %global rule, or the reverse form of
    a cant_delete rule) sits between them: which parameters survive the merge of the children
    rules decides who governs the child row."""
    p1, p2, pg = rng.sample([0, 1, 2, 3], 3) if rng.random() < 0.7 else [rng.randint(0, 2) for _ in range(3)]
    kid = rng.choice(["k ~", "k *", "k"])
    k1 = _it(kid, prio=p1, prio_explicit=True, kids=[_it("x")], cd=[rng.random() < 0.3])
    k2 = _it(kid, prio=p2, prio_explicit=True, kids=[_it("y")], cd=[rng.random() < 0.3])
    comp = rng.choice(["global", "global-child", "reverse"])
    acl = [_it("p *", kids=[k1]), _it("p 1", kids=[k2])]
    if rng.random() < 0.5:
        acl.reverse()
    if comp == "global":
        acl.append(_it("k *", glob=True, prio=pg, prio_explicit=True))
    elif comp == "global-child":
        acl[0]["kids"].append(_it("k 5", glob=True, prio=pg, prio_explicit=True))
    else:
        acl[rng.randrange(2)]["kids"].append(_it(f"{rev} k *", prio=pg, prio_explicit=True, cd=[True]))
    if rng.random() < 0.3:
        acl.insert(rng.randrange(len(acl) + 1), _it("~", glob=rng.random() < 0.5))
    tree = {"p 1": {"k 5": {"x": {}, "y": {}, "z": {}}, "k": {"x": {}}, f"{rev} k 5": {}},
            "p 2": {"k 5": {"x": {}, "y": {}}}}
    return acl, tree
