"""Shared machinery of the annet verification harness.

Every property module (harness/props/cNN.py) exposes

    ID            = "C05"
    THEOREM_FILE  = "Properties/C05.v"           (relative to /verif/coq)
    def run(ctx): ...                            (ctx : core.Ctx)

and uses the helpers below to (1) regenerate Gen/*.v from the repository, (2) build
the Coq development, (3) run the real implementation on generated inputs, (4) have
Coq evaluate `agree` / `holds` on the implementation outputs, (5) write evidence and
print the verdict lines required by the interface.
"""
from __future__ import annotations

import fcntl
import hashlib
import json
import os
import random
import re
import shutil
import subprocess
import sys
import time
from concurrent.futures import ThreadPoolExecutor
from dataclasses import dataclass, field
from pathlib import Path
from typing import Any, Callable, Iterable, Sequence

VERIF = Path(__file__).resolve().parent.parent
COQ = VERIF / "coq"
BUILD = VERIF / "build"
EVIDENCE = VERIF / "evidence"
REPLAYS = VERIF / "replays"
REPO = Path(os.environ.get("ANNET_VERIF_REPO", "/repo")).resolve()
PY = os.environ.get("ANNET_VERIF_PYTHON", "/venv/bin/python")
NPROC = int(os.environ.get("VERIF_JOBS", "16"))

HYGIENE_RE = re.compile(
    r"\b(Admitted|admit|Axiom|Axioms|Parameter|Parameters|Conjecture|Conjectures|Admit Obligations)\b"
    r"|Unset\s+Guard|bypass_check|type-in-type|impredicative-set|Unset\s+Universe\s+Checking"
    r"|Unset\s+Positivity"
)

KERNEL_TB = [
    "Coq 8.16.1 kernel and its bytecode VM (vm_compute; no native_compute)",
    "harness: input generators, implementation runners, Coq term printers (harness/*.py)",
    "hand-written Gallina models in coq/Model are tied to /repo only through the "
    "correspondence run and the regenerated coq/Gen tables",
]


class CheckFailure(Exception):
    """Raised for infrastructure failures (treated as broken tie, fail closed)."""


# --------------------------------------------------------------------------------------
# Coq term printers


def cstr(s: str) -> str:
    """Coq string literal (string_scope)."""
    for ch in s:
        o = ord(ch)
        if o > 126 or (o < 32 and ch not in "\n\t"):
            raise CheckFailure(f"non-printable character in Coq literal: {s!r}")
    return '"' + s.replace('"', '""') + '"'


def clist(items: Iterable[str]) -> str:
    return "[" + "; ".join(items) + "]"


def cpair(*xs: str) -> str:
    return "(" + ", ".join(xs) + ")"


def cnat(n: int) -> str:
    assert 0 <= n < 5000, n
    return f"{n}%nat"


def cN(n: int) -> str:
    assert n >= 0
    return f"{n}%N"


def cZ(n: int) -> str:
    return f"({n})%Z"


def cbool(b: bool) -> str:
    return "true" if b else "false"


def copt(x: str | None) -> str:
    return "None" if x is None else f"(Some {x})"


def ctree(t: dict) -> str:
    """odict tree -> Annet.Base.Tree.tree term."""
    return "(T " + clist(cpair(cstr(k), ctree(v)) for k, v in t.items()) + ")"


def cforest(t: dict) -> str:
    return clist(cpair(cstr(k), ctree(v)) for k, v in t.items())


# --------------------------------------------------------------------------------------


def sh(cmd: Sequence[str] | str, *, timeout: int, cwd: Path | None = None, env=None,
       input: str | None = None, check=False) -> subprocess.CompletedProcess:
    if isinstance(cmd, str):
        cmd = ["bash", "-c", cmd]
    try:
        p = subprocess.run(cmd, cwd=cwd, env=env, input=input, capture_output=True,
                           text=True, timeout=timeout)
    except subprocess.TimeoutExpired as e:
        raise CheckFailure(f"timeout after {timeout}s: {cmd}") from e
    if check and p.returncode != 0:
        raise CheckFailure(f"command failed ({p.returncode}): {cmd}\n{p.stdout[-3000:]}\n{p.stderr[-3000:]}")
    return p


def impl_env(extra: dict | None = None) -> dict:
    env = dict(os.environ)
    env["PYTHONPATH"] = f"{REPO}:{VERIF / 'harness' / 'impl'}"
    env["PYTHONHASHSEED"] = "0"
    env["ANNET_VERIF"] = "1"
    env["ANNET_VERIF_REPO_ROOT"] = str(REPO)
    env["PYTHONDONTWRITEBYTECODE"] = "1"
    env.pop("VIRTUAL_ENV", None)
    if extra:
        env.update(extra)
    return env


def run_impl(script: str, payload: Any, *, timeout: int = 600, extra_env=None) -> Any:
    """Run harness/impl/<script> under the repository's interpreter with JSON on stdin,
    JSON on stdout.  The script imports the *real* annet from REPO."""
    p = sh([PY, str(VERIF / "harness" / "impl" / script)], timeout=timeout,
           env=impl_env(extra_env), input=json.dumps(payload), cwd=BUILD)
    if p.returncode != 0:
        raise CheckFailure(f"implementation runner {script} failed:\n{p.stderr[-4000:]}")
    out = p.stdout
    # runners print one JSON document on the last line
    line = out.strip().splitlines()[-1]
    return json.loads(line)


def run_impl_sharded(script: str, payloads: list, *, shards: int | None = None,
                     timeout: int = 900, extra_env=None, wrap: Callable[[list], Any] | None = None) -> list:
    """Split a list of cases over several runner processes; results concatenated in order."""
    shards = shards or min(NPROC, max(1, len(payloads) // 50))
    chunks = [payloads[i::shards] for i in range(shards)]
    wrap = wrap or (lambda c: c)
    with ThreadPoolExecutor(max_workers=shards) as ex:
        outs = list(ex.map(lambda c: run_impl(script, wrap(c), timeout=timeout, extra_env=extra_env) if c else [], chunks))
    res: list = [None] * len(payloads)
    for s, o in enumerate(outs):
        if len(o) != len(chunks[s]):
            raise CheckFailure(f"runner {script} returned {len(o)} results for {len(chunks[s])} cases")
        for j, r in enumerate(o):
            res[s + j * shards] = r
    return res


# --------------------------------------------------------------------------------------
# Coq build


def dep_closure(rel: str) -> list[Path]:
    """Transitive .v dependencies (inside coq/) of coq/<rel>, via coqdep."""
    files = sorted(str(p.relative_to(COQ)) for p in COQ.rglob("*.v") if not p.name.startswith("_"))
    p = sh(["coqdep", "-Q", ".", "Annet"] + files, cwd=COQ, timeout=120)
    deps: dict[str, list[str]] = {}
    for line in p.stdout.splitlines():
        if ":" not in line:
            continue
        lhs, rhs = line.split(":", 1)
        tgt = [t for t in lhs.split() if t.endswith(".vo")]
        if not tgt:
            continue
        deps[tgt[0][:-1]] = [d[:-1] for d in rhs.split() if d.endswith(".vo")]
    seen, todo = set(), [rel]
    while todo:
        f = todo.pop()
        f = os.path.normpath(f)
        if f in seen:
            continue
        seen.add(f)
        todo.extend(deps.get(f, []))
    return [COQ / f for f in sorted(seen)]


def hygiene(scope: Sequence[Path] | None = None) -> list[str]:
    bad = []
    files = sorted(p for p in COQ.rglob("*.v") if not p.name.startswith("_")) if scope is None else list(scope)
    for f in files:
        if not f.exists():      # a Gen table whose translator failed closed: the build reports it
            continue
        txt = f.read_text()
        # strip comments (innermost first, repeated for nesting)
        prev = None
        while prev != txt:
            prev = txt
            txt = re.sub(r"\(\*(?:(?!\(\*|\*\)).)*\*\)", lambda m: "\n" * m.group(0).count("\n"), txt, flags=re.S)
        # strip string literals
        txt = re.sub(r'"(?:[^"]|"")*"', lambda m: '""' + "\n" * m.group(0).count("\n"), txt)
        depth = 0
        for n, line in enumerate(txt.splitlines(), 1):
            if re.match(r"\s*Section\b", line):
                depth += 1
            if re.match(r"\s*End\b", line) and depth > 0:
                depth -= 1
            if HYGIENE_RE.search(line):
                bad.append(f"{f.relative_to(VERIF)}:{n}: {line.strip()}")
            if depth == 0 and re.match(r"\s*(Variable|Variables|Hypothesis|Hypotheses|Context)\b", line):
                bad.append(f"{f.relative_to(VERIF)}:{n}: (outside section) {line.strip()}")
    return bad


class _Lock:
    def __init__(self, name):
        BUILD.mkdir(exist_ok=True)
        self.path = BUILD / name

    def __enter__(self):
        self.f = open(self.path, "w")
        fcntl.flock(self.f, fcntl.LOCK_EX)

    def __exit__(self, *a):
        fcntl.flock(self.f, fcntl.LOCK_UN)
        self.f.close()


def write_if_changed(path: Path, text: str) -> bool:
    if path.exists() and path.read_text() == text:
        return False
    path.parent.mkdir(parents=True, exist_ok=True)
    path.write_text(text)
    return True


def coq_project() -> None:
    files = sorted(str(p.relative_to(COQ)) for p in COQ.rglob("*.v") if not p.name.startswith("_"))
    txt = "-Q . Annet\n-arg -w -arg -notation-overridden,-deprecated\n" + "\n".join(files) + "\n"
    changed = write_if_changed(COQ / "_CoqProject", txt)
    if changed or not (COQ / "Makefile").exists():
        sh(["coq_makefile", "-f", "_CoqProject", "-o", "Makefile"], cwd=COQ, timeout=120, check=True)


def translate_all() -> dict:
    """Regenerate every coq/Gen/Src_*.v from REPO (fail closed)."""
    from . import translators
    return translators.run_all(REPO, COQ / "Gen")


GENREF = COQ / "GenRef"


def refresh_genref() -> list[str]:
    """Copy the tables just regenerated from the (unchanged) repository to coq/GenRef/*.v.ref (committed)."""
    GENREF.mkdir(exist_ok=True)
    names = []
    for f in sorted((COQ / "Gen").glob("*.v")):
        write_if_changed(GENREF / (f.name + ".ref"), f.read_text())
        names.append(f.name)
    for f in GENREF.glob("*.v.ref"):
        if f.name[:-4] not in names:
            f.unlink()
    return names


def install_genref_fallback() -> list[str]:
    """Search mode only.  A translator that fails closed leaves no table, so nothing that imports the table
    builds - including the models the search for a failing input needs.  The reference copy of the table (what
    the translator produced for the unchanged tree, committed under coq/GenRef) is put in its place so that the
    correspondence run can go on and look for a concrete input; the broken tie itself has already been
    registered as a violation by the caller and is not undone by this."""
    used = []
    for f in sorted(GENREF.glob("*.v.ref")) if GENREF.exists() else []:
        dst = COQ / "Gen" / f.name[:-4]
        if not dst.exists():
            dst.write_text(f.read_text())
            used.append(dst.name)
    return used


def make(targets: Sequence[str] = (), timeout: int = 1500) -> subprocess.CompletedProcess:
    with _Lock("make.lock"):
        coq_project()
        cmd = ["make", f"-j{NPROC}"] + list(targets)
        return sh(["timeout", str(timeout)] + cmd, cwd=COQ, timeout=timeout + 30)


class _CoqSlot:
    """Machine-wide cap on concurrently running case-file coqc processes (each needs 0.3-1 GB): several
    checks, drills and agents may run at once.  Pure throttling: lock files are created on demand."""
    DIR = Path(os.environ.get("VERIF_SLOT_DIR", "/tmp/annet-verif-coqc-slots"))
    N = int(os.environ.get("VERIF_COQC_SLOTS", "20"))

    def __enter__(self):
        self.DIR.mkdir(parents=True, exist_ok=True)
        k = os.getpid()
        while True:
            for i in range(self.N):
                f = open(self.DIR / f"slot-{(k + i) % self.N}", "w")
                try:
                    fcntl.flock(f, fcntl.LOCK_EX | fcntl.LOCK_NB)
                    self.f = f
                    return self
                except OSError:
                    f.close()
            time.sleep(0.2)

    def __exit__(self, *a):
        fcntl.flock(self.f, fcntl.LOCK_UN)
        self.f.close()


def coqc_file(path: Path, timeout: int = 600) -> subprocess.CompletedProcess:
    with _CoqSlot():
        return _coqc_file(path, timeout)


def _coqc_file(path: Path, timeout: int = 600) -> subprocess.CompletedProcess:
    return sh(["timeout", str(timeout), "coqc", "-Q", str(COQ), "Annet", "-w",
               "-notation-overridden,-deprecated", str(path)], cwd=path.parent, timeout=timeout + 30)


@dataclass
class TheoremReport:
    file: str
    theorems: list[str]
    compiled: bool
    assumptions: dict[str, str]
    log: str
    cmd: str


def check_theorems(rel: str) -> TheoremReport:
    """Build Properties/Cnn.vo with make (dependencies included), then re-run coqc on the
    property file itself to capture the Print Assumptions output of this very run."""
    src = COQ / rel
    text = src.read_text()
    names = re.findall(r"^\s*Theorem\s+([A-Za-z0-9_']+)", text, flags=re.M)
    vo = rel[:-2] + ".vo"
    cmd = f"cd coq && make -j{NPROC} {vo} && coqc -Q . Annet {rel}"
    p = make([vo])
    if p.returncode != 0:
        return TheoremReport(rel, names, False, {}, (p.stdout + p.stderr)[-6000:], cmd)
    q = coqc_file(src)
    if q.returncode != 0:
        return TheoremReport(rel, names, False, {}, (q.stdout + q.stderr)[-6000:], cmd)
    out = q.stdout
    # Print Assumptions blocks appear in order of the commands in the file
    blocks = re.split(r"(?=^Closed under the global context|^Axioms:|^Section Variables:)", out, flags=re.M)
    blocks = [b.strip() for b in blocks if b.strip().startswith(("Closed", "Axioms", "Section"))]
    printed = re.findall(r"Print\s+Assumptions\s+([A-Za-z0-9_'.]+)\s*\.", text)
    assum = {}
    for i, n in enumerate(printed):
        assum[n] = blocks[i] if i < len(blocks) else "<missing>"
    return TheoremReport(rel, names, True, assum, out[-3000:], cmd)


# --------------------------------------------------------------------------------------
# Case files: Coq evaluates agree/holds on implementation outputs

CASE_HEADER = """From Coq Require Import List String Bool Arith ZArith NArith Ascii.
Import ListNotations.
Open Scope string_scope.
Open Scope list_scope.
{imports}
Definition cases : list (N * ({ty})) := [
{body}
].
Definition bad (f : ({ty}) -> bool) : list N :=
  map fst (filter (fun c => negb (f (snd c))) cases).
{evals}
"""


def _parse_natlist(chunk: str) -> list[int]:
    return [int(x) for x in re.findall(r"\d+", chunk.split(":")[0])]


def run_case_files(prop: str, ty: str, imports: str, preds: dict[str, str],
                   cases: list[str], *, per_file: int = 300, timeout: int = 900,
                   tag: str = "cases", extra_defs: str = "") -> dict[str, list[int]]:
    """cases[i] is a Coq term of type `ty`.  preds maps a label to a Coq function
    `ty -> bool`.  Returns label -> indices of cases where the predicate is false."""
    ensure_built(imports)
    d = BUILD / "cases" / prop / tag
    if d.exists():
        shutil.rmtree(d)
    d.mkdir(parents=True)
    files = []
    labels = list(preds)
    for k in range(0, len(cases), per_file):
        body = ";\n".join(f"({i}%N, {cases[i]})" for i in range(k, min(len(cases), k + per_file)))
        evals = "\n".join(
            f'Definition r_{j} := bad ({preds[l]}).\nEval vm_compute in r_{j}.' for j, l in enumerate(labels))
        txt = CASE_HEADER.format(imports=imports + "\n" + extra_defs, ty=ty, body=body, evals=evals)
        f = d / f"{tag}_{k // per_file}.v"
        f.write_text(txt)
        files.append(f)
    res = {l: [] for l in labels}

    def one(f: Path):
        p = coqc_file(f, timeout=timeout)
        if p.returncode != 0 and not (p.stdout + p.stderr).strip():
            # killed without a Coq message (out of memory on an oversubscribed machine): one retry
            time.sleep(5)
            p = coqc_file(f, timeout=timeout)
        if p.returncode != 0:
            raise CheckFailure(f"case file {f} failed to compile:\n{(p.stdout + p.stderr)[-3000:]}")
        parts = re.split(r"^\s*=\s", p.stdout, flags=re.M)[1:]
        if len(parts) != len(labels):
            raise CheckFailure(f"unexpected coqc output for {f}: {p.stdout[-2000:]}")
        return [_parse_natlist(c) for c in parts]

    with ThreadPoolExecutor(max_workers=NPROC) as ex:
        for out in ex.map(one, files):
            for l, idx in zip(labels, out):
                res[l].extend(idx)
    for f in files:  # keep disk small: remove compiled artefacts, keep sources for replay
        for ext in (".vo", ".vok", ".vos", ".glob"):
            f.with_suffix(ext).unlink(missing_ok=True)
        (f.parent / ("." + f.stem + ".aux")).unlink(missing_ok=True)
    return res


def ensure_built(imports: str) -> None:
    """make the .vo of every Annet module named in an import header (they may be stale)."""
    targets = []
    for m in re.finditer(r"From\s+Annet\s+Require\s+Import\s+(.*?)\.(?:\s|$)", imports, flags=re.S):
        for mod in m.group(1).split():
            targets.append(mod.replace(".", "/") + ".vo")
    if targets:
        p = make(sorted(set(targets)))
        if p.returncode != 0:
            raise CheckFailure("building case-file dependencies failed:\n" + (p.stdout + p.stderr)[-3000:])


def coq_eval(prop: str, imports: str, exprs: list[str], *, timeout: int = 600, tag="eval") -> list[str]:
    """Evaluate Coq expressions with vm_compute, return the printed values (text)."""
    d = BUILD / "cases" / prop
    d.mkdir(parents=True, exist_ok=True)
    f = d / f"{tag}.v"
    body = "\n".join(f"Eval vm_compute in ({e})." for e in exprs)
    f.write_text(CASE_HEADER.split("{imports}")[0] + imports + "\n" + body + "\n")
    p = coqc_file(f, timeout=timeout)
    if p.returncode != 0:
        raise CheckFailure(f"coq_eval failed:\n{(p.stdout + p.stderr)[-3000:]}")
    parts = re.split(r"^\s*=\s", p.stdout, flags=re.M)[1:]
    return [re.sub(r"\s+", " ", c.rsplit("\n     :", 1)[0]).strip() for c in parts]


# --------------------------------------------------------------------------------------
# Known findings, verdicts, evidence


def load_known() -> list[dict]:
    """known_findings.json (committed) plus per-property fragments known/Cnn.json."""
    out = []
    f = VERIF / "known_findings.json"
    if f.exists():
        out += json.loads(f.read_text())["findings"]
    for g in sorted((VERIF / "known").glob("*.json")) if (VERIF / "known").exists() else []:
        out += json.loads(g.read_text())["findings"]
    return out


@dataclass
class Violation:
    signature: str          # stable identifier of the failing class (matched with known findings)
    what: str               # human-readable
    replay: dict            # concrete failing input / or named theorem
    no_input: bool = False


@dataclass
class Ctx:
    prop: str
    tier: str
    seed: int
    t0: float = field(default_factory=time.time)
    violations: list[Violation] = field(default_factory=list)
    coverage: dict = field(default_factory=dict)
    assumptions: list[str] = field(default_factory=list)
    notes: list[str] = field(default_factory=list)

    def rng(self, salt: str = "") -> random.Random:
        return random.Random(f"{self.seed}/{self.prop}/{salt}")

    @property
    def thorough(self) -> bool:
        return self.tier == "thorough"

    def add_violation(self, v: Violation) -> None:
        self.violations.append(v)


def canon_hash(x: Any) -> str:
    return hashlib.sha1(json.dumps(x, sort_keys=True, default=str).encode()).hexdigest()


def finish(ctx: Ctx, level: str = "proof") -> int:
    """Print verdict lines, write evidence, return exit code."""
    known = [k for k in load_known() if k["property"] == ctx.prop]
    open_sigs = {k["signature"]: k for k in known if k.get("status") == "open"}
    unlisted: list[Violation] = []
    seen_known: dict[str, Violation] = {}
    for v in ctx.violations:
        if v.signature in open_sigs and not v.no_input:
            seen_known.setdefault(v.signature, v)
        else:
            unlisted.append(v)
    if any(not v.no_input for v in unlisted):
        unlisted = [v for v in unlisted if not v.no_input]
    for sig, v in seen_known.items():
        print(f"KNOWN-FINDING: property={ctx.prop} {sig}: {open_sigs[sig].get('what', v.what)}")
    rc = 0
    REPLAYS.mkdir(exist_ok=True)
    reported = set()
    for v in unlisted:
        if v.signature in reported:
            continue
        reported.add(v.signature)
        h = canon_hash([v.signature, v.replay])[:12]
        path = REPLAYS / f"{ctx.prop}-{h}.json"
        path.write_text(json.dumps({"property": ctx.prop, "signature": v.signature, "what": v.what,
                                    "seed": ctx.seed, "tier": ctx.tier, "replay": v.replay}, indent=1, default=str))
        tail = " no-failing-input-found" if v.no_input else ""
        print(f"VIOLATION property={ctx.prop} replay={path}{tail}")
        print(f"  ({v.signature}: {v.what})")
        rc = 1
    cov = dict(ctx.coverage)
    cov.setdefault("trusted_base", [])
    cov["known_findings_seen"] = sorted(seen_known)
    ev = {
        "property_id": ctx.prop,
        "tier": ctx.tier,
        "seed": ctx.seed,
        "level": level,
        "coverage": cov,
        "assumptions": ctx.assumptions,
        "wall_s": round(time.time() - ctx.t0, 2),
        "violations": len(reported),
        "notes": ctx.notes,
    }
    EVIDENCE.mkdir(exist_ok=True)
    (EVIDENCE / f"{ctx.prop}.json").write_text(json.dumps(ev, indent=1, default=str) + "\n")
    if rc == 0:
        print(f"OK property={ctx.prop} tier={ctx.tier} obligations={cov.get('discharged')}/{cov.get('obligations')} "
              f"evaluations={cov.get('evaluations')} wall={ev['wall_s']}s")
    return rc


def proof_stage(ctx: Ctx, rel: str, *, allowed_axioms: Sequence[str] = ()) -> TheoremReport:
    """Hygiene gate + translators + build + Print Assumptions audit.  Records coverage
    keys required for a proof-level claim; on failure registers a no-input violation that
    the property module may later replace by a concrete failing input."""
    gen = translate_all()
    bad = hygiene(dep_closure(rel))
    if bad:
        raise CheckFailure("hygiene gate failed:\n" + "\n".join(bad))
    rep = check_theorems(rel)
    ctx.coverage["obligations"] = len(rep.theorems)
    ctx.coverage["discharged"] = len(rep.theorems) if rep.compiled else 0
    ctx.coverage["checker_cmd"] = rep.cmd
    ctx.coverage["theorems"] = rep.theorems
    ctx.coverage["print_assumptions"] = rep.assumptions
    ctx.coverage["gen_tables"] = gen
    tb = list(KERNEL_TB)
    axioms = set()
    for n, b in rep.assumptions.items():
        if b.startswith("Closed"):
            continue
        for m in re.finditer(r"^([A-Za-z0-9_'.]+)\s*:", b, flags=re.M):
            axioms.add(m.group(1))
    for a in sorted(axioms):
        tb.append(f"axiom (Print Assumptions): {a}")
    ctx.coverage["trusted_base"] = tb
    if rep.compiled and ctx.thorough and os.environ.get("VERIF_NO_COQCHK") != "1":
        # independent re-check of the compiled theorem file and everything it depends on
        mod = "Annet." + rel[:-2].replace("/", ".")
        q = sh(["timeout", "1500", "coqchk", "-silent", "-o", "-Q", ".", "Annet", mod], cwd=COQ, timeout=1530)
        txt = q.stdout + q.stderr
        summary = txt[txt.find("CONTEXT SUMMARY"):] if "CONTEXT SUMMARY" in txt else txt[-2000:]
        ctx.coverage["coqchk"] = {"cmd": f"cd coq && coqchk -silent -o -Q . Annet {mod}", "rc": q.returncode,
                                  "summary": re.sub(r"\n\s*\n", "\n", summary)[:3000]}
        clean = all(re.search(r"\* " + re.escape(k) + r"[^\n]*<none>", summary) for k in
                    ("Constants/Inductives relying on type-in-type", "Constants/Inductives relying on unsafe (co)fixpoints",
                     "Inductives whose positivity is assumed"))
        if q.returncode != 0 or not clean:
            raise CheckFailure(f"coqchk failed or reports unsafe flags for {mod}:\n{txt[-2000:]}")
        m = re.search(r"\* Axioms:(.*?)(?=\n\* |\Z)", summary, flags=re.S)
        chk_axioms = [a.strip() for a in (m.group(1) if m else "").splitlines() if a.strip() and a.strip() != "<none>"]
        for a in chk_axioms:
            tb.append(f"axiom (coqchk -o, whole dependency closure incl. libraries): {a}")
        ctx.coverage["trusted_base"] = tb
    if not rep.compiled:
        ctx.add_violation(Violation(
            signature=f"{ctx.prop}/theorem-does-not-check",
            what=f"proof obligation in {rel} no longer checks against the current source tables/model",
            replay={"theorem_file": rel, "log": rep.log,
                    "translators": {k: v for k, v in gen.items() if str(v).startswith("TRANSLATOR FAILED")}},
            no_input=True))
        if any(str(v).startswith("TRANSLATOR FAILED") for v in gen.values()):
            used = install_genref_fallback()
            if used:
                ctx.coverage["gen_fallback_for_search"] = used
                ctx.notes.append("source tables " + ", ".join(used) + " could not be regenerated; the committed "
                                 "reference copies were used ONLY to keep the models executable while searching "
                                 "for a concrete failing input")
                make(["-k", rel[:-2] + ".vo"])
    else:
        extra = [a for a in axioms if a not in allowed_axioms]
        if extra or any(v == "<missing>" for v in rep.assumptions.values()):
            raise CheckFailure(f"unexpected axioms in {rel}: {extra} {rep.assumptions}")
        if len(rep.assumptions) < len(rep.theorems):
            raise CheckFailure(f"{rel}: every Theorem needs a Print Assumptions line")
    return rep


def samples_of(cases: list, n: int = 3) -> list:
    return cases[:n]
