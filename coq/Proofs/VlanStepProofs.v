(* C11: sanity theorems about the device semantics of the commands (Model.Vlan.step,
   Model.VlanDb.effect).  The semantics are definitions of the property; these theorems make them
   credible: extensionality, frame, idempotence, a command and its inverse, commutation of commands
   on disjoint VLAN sets, `undo ... all` / `none` = removal of the whole current set, replace =
   clear then add. *)
From Coq Require Import List String Bool Arith NArith Lia Permutation.
From Coq Require Import MSets.
From Annet Require Import Base.Str Model.Vlan Model.VlanDb Spec.P_C11 Proofs.VlanProofs.
Import ListNotations.
Open Scope list_scope.

(* the VLANs a command names; None = the whole list, whatever it holds *)
Definition touched (c : cmd) : option NS.t :=
  match c with
  | Add rs | Remove rs => Some (set_of_ranges rs)
  | RemoveAll | SetNone | SetTo _ => None
  end.

(* the command that undoes an add / a remove *)
Definition inverse (c : cmd) : option cmd :=
  match c with
  | Add rs => Some (Remove rs)
  | Remove rs => Some (Add rs)
  | _ => None
  end.

(* the result only depends on the set, not on how it is represented *)
Lemma step_equal c s s' : NS.Equal s s' -> NS.Equal (step c s) (step c s').
Proof. intro H. destruct c; cbn; try reflexivity; now rewrite H. Qed.

Lemma simulate_equal cs : forall s s', NS.Equal s s' -> NS.Equal (simulate cs s) (simulate cs s').
Proof.
  induction cs as [|c cs IH]; intros s s' H; cbn; [exact H|]. apply IH. now apply step_equal.
Qed.

(* frame: a VLAN the command does not name is left as it was *)
Lemma step_frame c t s v : touched c = Some t -> ~ NS.In v t -> (NS.In v (step c s) <-> NS.In v s).
Proof.
  destruct c; cbn; intro E; try discriminate E; injection E as <-; intro H.
  - rewrite NS.union_spec. tauto.
  - rewrite NS.diff_spec. tauto.
Qed.

(* inside the named set the command decides *)
Lemma step_add_in rs s v : NS.In v (set_of_ranges rs) -> NS.In v (step (Add rs) s).
Proof. cbn. rewrite NS.union_spec. tauto. Qed.

Lemma step_remove_out rs s v : NS.In v (set_of_ranges rs) -> ~ NS.In v (step (Remove rs) s).
Proof. cbn. rewrite NS.diff_spec. tauto. Qed.

(* executing a command twice is executing it once *)
Lemma step_idem c s : NS.Equal (step c (step c s)) (step c s).
Proof. destruct c; cbn; NSD.fsetdec. Qed.

(* a command followed by its inverse restores the set, when the command changed exactly the
   VLANs it names (added VLANs were absent / removed VLANs were present) *)
Lemma step_add_remove rs s :
  NS.Empty (NS.inter s (set_of_ranges rs)) -> NS.Equal (step (Remove rs) (step (Add rs) s)) s.
Proof. cbn. intro H. NSD.fsetdec. Qed.

Lemma step_remove_add rs s :
  NS.Subset (set_of_ranges rs) s -> NS.Equal (step (Add rs) (step (Remove rs) s)) s.
Proof. cbn. intro H. NSD.fsetdec. Qed.

(* without the side condition: the inverse wins on the named VLANs, the rest is untouched *)
Lemma step_inverse_general c c' s :
  inverse c = Some c' ->
  NS.Equal (step c' (step c s)) (step c' s).
Proof.
  destruct c; cbn; intro E; try discriminate E; injection E as <-; cbn; NSD.fsetdec.
Qed.

Lemma step_inverse c c' t s :
  inverse c = Some c' -> touched c = Some t ->
  (match c with Add _ => NS.Empty (NS.inter s t) | _ => NS.Subset t s end) ->
  NS.Equal (step c' (step c s)) s.
Proof.
  destruct c; cbn; intros E T; try discriminate E; injection E as <-; injection T as <-; intro H.
  - now apply step_add_remove.
  - now apply step_remove_add.
Qed.

(* commands naming disjoint VLAN sets commute *)
Lemma step_commute c1 c2 t1 t2 s :
  touched c1 = Some t1 -> touched c2 = Some t2 -> NS.Empty (NS.inter t1 t2) ->
  NS.Equal (step c1 (step c2 s)) (step c2 (step c1 s)).
Proof.
  destruct c1; cbn; intro E1; try discriminate E1; injection E1 as <-;
  destruct c2; cbn; intro E2; try discriminate E2; injection E2 as <-; intro H; NSD.fsetdec.
Qed.

(* two adds, two removes commute whatever they name *)
Lemma step_commute_same rs1 rs2 s :
  NS.Equal (step (Add rs1) (step (Add rs2) s)) (step (Add rs2) (step (Add rs1) s)) /\
  NS.Equal (step (Remove rs1) (step (Remove rs2) s)) (step (Remove rs2) (step (Remove rs1) s)).
Proof. cbn. split; NSD.fsetdec. Qed.

(* hence a whole list of pairwise disjoint add/remove commands can be executed in any order *)
Definition disjoint_cmds (c1 c2 : cmd) : Prop :=
  exists t1 t2, touched c1 = Some t1 /\ touched c2 = Some t2 /\ NS.Empty (NS.inter t1 t2).

Lemma disjoint_cmds_sym c1 c2 : disjoint_cmds c1 c2 -> disjoint_cmds c2 c1.
Proof.
  intros (t1 & t2 & E1 & E2 & H). exists t2, t1. repeat split; auto. intros v Hv. apply (H v). NSD.fsetdec.
Qed.

Lemma simulate_perm_disjoint cs cs' : Permutation cs cs' ->
  ForallOrdPairs disjoint_cmds cs -> forall s, NS.Equal (simulate cs s) (simulate cs' s).
Proof.
  induction 1 as [|x l l' P IH|x y l|l l' l'' P1 IH1 P2 IH2]; intros D s.
  - reflexivity.
  - cbn. apply IH. now inversion D.
  - cbn. inversion D as [|a l0 Hy D']; subst. inversion Hy as [|b l1 Hyx _]; subst.
    destruct Hyx as (t1 & t2 & E1 & E2 & H).
    apply simulate_equal. exact (step_commute x y t2 t1 s E2 E1 ltac:(intros v Hv; apply (H v); NSD.fsetdec)).
  - rewrite (IH1 D s). apply IH2.
    (* pairwise disjointness is preserved by permutation *)
    clear -P1 D. induction P1 as [|x l l' P IH|x y l|l l' l'' P1 IH1 P2 IH2].
    + constructor.
    + inversion D as [|a l0 Hx D']; subst. constructor.
      * eapply Permutation_Forall; eassumption.
      * now apply IH.
    + inversion D as [|a l0 Hy D']; subst. inversion Hy as [|b l1 Hyx Hyl]; subst.
      inversion D' as [|b l1 Hx D'']; subst. constructor.
      * constructor; [now apply disjoint_cmds_sym|exact Hx].
      * constructor; [exact Hyl|exact D''].
    + auto.
Qed.

(* `undo ... vlan all`, `undo instance N`, `... vlan none`: removal of the whole current set,
   however it is written as ranges *)
Lemma step_remove_all_collapse tiny s : NS.Equal (step RemoveAll s) (step (Remove (collapse tiny s)) s).
Proof.
  cbn. intro v. rewrite NS.diff_spec, set_of_ranges_spec, collapse_spec. split.
  - intro H. exfalso. revert H. apply NSF.empty_iff.
  - tauto.
Qed.

Lemma step_remove_all_cover rs s :
  NS.Subset s (set_of_ranges rs) -> NS.Equal (step RemoveAll s) (step (Remove rs) s).
Proof. cbn. intro H. NSD.fsetdec. Qed.

Lemma step_none_is_remove_all s : NS.Equal (step SetNone s) (step RemoveAll s).
Proof. reflexivity. Qed.

Lemma step_remove_all_empty s : NS.Empty (step RemoveAll s).
Proof. cbn. apply NS.empty_spec. Qed.

(* replace = clear, then add *)
Lemma step_set_to rs s : NS.Equal (step (SetTo rs) s) (simulate [RemoveAll; Add rs] s).
Proof. cbn. NSD.fsetdec. Qed.

(* a whole-list command does not commute with an add: why the theorems need the model to emit it
   alone (whole_list_new_empty) *)
Lemma remove_all_add_not_commute :
  exists rs s, ~ NS.Equal (step RemoveAll (step (Add rs) s)) (step (Add rs) (step RemoveAll s)).
Proof.
  exists [(5, 5)%N], NS.empty. intro H. assert (G : NS.In 5%N (step (Add [(5, 5)%N]) (step RemoveAll NS.empty))).
  { apply step_add_in. apply set_of_ranges_spec. exists (5, 5)%N. split; [now left|]. unfold in_range. cbn. lia. }
  apply H in G. revert G. cbn. apply NSF.empty_iff.
Qed.

(* the VLAN database: entering a block and `undo vlan N` are inverse on the VLAN they name,
   commands on different VLANs commute *)
Lemma single_range n v : NS.In v (set_of_ranges [(n, n)]) <-> v = n.
Proof.
  rewrite set_of_ranges_spec. split.
  - intros (r & [<-|[]] & H). unfold in_range in H. cbn in H. lia.
  - intros ->. exists (n, n). split; [now left|]. unfold in_range. cbn. lia.
Qed.

Lemma enter_undo n kids s : ~ NS.In n s -> NS.Equal (gsimulate [GEnter n kids; GUndo n] s) s.
Proof.
  intro H. unfold gsimulate. cbn [map effect simulate step]. intro v. rewrite NS.diff_spec, NS.union_spec, single_range. split.
  - intros [[Hv|Hv] Hn]; [exact Hv|contradiction].
  - intro Hv. split; [now left|]. intros ->. contradiction.
Qed.

Lemma undo_enter n kids s : NS.In n s -> NS.Equal (gsimulate [GUndo n; GEnter n kids] s) s.
Proof.
  intro H. unfold gsimulate. cbn [map effect simulate step]. intro v. rewrite NS.union_spec, NS.diff_spec, single_range. split.
  - intros [[Hv _]|Hv]; [exact Hv|now subst].
  - intro Hv. destruct (N.eq_dec v n) as [E|E]; [now right|left; now split].
Qed.

Lemma enter_creates n kids s : NS.In n (gsimulate [GEnter n kids] s).
Proof. unfold gsimulate. cbn [map effect simulate step]. rewrite NS.union_spec, single_range. now right. Qed.

Lemma undo_wipes n s : ~ NS.In n (gsimulate [GUndo n] s).
Proof. unfold gsimulate. cbn [map effect simulate step]. rewrite NS.diff_spec, single_range. tauto. Qed.

Lemma block_cmds_commute n m kids s : n <> m ->
  NS.Equal (gsimulate [GEnter n kids; GUndo m] s) (gsimulate [GUndo m; GEnter n kids] s).
Proof.
  intro H. unfold gsimulate. cbn [map effect simulate].
  apply (step_commute (Remove [(m, m)]) (Add [(n, n)]) _ _ s eq_refl eq_refl).
  intros v Hv. apply NS.inter_spec in Hv as [H1 H2]. apply single_range in H1. apply single_range in H2.
  congruence.
Qed.
