(* C01 for %rewrite rules: a block whose body is governed by %rewrite rules at every depth.
   A. the patch of a diff without AFFECTED entries whose levels are governed by one %rewrite rule each:
      one direct command per entry that is not REMOVED, children alike ([mitems]); nothing for REMOVED entries.
   B. that patch, executed on an EMPTY block, builds [built D]: the entries of D that are not REMOVED, in D's
      order, with their children alike (the sort is the identity under [rw_keys_ok_b]).
   C. rewrite_diff of two bodies: [built] of it is new's body; it is all-AFFECTED only if the bodies are equal.
   D. the block header: entering the block resets it (Device.enter), then B. *)
From Coq Require Import List String Bool Arith ZArith Lia Permutation.
From Annet Require Import Base.Str Base.Tree Model.Pattern Model.Rulebook Model.Diff Model.Order Model.Patch
     Model.Blocks Model.Pipeline Model.Device Spec.P_C03 Spec.P_C01 Spec.P_C01o Spec.P_C01ord Spec.P_C01rw
     Proofs.DiffBasics Proofs.DiffProofsLib Proofs.DiffProofsAnnot Proofs.SortProofs Proofs.OrderProofs Proofs.ConvergeDevice
     Proofs.ConvergeRun Proofs.ConvergeBlocks Proofs.ConvergePre Proofs.ConvergeDiff Proofs.ConvergeSim Proofs.ConvergeOrdSeq
     Proofs.ConvergeOrdFlat.
Import ListNotations.
Open Scope string_scope.
Open Scope list_scope.

(* what a diff builds on an empty block: its entries that are not REMOVED, recursively *)
Fixpoint built (d : dnode) : forest :=
  match d with
  | DN o r m k => if op_eqb o Removed then [] else [(r, T (flat_map built k))]
  end.

Definition dkey (d : dnode) : list string := mi_key (d_mi d).

(* one level of a diff: one rule text, one set of attributes, distinct keys *)
Definition lvl (k : list dnode) : Prop :=
  (forall d d', In d k -> In d' k -> mi_raw (d_mi d) = mi_raw (d_mi d') /\ mi_attrs (d_mi d) = mi_attrs (d_mi d')) /\
  NoDup (map dkey k).

Section Rw.
  Variable rmatch : string -> string -> option (list string).
  Variable rsrc : string -> string.
  Variable rrev : string -> string.
  Variable block_exit : string.
  Variable rreverse : string -> list string -> string.
  Variable is_exit : string -> bool.

  Fixpoint dok (d : dnode) (rs : rset) {struct d} : Prop :=
    match d with
    | DN o r m k =>
      a_logic (mi_attrs m) = LRewrite /\ a_force_commit (mi_attrs m) = false /\
      (o = Removed \/
       ((o = Moved \/ o = Added) /\ is_exit r = false /\ is_rewrite m = true /\
        exists crs, match_row rmatch r rs = Some (m, crs) /\ lvl k /\
          (fix go (l : list dnode) : Prop := match l with [] => True | c :: l' => dok c crs /\ go l' end) k))
    end.

  Lemma dok_go crs k :
    (fix go (l : list dnode) : Prop := match l with [] => True | c :: l' => dok c crs /\ go l' end) k <->
    Forall (fun c => dok c crs) k.
  Proof.
    induction k as [|c k IH]; [split; [constructor | exact (fun _ => I)]|]. split.
    - intros [H1 H2]. constructor; [exact H1 | apply IH; exact H2].
    - intro H. inversion H as [|x l Hx Hl]; subst. split; [exact Hx | apply IH; exact Hl].
  Qed.

  Definition mk_sk (order : znum) (odirect : bool) (raw : string) : skey :=
    (match order with ZFin z => ZFin (if odirect then z else Z.opp z) | ZInf => ZInf end, raw, odirect).

  (* the patch items of one diff entry *)
  Fixpoint mitems (ord : list orule) (d : dnode) {struct d} : list item :=
    match d with
    | DN o r m k =>
      if op_eqb o Removed then []
      else
        let go := get_order rmatch rsrc rrev block_exit ord r true (Some "patch") in
        let ct := PT (sort_items (flat_map (mitems (snd go)) k)) in
        let sk := mk_sk (fst (fst go)) (snd (fst go)) (mi_raw m) in
        [if (match pitems ct with [] => negb (a_parent (mi_attrs m)) | _ => false end)
         then (r, None, sk) else (r, Some ct, sk)]
    end.

  (* ------------------------------------------------------------------ A. the patch *)
  Definition centry (d : dnode) : string * attrs * list string * list citem :=
    conv_flat rmatch rsrc rrev block_exit rreverse
              (mi_raw (d_mi d), mi_attrs (d_mi d), dkey d, [pe_item (make_pre_n d)]).

  Lemma make_pre_n_eq d :
    make_pre_n d = (mi_raw (d_mi d), mi_attrs (d_mi d), dkey d, (d_op d, d_row d, make_pre (d_kids d))).
  Proof. destruct d as [o r m k]. reflexivity. Qed.

  Lemma level_patch D :
    (forall d, In d D -> forall ord, slot_items rmatch rsrc rrev block_exit rreverse ord (centry d) = Some (mitems ord d)) ->
    lvl D -> forall ord,
    make_patch rmatch rsrc rrev block_exit rreverse (make_pre D) ord = POk (PT (sort_items (flat_map (mitems ord) D))).
  Proof.
    intros Hn [Hone Hkeys] ord. rewrite make_pre_groups. destruct D as [|d0 dl]; [reflexivity|].
    cbn [map]. rewrite (group_all_one (mi_raw (d_mi d0))).
    - rewrite make_patch_unfold. unfold flat_groups.
      match goal with |- context [flat_map ?g [?x]] => change (flat_map g [x]) with (g x ++ []) end.
      rewrite app_nil_r. rewrite !map_map.
      change (make_pre_n d0 :: map make_pre_n dl) with (map make_pre_n (d0 :: dl)). rewrite map_map.
      rewrite (all_some_map_total _ (mitems ord)).
      + rewrite flat_map_concat_map. reflexivity.
      + intros d Hd. rewrite <- (Hn d Hd ord). unfold centry. f_equal. cbn [fst snd].
        destruct (Hone d0 d (or_introl eq_refl) Hd) as [E1 E2].
        rewrite (make_pre_n_eq d), (make_pre_n_eq d0). unfold pe_key, pe_item, pe_attrs. cbn [fst snd].
        rewrite E1, E2. reflexivity.
    - intros x Hx. change (make_pre_n d0 :: map make_pre_n dl) with (map make_pre_n (d0 :: dl)) in Hx.
      apply in_map_iff in Hx as (d & E & Hd). subst x.
      rewrite make_pre_n_eq. unfold pe_raw. cbn [fst]. symmetry. apply (Hone d0 d (or_introl eq_refl) Hd).
    - change (make_pre_n d0 :: map make_pre_n dl) with (map make_pre_n (d0 :: dl)). rewrite map_map.
      rewrite (map_ext _ dkey); [exact Hkeys|]. intro d. rewrite make_pre_n_eq. reflexivity.
  Qed.

  Lemma node_items : forall d rs, dok d rs -> forall ord,
    slot_items rmatch rsrc rrev block_exit rreverse ord (centry d) = Some (mitems ord d).
  Proof.
    induction d as [o r m k IH] using dnode_ind2. intros rs Hd ord.
    cbn [dok] in Hd. destruct Hd as (Hl & Hf & Hd).
    unfold centry, conv_flat. cbn [d_mi fst snd map]. rewrite make_pre_n_eq. unfold pe_item. cbn [snd d_op d_row d_kids].
    unfold slot_items. rewrite Hl. cbn [conv_item].
    destruct Hd as [Hd|(Ho & Hex & Hrw & crs & Hm & Hlv & Hk)].
    - subst o. reflexivity.
    - apply dok_go in Hk.
      assert (Hkids : forall ord', make_patch rmatch rsrc rrev block_exit rreverse (make_pre k) ord' =
                                   POk (PT (sort_items (flat_map (mitems ord') k)))).
      { apply level_patch; [|exact Hlv]. intros d Hin. rewrite Forall_forall in IH, Hk. apply (IH d Hin crs). apply Hk. exact Hin. }
      assert (Hne : match pgroups (make_pre k) with [] => false | _ => true end = match k with [] => false | _ => true end).
      { destruct k as [|d0 dl]; [reflexivity|]. rewrite make_pre_groups. cbn [pgroups map].
        destruct Hlv as [Hone Hkeys].
        rewrite (group_all_one (mi_raw (d_mi d0))); [reflexivity| |].
        - intros x Hx. change (make_pre_n d0 :: map make_pre_n dl) with (map make_pre_n (d0 :: dl)) in Hx.
          apply in_map_iff in Hx as (d & E & Hd). subst x.
          rewrite make_pre_n_eq. unfold pe_raw. cbn [fst]. symmetry. apply (Hone d0 d (or_introl eq_refl) Hd).
        - change (make_pre_n d0 :: map make_pre_n dl) with (map make_pre_n (d0 :: dl)). rewrite map_map.
          rewrite (map_ext _ dkey); [exact Hkeys|]. intro d. rewrite make_pre_n_eq. reflexivity. }
      assert (Hy : forall (mk : ckpre) (ne : bool),
                   run_logic rreverse (a_pat (mi_attrs m)) (mi_key m) LRewrite [(o, r, mk, ne)] =
                   Some [(true, r, Some (mk, ne))]).
      { intros mk ne. destruct Ho; subst o; reflexivity. }
      change (dkey (DN o r m k)) with (mi_key m). rewrite Hy. cbn [map all_some]. unfold yield_item.
      assert (Eo : op_eqb o Removed = false) by (destruct Ho; subst o; reflexivity).
      cbn [mitems]. rewrite Eo.
      destruct (get_order rmatch rsrc rrev block_exit ord r true (Some "patch")) as [[order odirect] ord'] eqn:Eg.
      cbn [fst snd]. rewrite Hne. rewrite Hf.
      destruct k as [|d0 dl].
      + cbn. destruct (a_parent (mi_attrs m)); reflexivity.
      + rewrite Hkids. cbn [pitems option_map List.concat app negb orb]. rewrite orb_false_r.
        unfold mk_sk. rewrite ?app_nil_r. reflexivity.
  Qed.

  Lemma patch_of_diff D rs : Forall (fun d => dok d rs) D -> lvl D -> forall ord,
    make_patch rmatch rsrc rrev block_exit rreverse (make_pre D) ord = POk (PT (sort_items (flat_map (mitems ord) D))).
  Proof.
    intros Hd Hl ord. apply level_patch; [|exact Hl]. intros d Hin ord'. rewrite Forall_forall in Hd.
    apply (node_items d rs (Hd d Hin)).
  Qed.

  (* ------------------------------------------------------------------ B. the device *)
  Lemma mitems_nil_built ord k : flat_map (mitems ord) k = [] -> flat_map built k = [].
  Proof.
    induction k as [|[o r m kk] k IH]; intro H; [reflexivity|]. cbn [flat_map mitems built] in *.
    destruct (op_eqb o Removed); [cbn [app] in *; apply IH; exact H | discriminate].
  Qed.

  Lemma built_in D e : In e (flat_map built D) -> exists d, In d D /\ d_op d <> Removed /\ fst e = d_row d.
  Proof.
    intro H. apply in_flat_map in H as (d & Hd & He). exists d. split; [exact Hd|]. destruct d as [o r m k].
    cbn [built] in He. destruct (op_eqb o Removed) eqn:Eo; [destruct He|]. destruct He as [He|[]]. subst e. cbn [fst d_op d_row].
    split; [|reflexivity]. intro E. subst o. discriminate.
  Qed.

  Lemma dok_live d rs : dok d rs -> d_op d <> Removed ->
    is_exit (d_row d) = false /\ is_rewrite (d_mi d) = true /\
    exists crs, match_row rmatch (d_row d) rs = Some (d_mi d, crs) /\ lvl (d_kids d) /\ Forall (fun c => dok c crs) (d_kids d).
  Proof.
    destruct d as [o r m k]. cbn [dok d_op d_row d_mi d_kids]. intros (_ & _ & [H|H]) Hn; [contradiction|].
    destruct H as (_ & He & Hr & crs & Hm & Hl & Hk). split; [exact He|]. split; [exact Hr|].
    exists crs. split; [exact Hm|]. split; [exact Hl|]. apply dok_go. exact Hk.
  Qed.

  Definition child_ok (rs : rset) (it : item) : Prop :=
    match ichild it, match_row rmatch (irow it) rs with
    | Some ct, Some (_, crs) => rw_keys_ok_b rmatch ct crs = true
    | _, _ => True
    end.

  Lemma rw_keys_inv (its : list item) rs : rw_keys_ok_b rmatch (PT its) rs = true ->
    (forall i j, In i its -> In j its ->
       (exists s c, match_row rmatch (irow i) rs = Some (s, c) /\ is_rewrite s = true) ->
       (exists s c, match_row rmatch (irow j) rs = Some (s, c) /\ is_rewrite s = true) ->
       fst (fst (snd i)) = fst (fst (snd j)) /\ snd (snd i) = snd (snd j)) /\
    (forall it, In it its -> child_ok rs it).
  Proof.
    intro H. cbn [rw_keys_ok_b] in H. apply andb_true_iff in H as [H Hc]. split.
    - intros i j Hi Hj (si & ci & Mi & Oi) (sj & cj & Mj & Oj).
      set (g := fun i0 : string * option ptree * skey =>
                  match match_row rmatch (fst (fst i0)) rs with
                  | Some (s, _) => if is_rewrite s then [snd i0] else []
                  | None => []
                  end) in H.
      assert (Ii : In (snd i) (flat_map g its)).
      { apply in_flat_map. exists i. split; [exact Hi|]. unfold g. unfold irow in Mi. rewrite Mi, Oi. now left. }
      assert (Ij : In (snd j) (flat_map g its)).
      { apply in_flat_map. exists j. split; [exact Hj|]. unfold g. unfold irow in Mj. rewrite Mj, Oj. now left. }
      destruct (flat_map g its) as [|k r]; [destruct Ii|].
      assert (Q : forall a, In a (k :: r) -> fst (fst a) = fst (fst k) /\ snd a = snd k).
      { intros a [E|Ha]; [subst; auto|]. rewrite forallb_forall in H. specialize (H a Ha). unfold sk_ord_eqb in H.
        destruct (znum_compare (fst (fst k)) (fst (fst a))) eqn:Ec; try discriminate.
        apply znum_compare_eq in Ec. apply Bool.eqb_prop in H. split; congruence. }
      destruct (Q _ Ii) as [A1 A2]. destruct (Q _ Ij) as [B1 B2]. split; congruence.
    - clear H. induction its as [|[[row child] sk] l IH]; intros it Hit; [destruct Hit|].
      apply andb_true_iff in Hc as [Hc1 Hc2]. destruct Hit as [E|Hit]; [|apply IH; assumption].
      subst it. unfold child_ok, ichild, irow. cbn [fst snd].
      destruct child as [ct|]; [|exact I]. destruct (match_row rmatch row rs) as [[s crs]|]; [exact Hc1 | exact I].
  Qed.

  Lemma mitems_in ord D it : In it (flat_map (mitems ord) D) ->
    exists d, In d D /\ d_op d <> Removed /\ mitems ord d = [it] /\ irow it = d_row d /\ snd (fst (snd it)) = mi_raw (d_mi d).
  Proof.
    intro H. apply in_flat_map in H as (d & Hd & Hi). exists d. split; [exact Hd|]. destruct d as [o r m k].
    cbn [mitems] in *. destruct (op_eqb o Removed) eqn:Eo; [destruct Hi|]. destruct Hi as [Hi|[]].
    split; [intro E; cbn in E; subst o; discriminate|]. rewrite Hi. split; [reflexivity|]. subst it.
    match goal with |- context [if ?c then _ else _] => destruct c end; cbn; auto.
  Qed.

  Lemma level_sort_id D rs ord : Forall (fun d => dok d rs) D -> lvl D ->
    rw_keys_ok_b rmatch (PT (sort_items (flat_map (mitems ord) D))) rs = true ->
    sort_items (flat_map (mitems ord) D) = flat_map (mitems ord) D.
  Proof.
    intros Hd [Hone _] Hk. apply rw_keys_inv in Hk as [Hk _]. unfold sort_items. apply sort_one_class.
    intros a b Ha Hb.
    assert (Hrw : forall x, In x (flat_map (mitems ord) D) ->
              (exists s c, match_row rmatch (irow x) rs = Some (s, c) /\ is_rewrite s = true) /\
              exists d, In d D /\ snd (fst (snd x)) = mi_raw (d_mi d)).
    { intros x Hx. apply mitems_in in Hx as (d & Hin & Hn & _ & Er & Eraw). rewrite Forall_forall in Hd.
      destruct (dok_live d rs (Hd d Hin) Hn) as (_ & Hr & crs & Hm & _). split.
      - exists (d_mi d), crs. rewrite Er. auto.
      - exists d. auto. }
    destruct (Hrw a Ha) as [Ra (da & Hda & Ea)]. destruct (Hrw b Hb) as [Rb (db & Hdb & Eb)].
    destruct (Hk a b (proj2 (sort_in _ a _) Ha) (proj2 (sort_in _ b _) Hb) Ra Rb) as [E1 E2].
    assert (E3 : snd (fst (snd a)) = snd (fst (snd b))).
    { rewrite Ea, Eb. apply (Hone da db Hda Hdb). }
    assert (E : snd a = snd b).
    { destruct (snd a) as [[x y] z], (snd b) as [[x' y'] z']. cbn [fst snd] in *. congruence. }
    rewrite E. destruct (skey_leb_total (snd b) (snd b)); assumption.
  Qed.

  Definition node_exec (d : dnode) : Prop :=
    forall rs ord f, dok d rs -> d_op d <> Removed ->
      (forall it, In it (mitems ord d) -> child_ok rs it) ->
      (forall e, In e f -> in_slot rmatch rs (d_mi d) e = false) -> ~ In (d_row d) (keys f) ->
      fold_left (fun a i => run_item rmatch rreverse is_exit rs i a) (mitems ord d) f = f ++ built d.

  Lemma level_exec D : (forall d, In d D -> node_exec d) -> forall rs ord,
    Forall (fun d => dok d rs) D -> lvl D ->
    rw_keys_ok_b rmatch (PT (sort_items (flat_map (mitems ord) D))) rs = true ->
    run_pt rmatch rreverse is_exit (PT (sort_items (flat_map (mitems ord) D))) rs [] = flat_map built D.
  Proof.
    intros HN rs ord Hd Hl Hk. pose proof (level_sort_id D rs ord Hd Hl Hk) as Es. rewrite Es in *.
    apply rw_keys_inv in Hk as [_ Hc]. rewrite run_pt_fold.
    assert (G : forall D2 D1, D = D1 ++ D2 ->
              fold_left (fun a i => run_item rmatch rreverse is_exit rs i a) (flat_map (mitems ord) D2) (flat_map built D1) =
              flat_map built D).
    { induction D2 as [|d D2 IH]; intros D1 E.
      - rewrite app_nil_r in E. subst D1. reflexivity.
      - cbn [flat_map]. rewrite fold_left_app.
        assert (Hin : In d D) by (rewrite E; apply in_or_app; right; now left).
        assert (E' : D = (D1 ++ [d]) ++ D2) by (rewrite <- app_assoc; exact E).
        destruct (op_eqb (d_op d) Removed) eqn:Eo.
        + assert (Em : mitems ord d = []) by (destruct d as [o r m k]; cbn in *; rewrite Eo; reflexivity).
          assert (Eb : built d = []) by (destruct d as [o r m k]; cbn in *; rewrite Eo; reflexivity).
          rewrite Em. cbn [fold_left]. rewrite <- (IH (D1 ++ [d]) E'). rewrite flat_map_app. cbn [flat_map]. rewrite Eb, !app_nil_r. reflexivity.
        + assert (Hn : d_op d <> Removed) by (intro X; rewrite X in Eo; discriminate).
          rewrite Forall_forall in Hd.
          destruct (dok_live d rs (Hd d Hin) Hn) as (_ & _ & crs & Hm & _).
          assert (Hfresh : forall e, In e (flat_map built D1) -> exists d', In d' D1 /\ fst e = d_row d' /\
                                     exists crs', match_row rmatch (d_row d') rs = Some (d_mi d', crs')).
          { intros e He. apply built_in in He as (d' & Hd' & Hn' & Ee). exists d'. split; [exact Hd'|]. split; [exact Ee|].
            assert (Hin' : In d' D) by (rewrite E; apply in_or_app; now left).
            destruct (dok_live d' rs (Hd d' Hin') Hn') as (_ & _ & crs' & Hm' & _). exists crs'. exact Hm'. }
          assert (Hkd : forall d', In d' D1 -> dkey d' <> dkey d).
          { intros d' Hd' Ek. destruct Hl as [_ Hnd]. rewrite E in Hnd. rewrite map_app in Hnd. cbn [map] in Hnd.
            apply (NoDup_app_disj _ _ (dkey d) Hnd).
            - rewrite <- Ek. apply in_map. exact Hd'.
            - now left. }
          match goal with |- fold_left _ _ ?inner = _ => assert (Estep : inner = flat_map built D1 ++ built d) end.
          { apply (HN d Hin rs ord (flat_map built D1) (Hd d Hin) Hn).
            * intros it Hit. apply Hc. apply in_flat_map. exists d. auto.
            * intros e He. destruct (Hfresh e He) as (d' & Hd' & Ee & crs' & Hm'). unfold in_slot, slot_of. rewrite Ee, Hm'. cbn [option_map fst].
              unfold same_slot. destruct (lse_spec (mi_key (d_mi d')) (mi_key (d_mi d))) as [Ek|Ek]; [|apply andb_false_r].
              exfalso. apply (Hkd d' Hd'). exact Ek.
            * intro Hr. apply in_map_iff in Hr as (e & Ee & He). destruct (Hfresh e He) as (d' & Hd' & Ee' & crs' & Hm').
              rewrite Ee' in Ee. rewrite Ee in Hm'. rewrite Hm in Hm'. injection Hm' as Emi _.
              apply (Hkd d' Hd'). unfold dkey. rewrite Emi. reflexivity. }
          rewrite Estep. rewrite <- (IH (D1 ++ [d]) E'). rewrite flat_map_app. cbn [flat_map]. rewrite app_nil_r. reflexivity. }
    apply (G D []). reflexivity.
  Qed.

  Lemma node_exec_all : forall d, node_exec d.
  Proof.
    induction d as [o r m k IH] using dnode_ind2. intros rs ord f Hd Hn Hc Hfr Hrow.
    destruct (dok_live _ rs Hd Hn) as (Hex & Hrw & crs & Hm & Hlv & Hk). cbn [d_op d_row d_mi d_kids] in *.
    assert (Eo : op_eqb o Removed = false) by (destruct o; try reflexivity; contradiction).
    assert (Ecmd : exec_cmd rmatch rreverse is_exit rs r f = f ++ [(r, T [])]).
    { rewrite (exec_cmd_direct rmatch rreverse is_exit rs r m crs f Hex Hm). unfold exec_direct.
      assert (Efind : find (in_slot rmatch rs m) f = None).
      { apply find_none_forallb. apply forallb_forall. intros e He. rewrite (Hfr e He). reflexivity. }
      rewrite Efind. reflexivity. }
    cbn [mitems built] in *. rewrite Eo in *.
    set (go := get_order rmatch rsrc rrev block_exit ord r true (Some "patch")) in *.
    set (L := flat_map (mitems (snd go)) k) in *.
    cbn [fold_left]. cbn [pitems] in *.
    destruct (sort_items L) as [|i0 il] eqn:Es.
    - (* no command below *)
      assert (EL : L = []).
      { assert (Hp : Permutation (sort_items L) L) by apply sort_perm. rewrite Es in Hp.
        apply Permutation_nil in Hp. exact Hp. }
      assert (Eb : flat_map built k = []) by (apply (mitems_nil_built (snd go)); exact EL).
      rewrite Eb. destruct (negb (a_parent (mi_attrs m))).
      + unfold run_item, ichild, irow. cbn [fst snd]. exact Ecmd.
      + unfold run_item, ichild, irow. cbn [fst snd]. rewrite Hm, Ecmd.
        rewrite (nav_mid r _ f (T []) [] Hrow). cbn [kids]. reflexivity.
    - rewrite <- Es in *. unfold run_item, ichild, irow. cbn [fst snd]. rewrite Hm, Ecmd.
      rewrite (nav_mid r _ f (T []) [] Hrow). cbn [kids]. f_equal. f_equal. f_equal. f_equal.
      apply level_exec.
      + intros d Hin. rewrite Forall_forall in IH. apply IH. exact Hin.
      + exact Hk.
      + exact Hlv.
      + specialize (Hc _ (or_introl eq_refl)). unfold child_ok, ichild, irow in Hc. cbn [fst snd] in Hc. rewrite Hm in Hc. exact Hc.
  Qed.

  (* the patch of D, executed on an empty block, builds [built D] *)
  Theorem rewrite_builds D rs ord : Forall (fun d => dok d rs) D -> lvl D ->
    rw_keys_ok_b rmatch (PT (sort_items (flat_map (mitems ord) D))) rs = true ->
    run_pt rmatch rreverse is_exit (PT (sort_items (flat_map (mitems ord) D))) rs [] = flat_map built D.
  Proof. apply level_exec. intros d _. apply node_exec_all. Qed.
End Rw.

(* a diff that went through aff_to_moved (rewrite_diff of a changed block) has no AFFECTED entry, so
   mark_unchanged leaves it alone *)
Lemma aff_to_moved_no_aff : forall d, no_aff (aff_to_moved_n d) = true.
Proof.
  induction d as [o r m k IH] using dnode_ind2. cbn [aff_to_moved_n no_aff].
  apply andb_true_iff. split; [destruct o; reflexivity|].
  rewrite forallb_forall. intros x Hx. apply in_map_iff in Hx as (y & E & Hy). subst x.
  rewrite Forall_forall in IH. apply IH. exact Hy.
Qed.
Lemma mark_aff_to_moved d : mark_unchanged (aff_to_moved d) = aff_to_moved d.
Proof.
  apply mark_no_aff_all. rewrite forallb_forall. intros x Hx. unfold aff_to_moved in Hx.
  apply in_map_iff in Hx as (y & E & Hy). subst x. apply aff_to_moved_no_aff.
Qed.

(* ------------------------------------------------------------------ instantiated *)
(* The patch + device half of convergence for %rewrite blocks, at any depth and width: for a diff D whose
   levels are governed by one %rewrite rule each with distinct keys ([dok], [lvl]), the model of
   make_pre / make_patch / logic `rewrite` computes a patch (no AssertionError); if the ordering rulebook gives
   the direct commands of a level one sort key ([rw_keys_ok_b]) then executing that patch inside a block that
   has just been reset builds exactly the entries of D that are not REMOVED, in D's order, children alike. *)
Theorem rewrite_patch_builds v rs ordering D :
  Forall (fun d => dok pm (v_is_exit v) d rs) D -> lvl D ->
  exists pt, p_make_patch v ordering (make_pre D) = POk pt /\
    (rw_keys_ok_b pm pt rs = true ->
     run_pt pm (prreverse v) (v_is_exit v) pt rs [] = flat_map built D).
Proof.
  intros Hd Hl. unfold p_make_patch.
  rewrite (patch_of_diff pm psrc (prev v) (v_exit v) (prreverse v) (v_is_exit v) D rs Hd Hl ordering).
  eexists. split; [reflexivity|]. intro Hk.
  apply (rewrite_builds pm psrc (prev v) (v_exit v) (prreverse v) (v_is_exit v) D rs ordering Hd Hl Hk).
Qed.
