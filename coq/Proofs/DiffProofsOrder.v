(* C03 proof library, part 5: rows of %ordered rules appear in new's order at every
   depth, and the top-level MOVED characterisation. *)
From Coq Require Import List String Bool Arith Lia Permutation.
From Annet Require Import Base.Str Base.Tree Model.Rulebook Model.Diff Spec.P_C03 Proofs.DiffBasics
  Proofs.DiffProofsLib Proofs.DiffProofsAnnot Proofs.DiffProofsLossless.
Import ListNotations.
Open Scope list_scope.

Lemma order_ok_n_eq an o row mi kids :
  order_ok_n an (DN o row mi kids) =
  match alookup row an with Some (_, s) => order_ok (akids s) kids | None => true end.
Proof. reflexivity. Qed.

Definition ordp (an : aforest) (k : dnode) : bool :=
  is_ordered_in an (d_row k) && negb (op_eqb (d_op k) Removed).

Lemma ordered_rows_d_eq an d : ordered_rows_d an d = map d_row (filter (ordp an) d).
Proof. reflexivity. Qed.

Lemma ordered_rows_a_eq f : ordered_rows_a f = arows (filter (inL DOrdered) f).
Proof. reflexivity. Qed.

Lemma order_ok_iff an d :
  order_ok an d = true <->
  map d_row (filter (ordp an) d) = arows (filter (inL DOrdered) an) /\
  (forall x, In x d -> order_ok_n an x = true).
Proof.
  unfold order_ok. rewrite andb_true_iff, list_str_eqb_eq, forallb_forall.
  rewrite ordered_rows_d_eq, ordered_rows_a_eq. tauto.
Qed.

(* ---------- transformations keeping rows and REMOVED-ness keep order_ok ---------- *)
Lemma ordered_rows_map (f : dnode -> dnode) an l :
  (forall x, d_row (f x) = d_row x) ->
  (forall x, op_eqb (d_op (f x)) Removed = op_eqb (d_op x) Removed) ->
  map d_row (filter (ordp an) (map f l)) = map d_row (filter (ordp an) l).
Proof.
  intros Hr Ho. induction l as [|x l IH]; [reflexivity|]. cbn [map filter].
  assert (E : ordp an (f x) = ordp an x) by (unfold ordp; rewrite Hr, Ho; reflexivity).
  rewrite E. destruct (ordp an x); cbn [map]; rewrite ?Hr, IH; reflexivity.
Qed.

Lemma order_ok_map (f : dnode -> dnode) an l :
  (forall x, d_row (f x) = d_row x) ->
  (forall x, op_eqb (d_op (f x)) Removed = op_eqb (d_op x) Removed) ->
  Forall (fun x => forall an, order_ok_n an x = true -> order_ok_n an (f x) = true) l ->
  order_ok an l = true -> order_ok an (map f l) = true.
Proof.
  intros Hr Ho IH H. apply order_ok_iff in H as [H1 H2]. apply order_ok_iff.
  rewrite ordered_rows_map by assumption. split; [exact H1|].
  intros x Hx. apply in_map_iff in Hx as (y & Ey & Hy). subst x.
  rewrite Forall_forall in IH. apply IH; [exact Hy | apply H2; exact Hy].
Qed.

Lemma aff_to_moved_removed x : op_eqb (d_op (aff_to_moved_n x)) Removed = op_eqb (d_op x) Removed.
Proof. rewrite aff_to_moved_op. destruct (d_op x); reflexivity. Qed.

Lemma mark_removed x : op_eqb (d_op (mark_unchanged_n x)) Removed = op_eqb (d_op x) Removed.
Proof.
  destruct x as [o r m k]. cbn [mark_unchanged_n]. destruct o; cbn [op_eqb d_op]; try reflexivity.
  destruct (forallb _ _); reflexivity.
Qed.

Lemma order_aff_to_moved : forall d an, order_ok_n an d = true -> order_ok_n an (aff_to_moved_n d) = true.
Proof.
  induction d as [o row m kids IH] using dnode_ind2. intros an H. cbn [aff_to_moved_n].
  rewrite order_ok_n_eq in *. destruct (alookup row an) as [[mn sn]|]; [|reflexivity].
  apply order_ok_map; [exact aff_to_moved_row | exact aff_to_moved_removed | exact IH | exact H].
Qed.

Lemma order_mark : forall d an, order_ok_n an d = true -> order_ok_n an (mark_unchanged_n d) = true.
Proof.
  induction d as [o row m kids IH] using dnode_ind2. intros an H. cbn [mark_unchanged_n].
  destruct (op_eqb o Affected); [|exact H].
  rewrite order_ok_n_eq in *. destruct (alookup row an) as [[mn sn]|]; [|reflexivity].
  apply order_ok_map; [exact mark_row | exact mark_removed | exact IH | exact H].
Qed.

Lemma order_mark_all an d : order_ok an d = true -> order_ok an (mark_unchanged d) = true.
Proof.
  intros H. unfold mark_unchanged. apply order_ok_map; [exact mark_row | exact mark_removed | | exact H].
  apply Forall_forall. intros x _. apply order_mark.
Qed.

(* ---------- generic: only one key contributes ---------- *)
Lemma filter_flat_map {A B} (p : B -> bool) (F : A -> list B) l :
  filter p (flat_map F l) = flat_map (fun x => filter p (F x)) l.
Proof.
  induction l as [|x l IH]; [reflexivity|]. cbn [flat_map]. rewrite filter_app, IH. reflexivity.
Qed.

Lemma flat_map_single {B} (F : dlogic -> list B) (L0 : dlogic) : forall keys,
  NoDup keys -> (forall L, L <> L0 -> F L = []) -> (~ In L0 keys -> F L0 = []) ->
  flat_map F keys = F L0.
Proof.
  induction keys as [|k keys IH]; intros Hnd Hne Hnot.
  - cbn. symmetry. apply Hnot. intros [].
  - inversion Hnd as [|k' keys' Hk Hnd']; subst. cbn [flat_map].
    destruct (dlogic_eqb k L0) eqn:E.
    + apply dlogic_eqb_eq in E. subst k.
      assert (Hrest : flat_map F keys = []).
      { clear - Hk Hne. induction keys as [|k keys IH]; [reflexivity|]. cbn [flat_map].
        rewrite Hne by (intro E; subst; apply Hk; now left).
        apply IH. intro Hin. apply Hk. now right. }
      rewrite Hrest, app_nil_r. reflexivity.
    + apply dlogic_eqb_neq in E. rewrite (Hne k E). cbn [app].
      apply IH; [exact Hnd' | exact Hne|]. intros Hn. apply Hnot. intros [H|H]; [contradiction | exact (Hn H)].
Qed.
