(* C03 proof library, part 5: rows of %ordered rules appear in new's order at every
   depth, and the top-level MOVED characterisation. *)
From Coq Require Import List String Bool Arith Lia Permutation.
From Annet Require Import Base.Str Base.Tree Model.Rulebook Model.Diff Spec.P_C03 Proofs.DiffBasics
  Proofs.DiffProofsLib Proofs.DiffProofsAnnot Proofs.DiffProofsLossless.
Import ListNotations.
Open Scope list_scope.

Lemma order_ok_n_eq an o row mi kids :
  order_ok_n an (DN o row mi kids) =
  match alookup row an with Some (_, s) => order_ok (akids s) kids | None => true end.
Proof. reflexivity. Qed.

Definition ordp (an : aforest) (k : dnode) : bool :=
  is_ordered_in an (d_row k) && negb (op_eqb (d_op k) Removed).

Lemma ordered_rows_d_eq an d : ordered_rows_d an d = map d_row (filter (ordp an) d).
Proof. reflexivity. Qed.

Lemma ordered_rows_a_eq f : ordered_rows_a f = arows (filter (inL DOrdered) f).
Proof. reflexivity. Qed.

Lemma order_ok_iff an d :
  order_ok an d = true <->
  map d_row (filter (ordp an) d) = arows (filter (inL DOrdered) an) /\
  (forall x, In x d -> order_ok_n an x = true).
Proof.
  unfold order_ok. rewrite andb_true_iff, list_str_eqb_eq, forallb_forall.
  rewrite ordered_rows_d_eq, ordered_rows_a_eq. tauto.
Qed.

(* ---------- transformations keeping rows and REMOVED-ness keep order_ok ---------- *)
Lemma ordered_rows_map (f : dnode -> dnode) an l :
  (forall x, d_row (f x) = d_row x) ->
  (forall x, op_eqb (d_op (f x)) Removed = op_eqb (d_op x) Removed) ->
  map d_row (filter (ordp an) (map f l)) = map d_row (filter (ordp an) l).
Proof.
  intros Hr Ho. induction l as [|x l IH]; [reflexivity|]. cbn [map filter].
  assert (E : ordp an (f x) = ordp an x) by (unfold ordp; rewrite Hr, Ho; reflexivity).
  rewrite E. destruct (ordp an x); cbn [map]; rewrite ?Hr, IH; reflexivity.
Qed.

Lemma order_ok_map (f : dnode -> dnode) an l :
  (forall x, d_row (f x) = d_row x) ->
  (forall x, op_eqb (d_op (f x)) Removed = op_eqb (d_op x) Removed) ->
  Forall (fun x => forall an, order_ok_n an x = true -> order_ok_n an (f x) = true) l ->
  order_ok an l = true -> order_ok an (map f l) = true.
Proof.
  intros Hr Ho IH H. apply order_ok_iff in H as [H1 H2]. apply order_ok_iff.
  rewrite ordered_rows_map by assumption. split; [exact H1|].
  intros x Hx. apply in_map_iff in Hx as (y & Ey & Hy). subst x.
  rewrite Forall_forall in IH. apply IH; [exact Hy | apply H2; exact Hy].
Qed.

Lemma aff_to_moved_removed x : op_eqb (d_op (aff_to_moved_n x)) Removed = op_eqb (d_op x) Removed.
Proof. rewrite aff_to_moved_op. destruct (d_op x); reflexivity. Qed.

Lemma mark_removed x : op_eqb (d_op (mark_unchanged_n x)) Removed = op_eqb (d_op x) Removed.
Proof.
  destruct x as [o r m k]. cbn [mark_unchanged_n]. destruct o; cbn [op_eqb d_op]; try reflexivity.
  destruct (forallb _ _); reflexivity.
Qed.

Lemma order_aff_to_moved : forall d an, order_ok_n an d = true -> order_ok_n an (aff_to_moved_n d) = true.
Proof.
  induction d as [o row m kids IH] using dnode_ind2. intros an H. cbn [aff_to_moved_n].
  rewrite order_ok_n_eq in *. destruct (alookup row an) as [[mn sn]|]; [|reflexivity].
  apply order_ok_map; [exact aff_to_moved_row | exact aff_to_moved_removed | exact IH | exact H].
Qed.

Lemma order_mark : forall d an, order_ok_n an d = true -> order_ok_n an (mark_unchanged_n d) = true.
Proof.
  induction d as [o row m kids IH] using dnode_ind2. intros an H. cbn [mark_unchanged_n].
  destruct (op_eqb o Affected); [|exact H].
  rewrite order_ok_n_eq in *. destruct (alookup row an) as [[mn sn]|]; [|reflexivity].
  apply order_ok_map; [exact mark_row | exact mark_removed | exact IH | exact H].
Qed.

Lemma order_mark_all an d : order_ok an d = true -> order_ok an (mark_unchanged d) = true.
Proof.
  intros H. unfold mark_unchanged. apply order_ok_map; [exact mark_row | exact mark_removed | | exact H].
  apply Forall_forall. intros x _. apply order_mark.
Qed.

(* ---------- generic: only one key contributes ---------- *)
Lemma filter_flat_map {A B} (p : B -> bool) (F : A -> list B) l :
  filter p (flat_map F l) = flat_map (fun x => filter p (F x)) l.
Proof.
  induction l as [|x l IH]; [reflexivity|]. cbn [flat_map]. rewrite filter_app, IH. reflexivity.
Qed.

Lemma flat_map_single {B} (F : dlogic -> list B) (L0 : dlogic) : forall keys,
  NoDup keys -> (forall L, L <> L0 -> F L = []) -> (~ In L0 keys -> F L0 = []) ->
  flat_map F keys = F L0.
Proof.
  induction keys as [|k keys IH]; intros Hnd Hne Hnot.
  - cbn. symmetry. apply Hnot. intros [].
  - inversion Hnd as [|k' keys' Hk Hnd']; subst. cbn [flat_map].
    destruct (dlogic_eqb k L0) eqn:E.
    + apply dlogic_eqb_eq in E. subst k.
      assert (Hrest : flat_map F keys = []).
      { clear - Hk Hne. induction keys as [|k keys IH]; [reflexivity|]. cbn [flat_map].
        rewrite Hne by (intro E; subst; apply Hk; now left).
        apply IH. intro Hin. apply Hk. now right. }
      rewrite Hrest, app_nil_r. reflexivity.
    + apply dlogic_eqb_neq in E. rewrite (Hne k E). cbn [app].
      apply IH; [exact Hnd' | exact Hne|]. intros Hn. apply Hnot. intros [H|H]; [contradiction | exact (Hn H)].
Qed.

Lemma filter_nil {A} (p : A -> bool) l : (forall x, In x l -> p x = false) -> filter p l = [].
Proof.
  induction l as [|x l IH]; intros H; [reflexivity|]. cbn [filter].
  rewrite (H x) by (now left). apply IH. intros y Hy. apply H. now right.
Qed.

Lemma run_dlogic_In L og ng pop inrw d :
  In d (run_dlogic L og ng pop inrw) ->
  exists inrw' mta y, In y (base_diff og pop inrw' mta ng) /\ (d = y \/ d = aff_to_moved_n y).
Proof.
  unfold run_dlogic. destruct L.
  - intros H. exists inrw, true, d. auto.
  - intros H. exists inrw, false, d. auto.
  - destruct inrw.
    + intros H. exists true, false, d. auto.
    + destruct (all_affected _); [intros []|]. intros H. unfold aff_to_moved in H.
      apply in_map_iff in H as (y & Ey & Hy). exists true, false, y. auto.
Qed.

Definition OO (t : atree) : Prop :=
  forall ao pop inrw, awf ao -> awf (akids t) -> compat ao (akids t) -> pop_ok pop ao ->
  order_ok (akids t) (diff_t t ao pop inrw) = true.

Section OrderLevel.
  Variables (ao nk : aforest) (pop : op).
  Hypothesis Hwo : awf ao.
  Hypothesis Hwn : awf nk.
  Hypothesis Hc : compat ao nk.
  Hypothesis Hpop : pop_ok pop ao.

  Let NDo := awf_NoDup ao Hwo.
  Let NDn := awf_NoDup nk Hwn.

  (* everything known about an entry produced by scan_new for a row of new *)
  Lemma scan_shape L inrw' r m c d :
    In (r, m, c) nk -> mi_dlogic m = L -> scan_rel (filter (inL L) ao) pop inrw' (r, m, c) d ->
    alookup r nk = Some (m, c) /\ awf (akids c) /\
    exists o oldk, d = DN o r m (diff_t c oldk o inrw') /\ o <> Removed /\
                   awf oldk /\ compat oldk (akids c) /\ pop_ok o oldk /\
                   ((o = Added /\ alookup r ao = None) \/
                    ((o = pop \/ o = Moved) /\ exists so, alookup r ao = Some (m, so) /\ oldk = akids so)).
  Proof.
    intros Hk HL Hrel.
    split; [apply alookup_In; assumption|].
    split; [eapply awf_In; [exact Hwn | exact Hk]|].
    unfold scan_rel, arow, ami, asub in Hrel. cbn [fst snd] in Hrel.
    rewrite (old_group_lookup ao nk Hwo Hc L r m c Hk HL) in Hrel.
    destruct (alookup r ao) as [[mo so]|] eqn:Elo.
    - destruct Hrel as (o & Ho & Ed).
      destruct (compat_In ao nk Hc r m c mo so Hk Elo) as [Em Hcs]. subst mo.
      assert (Ho' : o = Affected \/ o = Moved).
      { destruct Ho as [Ho|Ho]; [|auto]. subst o.
        destruct Hpop as [Hp|[Hp|Hp]]; [auto | auto | rewrite Hp in Elo; discriminate]. }
      exists o, (akids so). split; [exact Ed|]. split; [destruct Ho'; subst o; discriminate|].
      split; [eapply awf_In; [exact Hwo | apply alookup_Some_In; exact Elo]|].
      split; [exact Hcs|].
      split; [destruct Ho' as [E|E]; subst o; [left | right; left]; reflexivity|].
      right. split; [exact Ho|]. exists so. auto.
    - exists Added, []. split; [exact Hrel|]. split; [discriminate|].
      split; [constructor|]. split; [apply compat_nil_l|]. split; [right; right; reflexivity|].
      left. auto.
  Qed.

  Hypothesis IH : Forall (fun k => OO (asub k)) nk.

  Lemma entry_order L inrw' mta y :
    In y (base_diff (filter (inL L) ao) pop inrw' mta (cks (filter (inL L) nk))) ->
    order_ok_n nk y = true.
  Proof.
    intros Hy. apply base_diff_In in Hy as [(k & Hk & Hrel)|(k & Hk & Hn & E)].
    - apply filter_In in Hk as [Hk HL]. destruct k as [[r m] c].
      unfold inL, ami in HL. cbn [fst snd] in HL. apply dlogic_eqb_eq in HL.
      destruct (scan_shape L inrw' r m c y Hk HL Hrel)
        as (Eln & Hwc & o & oldk & Ed & _ & Hwk & Hck & Hpk & _).
      subst y. rewrite order_ok_n_eq, Eln.
      rewrite Forall_forall in IH. apply (IH _ Hk); assumption.
    - apply filter_In in Hk as [Hk HL]. destruct k as [[r m] c]. subst y.
      unfold inL, ami in HL. cbn [fst snd] in HL. apply dlogic_eqb_eq in HL.
      unfold mkrem, arow, ami, asub. cbn [fst snd]. rewrite order_ok_n_eq.
      rewrite (new_group_absent ao nk Hwo Hc L r m c Hk HL Hn). reflexivity.
  Qed.

  Lemma is_ordered_dl_of r : is_ordered_in nk r = true -> dl_of ao nk r = DOrdered.
  Proof.
    unfold is_ordered_in, dl_in, dl_of. destruct (alookup r nk) as [[mn sn]|] eqn:El; [|discriminate].
    intros H. assert (E : mi_dlogic mn = DOrdered) by (destruct (mi_dlogic mn); try discriminate; reflexivity).
    destruct (alookup r ao) as [[mo so]|] eqn:Elo; [|exact E].
    apply alookup_Some_In in El.
    destruct (compat_In ao nk Hc r mn sn mo so El Elo) as [Em _]. subst mo. exact E.
  Qed.

  Hypothesis IHL : Forall (fun k => LL (asub k)) nk.

  Lemma level_order inrw : order_ok nk (diff_level ao (cks nk) pop inrw) = true.
  Proof.
    rewrite diff_level_unfold.
    set (keys := uniq_dl _ []).
    set (G := fun L => run_dlogic L (filter (inL L) ao) (cks (filter (inL L) nk)) pop inrw).
    assert (HG : forall L, group_ok ao nk L (G L)) by (intros L; apply run_group_ok; assumption).
    assert (Hdl : forall L d, In d (G L) -> dl_of ao nk (d_row d) = L).
    { intros L d Hd. destruct (HG L) as (_ & _ & G3 & _). destruct (G3 d Hd) as [H|H].
      - apply dl_of_old; assumption.
      - apply dl_of_new; assumption. }
    apply order_ok_iff. split.
    - rewrite filter_flat_map.
      rewrite (flat_map_single (fun L => filter (ordp nk) (G L)) DOrdered keys).
      + subst G. cbn [run_dlogic]. unfold base_diff. rewrite interleave_filter.
        * apply scan_rows.
        * intros d Hd. apply scan_In in Hd as (k & Hk & Hrel).
          apply filter_In in Hk as [Hk HL]. destruct k as [[r m] c].
          unfold inL, ami in HL. cbn [fst snd] in HL. apply dlogic_eqb_eq in HL.
          destruct (scan_shape DOrdered inrw r m c d Hk HL Hrel)
            as (Eln & _ & o & oldk & Ed & Ho & _).
          subst d. unfold ordp, is_ordered_in, dl_in. cbn [d_row d_op]. rewrite Eln, HL.
          destruct o; try reflexivity. congruence.
        * intros d Hd. rewrite removed_rows_spec in Hd. apply in_map_iff in Hd as (k & E & _).
          subst d. unfold ordp, mkrem. cbn [d_op op_eqb negb]. apply andb_false_r.
      + apply uniq_dl_NoDup.
      + intros L HL. apply filter_nil. intros d Hd.
        destruct (ordp nk d) eqn:E; [|reflexivity]. exfalso. apply HL.
        unfold ordp in E. apply andb_true_iff in E as [E _].
        apply is_ordered_dl_of in E. rewrite (Hdl L d Hd) in E. exact E.
      + intros Hn. destruct (G DOrdered) as [|d rest] eqn:EG; [reflexivity|]. exfalso. apply Hn.
        destruct (HG DOrdered) as (_ & _ & G3 & _). rewrite EG in G3.
        specialize (G3 d (or_introl eq_refl)). apply uniq_dl_In0. apply in_or_app.
        destruct G3 as [H|H]; [left | right]; unfold arows in H;
          apply in_map_iff in H as (k & _ & Hk); apply filter_In in Hk as [Hk HL];
          unfold inL in HL; apply dlogic_eqb_eq in HL; rewrite <- HL;
          apply (in_map (fun k => mi_dlogic (ami k))); exact Hk.
    - intros x Hx. apply in_flat_map in Hx as (L & _ & Hx).
      apply run_dlogic_In in Hx as (inrw' & mta & y & Hy & [E|E]); subst x.
      + eapply entry_order. exact Hy.
      + apply order_aff_to_moved. eapply entry_order. exact Hy.
  Qed.
End OrderLevel.

Theorem diff_t_order : forall t, OO t.
Proof.
  induction t as [nk IH] using atree_ind2. unfold OO. cbn [akids].
  intros ao pop inrw Hwo Hwn Hc Hpop. rewrite diff_t_unfold.
  apply level_order; try assumption.
  apply Forall_forall. intros k _. apply diff_t_lossless.
Qed.

Section TopOrder.
  Variable rmatch : string -> string -> option (list string).
  Theorem diff_order_ok_lib : forall rs old new, wf old -> wf new ->
    order_ok (annot_f rmatch rs new) (make_diff rmatch rs old new) = true.
  Proof.
    intros rs old new Ho Hn. unfold make_diff, raw_diff. apply order_mark_all.
    change (annot_f rmatch rs new) with (akids (annot rmatch rs (T new))).
    apply diff_t_order.
    - apply annot_awf. exact Ho.
    - apply (annot_awf rmatch new rs Hn).
    - apply (annot_compat rmatch new rs old).
    - left. reflexivity.
  Qed.
End TopOrder.
