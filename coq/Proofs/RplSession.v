(* C14 — generator objects run more than once (Spec/P_C14h.v). *)
From Coq Require Import List String Ascii Bool Arith.
From Annet Require Import Base.Str Base.Tree Model.Offside Model.Rpl Spec.P_C14 Spec.P_C14r Spec.P_C14h
  Proofs.RplRefs Proofs.RplDefs.
Import ListNotations.
Open Scope string_scope.
Open Scope list_scope.

Section Objects.
  Variables (S I O : Type).
  Variable step : S -> I -> O * S.

  Lemma state_after_app : forall hist s x,
    state_after step s (hist ++ [x]) = snd (step (state_after step s hist) x).
  Proof.
    induction hist as [|h t IH]; intros s x; cbn; [reflexivity|]. apply IH.
  Qed.

  Lemma runs_from_history : forall s0, history_free step s0 ->
    forall xs hist, runs step (state_after step s0 hist) xs = map (fun x => fst (step s0 x)) xs.
  Proof.
    intros s0 HF xs. induction xs as [|x r IH]; intros hist; cbn; [reflexivity|].
    rewrite (HF hist x). f_equal. rewrite <- state_after_app. apply IH.
  Qed.

  (* a session of a history-free object = the first runs of new objects *)
  Lemma runs_history_free : forall s0, history_free step s0 ->
    forall xs, runs step s0 xs = map (fun x => fst (step s0 x)) xs.
  Proof. intros s0 HF xs. exact (runs_from_history s0 HF xs []). Qed.

  (* so a law of single runs holds of every run of every session *)
  Lemma session_law : forall s0 (P : I -> O -> bool) (dom : I -> bool),
    history_free step s0 ->
    (forall x, dom x = true -> P x (fst (step s0 x)) = true) ->
    forall xs, forallb dom xs = true ->
      forallb (fun xo => P (fst xo) (snd xo)) (combine xs (runs step s0 xs)) = true.
  Proof.
    intros s0 P dom HF HP xs Hd. rewrite (runs_history_free s0 HF).
    induction xs as [|x r IH]; cbn; [reflexivity|].
    cbn in Hd. apply andb_true_iff in Hd. destruct Hd as [Hx Hr].
    rewrite (HP x Hx). cbn. apply IH. exact Hr.
  Qed.

  (* conversely: if some run of some session differs from the first run of a new object, the object is not
     history free (what the correspondence run looks for) *)
  Lemma not_history_free : forall s0 hist x,
    fst (step (state_after step s0 hist) x) <> fst (step s0 x) -> ~ history_free step s0.
  Proof. intros s0 hist x Hne HF. apply Hne. apply HF. Qed.
End Objects.

(* the model has no state *)
Lemma model_history_free : forall fx, history_free (model_step fx) tt.
Proof. intros fx hist x. reflexivity. Qed.

(* prefix_gen_of with the uses of the program is prefix_gen; with nothing seen the object's first run is
   the model's run *)
Lemma prefix_gen_of_used : forall v e ps, prefix_gen_of (used_prefixes ps) v e = prefix_gen v e ps.
Proof. intros v e ps. reflexivity. Qed.

Lemma list_gens_seen_nil : forall v g, list_gens_seen [] v g = list_gens v g.
Proof. intros v g. destruct v; reflexivity. Qed.

Lemma persisted_first_run : forall fx x,
  fst (persisted_names_step fx [] x) = fst (model_step fx tt x).
Proof.
  intros fx [v g]. unfold persisted_names_step, model_step, lists_rows. cbn [fst snd].
  rewrite list_gens_seen_nil. reflexivity.
Qed.

Definition sess_dom (x : vendor * prog) : bool :=
  wf_refs (snd x) && refs_guard (fst x) (snd x) && lists_ok (fst x) (snd x).

(* refs_defined on every run of every session of the model's object *)
Lemma session_refs_defined : forall fx (xs : list (vendor * prog)),
  forallb sess_dom xs = true ->
  forallb (fun xo => refs_defined_run (fst xo) (snd xo)) (combine xs (runs (model_step fx) tt xs)) = true.
Proof.
  intros fx xs Hd.
  apply (session_law unit (vendor * prog) run_out (model_step fx) tt refs_defined_run sess_dom
                     (model_history_free fx)); [|exact Hd].
  intros [v g] Hx. unfold sess_dom in Hx. cbn [fst snd] in Hx.
  apply andb_true_iff in Hx. destruct Hx as [Hx H3]. apply andb_true_iff in Hx. destruct Hx as [H1 H2].
  unfold refs_defined_run, model_step. cbn [fst snd].
  apply refs_defined_holds; assumption.
Qed.
