(* C10: the general tree theorem extends the plain one: every program of plain rows (wf_prog) is inside
   the wider guard wfx_prog, with the same yielded paths and the same tree. *)
From Coq Require Import List String Ascii Bool Arith Lia.
From Annet Require Import Base.Str Base.Tree Model.Offside Spec.P_C05 Proofs.OffsideProofs.
From Annet Require Import Model.GenProg Spec.P_C10 Proofs.GenProgProofs Spec.P_C10b.
Import ListNotations.
Open Scope string_scope.
Open Scope list_scope.
Arguments Nat.ltb : simpl never.

Lemma wf_row_facts r : wf_row r = true ->
  dropped r = false /\ has_none_word r = false /\ startswith "#" r = false /\ parse_indent r = 0.
Proof.
  unfold wf_row. rewrite !andb_true_iff, !negb_true_iff. intros [[[[Hi He] Hb] Hh] Hn].
  assert (D : dropped r = false) by (unfold dropped; rewrite He, Hb, Hh; reflexivity).
  split; [exact D|]. split; [exact Hn|]. split.
  - destruct (startswith "#" r) eqn:E; [|reflexivity]. apply hash_prefix_strip in E. congruence.
  - apply Nat.eqb_eq. exact Hi.
Qed.

Lemma rows_sem_wf top bp rows : Forall (fun r => wf_row r = true) rows -> forall cur,
  rows_sem top bp cur rows =
    (true, map (fun r => bp ++ [key_of r]) rows,
     match rows with [] => cur | _ => @Some hist [(0, [key_of (last rows EmptyString)])] end)
  /\ rows_okx rows = true.
Proof.
  induction 1 as [|r rows Hr _ IH]; intros cur; [split; reflexivity|].
  destruct (wf_row_facts r Hr) as (D & O & Hh & Hi).
  cbn [rows_sem]. rewrite Hh, andb_false_r, D. unfold place. rewrite Hi. cbn [Nat.eqb].
  destruct (IH (@Some hist [(0, [key_of r])])) as [E W]. rewrite E. split.
  - cbn [map]. f_equal. destruct rows as [|r2 rows']; reflexivity.
  - cbn [rows_okx forallb]. rewrite O. exact W.
Qed.

Lemma vblock_wf top bp cur toks i (ksem : bool -> list string -> cursor -> vres)
      (kpaths : list string -> list (list string)) :
  wf_toks toks = true -> 0 < i ->
  (forall top' bp' cur', exists cb, ksem top' bp' cur' = (true, kpaths bp', cb)) ->
  exists cur', vblock top bp cur toks i ksem = (true, sp_block bp toks kpaths, cur').
Proof.
  intros Wt Hi K. unfold wf_toks in Wt. unfold vblock, sp_block.
  destruct (join_toks toks) as [e|b]; [discriminate|].
  unfold wf_block_text in Wt. unfold ypaths_text.
  destruct (split_and_strip b) as [|r [|? ?]]; try discriminate.
  destruct (rows_sem_wf top bp [r] (Forall_cons _ Wt (Forall_nil _)) cur) as [E W].
  rewrite E, W. cbn [map last].
  assert (Ei : Nat.eqb i 0 = false) by (apply Nat.eqb_neq; lia). rewrite Ei.
  assert (El : Nat.ltb 0 i = true) by (apply Nat.ltb_lt; exact Hi).
  unfold parent_of, opens, ref_consistent. cbn [find fst]. rewrite El.
  destruct (K false (bp ++ [key_of r]) None) as (cb & Eb). rewrite Eb.
  cbn [andb orb]. rewrite orb_true_r.
  eexists. reflexivity.
Qed.

Lemma vmulti_wf blocks : forall top bp cur (ksem : bool -> list string -> cursor -> vres)
      (kpaths : list string -> list (list string)),
  forallb (fun b => wf_toks (mblk_toks b)) blocks = true ->
  (forall top' bp' cur', exists cb, ksem top' bp' cur' = (true, kpaths bp', cb)) ->
  exists cur', vmulti top bp cur blocks ksem = (true, sp_multiblock bp blocks kpaths, cur').
Proof.
  induction blocks as [|b blocks IH]; intros top bp cur ksem kpaths W K.
  - cbn. apply K.
  - cbn in W. apply andb_true_iff in W as [Wb W]. cbn [vmulti sp_multiblock].
    apply vblock_wf; [exact Wb|unfold default_indent; lia|].
    intros top' bp' cur'. apply IH; assumption.
Qed.

Theorem vsem_wf : forall s top bp cur, wf_stmt s = true ->
  exists cur', vsem top bp cur s = (true, ypaths bp s, cur').
Proof.
  apply (stmt_ind2
    (fun s => forall top bp cur, wf_stmt s = true -> exists cur', vsem top bp cur s = (true, ypaths bp s, cur'))
    (fun ss => forall top bp cur, forallb wf_stmt ss = true ->
       exists cur', vseq (vsem top bp) cur ss = (true, flat_map (ypaths bp) ss, cur'))).
  - intros v top bp cur W. cbn [wf_stmt] in W. cbn [vsem ypaths]. unfold ypaths_yield.
    destruct (ytext v) as [e|t]; [discriminate|].
    unfold wf_text in W. rewrite forallb_forall in W. apply Forall_forall in W.
    destruct (rows_sem_wf top bp _ W cur) as [E O]. rewrite E, O. unfold ypaths_text. eexists. reflexivity.
  - intros toks ind body IH top bp cur W. cbn [wf_stmt] in W. rewrite !andb_true_iff in W.
    destruct W as [[Wt Wi] Wb]. cbn [vsem ypaths]. apply vblock_wf; [exact Wt| |].
    + destruct ind as [[|n]|]; cbn in *; try discriminate; unfold default_indent; lia.
    + intros top' bp' cur'. apply IH. exact Wb.
  - intros toks cond body IH top bp cur W. cbn [wf_stmt] in W. rewrite andb_true_iff in W.
    destruct W as [Wt Wb]. cbn [vsem ypaths]. destruct (block_if_cond toks cond).
    + apply vblock_wf; [exact Wt|unfold default_indent; lia|]. intros top' bp' cur'. apply IH. exact Wb.
    + apply IH. exact Wb.
  - intros blocks body IH top bp cur W. cbn [wf_stmt] in W. rewrite andb_true_iff in W.
    destruct W as [Wt Wb]. cbn [vsem ypaths]. apply vmulti_wf; [exact Wt|].
    intros top' bp' cur'. apply IH. exact Wb.
  - intros blocks cond body IH top bp cur W. cbn [wf_stmt] in W. rewrite andb_true_iff in W.
    destruct W as [Wt Wb]. cbn [vsem ypaths]. destruct (multiblock_if_cond blocks cond).
    + apply vmulti_wf; [exact Wt|]. intros top' bp' cur'. apply IH. exact Wb.
    + apply IH. exact Wb.
  - intros top bp cur _. eexists. reflexivity.
  - intros s ss IHs IHss top bp cur W. cbn [forallb] in W. apply andb_true_iff in W as [Ws Wss].
    destruct (IHs top bp cur Ws) as (c1 & E1). destruct (IHss top bp c1 Wss) as (c2 & E2).
    cbn [vseq flat_map]. rewrite E1, E2. eexists. reflexivity.
Qed.

Lemma vseq_wf ss : forall top bp cur, forallb wf_stmt ss = true ->
  exists cur', vseq (vsem top bp) cur ss = (true, flat_map (ypaths bp) ss, cur').
Proof.
  induction ss as [|s ss IH]; intros top bp cur W; [eexists; reflexivity|].
  cbn [forallb] in W. apply andb_true_iff in W as [Ws Wss].
  destruct (vsem_wf s top bp cur Ws) as (c1 & E1). destruct (IH top bp c1 Wss) as (c2 & E2).
  cbn [vseq flat_map]. rewrite E1, E2. eexists. reflexivity.
Qed.

Theorem wfx_extends p : wf_prog p = true -> wfx_prog p = true /\ prog_paths' p = prog_paths p /\ tree_of' p = tree_of p.
Proof.
  intros W. unfold wf_prog in W.
  destruct (vseq_wf p true [] None W) as (cur' & E).
  unfold wfx_prog, tree_of', prog_paths', tree_of, vprog, prog_paths. rewrite E. cbn [fst snd].
  repeat split; reflexivity.
Qed.
