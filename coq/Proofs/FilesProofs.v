(* Lemma library for C19 (file-based devices). *)
From Coq Require Import List String Ascii Bool Arith ZArith Lia Permutation.
From Annet Require Import Base.Str Model.Files Spec.P_C19.
Import ListNotations.
Open Scope string_scope.
Open Scope list_scope.

(* ================================================================ association lists *)

Lemma mem_In k l : mem k l = true <-> In k l.
Proof.
  unfold mem. rewrite existsb_exists. split.
  - intros [x [Hx E]]. apply String.eqb_eq in E. subst. exact Hx.
  - intro H. exists k. split; [exact H | apply String.eqb_refl].
Qed.

Lemma nodupb_NoDup l : nodupb l = true <-> NoDup l.
Proof.
  induction l as [|x r IH]; cbn.
  - split; [constructor | reflexivity].
  - rewrite andb_true_iff, negb_true_iff, IH. split.
    + intros [Hn Hr]. constructor; [|exact Hr]. intro Hin.
      assert (E : existsb (String.eqb x) r = true).
      { apply existsb_exists. exists x. split; [exact Hin | apply String.eqb_refl]. }
      rewrite E in Hn. discriminate.
    + intro H. inversion H as [|a b Hn Hr]; subst. split; [|exact Hr].
      destruct (existsb (String.eqb x) r) eqn:E; [|reflexivity].
      apply existsb_exists in E as [y [Hy Ey]]. apply String.eqb_eq in Ey. subst. contradiction.
Qed.

Section Assoc.
  Context {V : Type}.

  Lemma lookup_Some_In k (v : V) l : lookup k l = Some v -> In (k, v) l.
  Proof.
    induction l as [|[k' v'] r IH]; cbn; [discriminate|].
    destruct (String.eqb k' k) eqn:E.
    - intro H. injection H as H. subst. apply String.eqb_eq in E. subst. left. reflexivity.
    - intro H. right. apply IH. exact H.
  Qed.

  Lemma lookup_None k (l : list (string * V)) : lookup k l = None <-> ~ In k (keys l).
  Proof.
    induction l as [|[k' v'] r IH]; cbn.
    - split; [intros _ H; exact H | reflexivity].
    - destruct (String.eqb k' k) eqn:E.
      + apply String.eqb_eq in E. subst. split; [discriminate|]. intro H. exfalso. apply H. left. reflexivity.
      + apply String.eqb_neq in E. rewrite IH. split.
        * intros H [H1|H1]; [contradiction | apply H; exact H1].
        * intros H H1. apply H. right. exact H1.
  Qed.

  Lemma lookup_In_nodup k (v : V) l : NoDup (keys l) -> In (k, v) l -> lookup k l = Some v.
  Proof.
    induction l as [|[k' v'] r IH]; cbn; intros Hnd Hin; [contradiction|].
    inversion Hnd as [|a b Hn Hr]; subst.
    destruct Hin as [Hin|Hin].
    - injection Hin as E1 E2. subst. rewrite String.eqb_refl. reflexivity.
    - destruct (String.eqb k' k) eqn:E.
      + apply String.eqb_eq in E. subst. exfalso. apply Hn.
        change k with (fst (k, v)). apply in_map. exact Hin.
      + apply IH; assumption.
  Qed.

  Variable veqb : V -> V -> bool.
  Hypothesis veqb_refl : forall v, veqb v v = true.

  Lemma assoc_sub_intro (a b : list (string * V)) :
    NoDup (keys a) -> (forall k, lookup k a = lookup k b) -> assoc_sub veqb a b = true.
  Proof.
    intros Hnd H. unfold assoc_sub. apply forallb_forall. intros [k v] Hin. cbn [fst snd].
    rewrite <- H. rewrite (lookup_In_nodup k v a Hnd Hin). apply veqb_refl.
  Qed.

  Lemma assoc_eqb_intro (a b : list (string * V)) :
    NoDup (keys a) -> NoDup (keys b) -> (forall k, lookup k a = lookup k b) ->
    assoc_eqb veqb a b = true.
  Proof.
    intros Ha Hb H. unfold assoc_eqb.
    rewrite (proj2 (nodupb_NoDup _) Ha), (proj2 (nodupb_NoDup _) Hb).
    rewrite (assoc_sub_intro a b Ha H).
    rewrite (assoc_sub_intro b a Hb (fun k => eq_sym (H k))). reflexivity.
  Qed.
End Assoc.

(* filter + map on a dict, seen through lookup *)
Section FilterMap.
  Context {V W : Type}.
  Variable q : string * V -> bool.
  Variable f : string * V -> W.

  Definition fm (l : list (string * V)) : list (string * W) :=
    map (fun e => (fst e, f e)) (filter q l).

  Lemma keys_fm_incl l k : In k (keys (fm l)) -> In k (keys l).
  Proof.
    unfold fm, keys. rewrite map_map. cbn [fst]. intro H.
    apply in_map_iff in H as [e [E Hin]]. apply filter_In in Hin as [Hin _].
    subst. apply in_map. exact Hin.
  Qed.

  Lemma keys_fm_nodup l : NoDup (keys l) -> NoDup (keys (fm l)).
  Proof.
    induction l as [|[k v] r IH]; cbn; intro Hnd; [constructor|].
    inversion Hnd as [|a b Hn Hr]; subst. unfold fm. cbn [filter].
    destruct (q (k, v)); cbn.
    - constructor; [|apply IH; exact Hr]. intro H. apply Hn. apply (keys_fm_incl r k). exact H.
    - apply IH. exact Hr.
  Qed.

  Lemma lookup_fm l k :
    NoDup (keys l) ->
    lookup k (fm l) = match lookup k l with
                      | Some v => if q (k, v) then Some (f (k, v)) else None
                      | None => None
                      end.
  Proof.
    induction l as [|[k' v'] r IH]; cbn; intro Hnd; [reflexivity|].
    inversion Hnd as [|a b Hn Hr]; subst. unfold fm. cbn [filter].
    destruct (String.eqb k' k) eqn:E.
    - apply String.eqb_eq in E. subst k'.
      destruct (q (k, v')) eqn:Q; cbn.
      + rewrite String.eqb_refl. reflexivity.
      + apply lookup_None. intro H. apply Hn. apply (keys_fm_incl r k). exact H.
    - destruct (q (k', v')); cbn; [rewrite E|]; apply IH; exact Hr.
  Qed.
End FilterMap.

Lemma fm_ext_lookup {V W} (q : string * V -> bool) (f : string * V -> W) a b :
  NoDup (keys a) -> NoDup (keys b) -> (forall k, lookup k a = lookup k b) ->
  forall k, lookup k (fm q f a) = lookup k (fm q f b).
Proof. intros Ha Hb H k. rewrite !lookup_fm by assumption. rewrite H. reflexivity. Qed.

(* ================================================================ priorities *)

Definition findp (p : string) (res : list gen) : option gen :=
  find (fun e => String.eqb (g_path e) p) res.

Lemma findp_add_entire p res r :
  findp p (add_entire res r) =
  if String.eqb (g_path r) p
  then match findp p res with
       | None => Some r
       | Some e => if Z.ltb (g_prio e) (g_prio r) then Some r else Some e
       end
  else findp p res.
Proof.
  induction res as [|e rest IH]; cbn.
  - destruct (String.eqb (g_path r) p); reflexivity.
  - destruct (String.eqb (g_path e) (g_path r)) eqn:Eer.
    + apply String.eqb_eq in Eer.
      destruct (String.eqb (g_path r) p) eqn:Erp.
      * rewrite Eer, Erp. destruct (Z.ltb (g_prio e) (g_prio r)); cbn.
        -- rewrite Erp. reflexivity.
        -- rewrite Eer, Erp. reflexivity.
      * rewrite Eer, Erp. destruct (Z.ltb (g_prio e) (g_prio r)); cbn.
        -- rewrite Erp. reflexivity.
        -- rewrite Eer, Erp. reflexivity.
    + cbn. destruct (String.eqb (g_path e) p) eqn:Eep.
      * apply String.eqb_eq in Eep. subst p. apply String.eqb_neq in Eer.
        assert (E : String.eqb (g_path r) (g_path e) = false).
        { apply String.eqb_neq. intro H. apply Eer. symmetry. exact H. }
        rewrite E. reflexivity.
      * exact IH.
Qed.

Lemma paths_add_entire res r q :
  In q (map g_path (add_entire res r)) <-> q = g_path r \/ In q (map g_path res).
Proof.
  induction res as [|e rest IH]; cbn.
  - split; [intros [H|[]]; left; symmetry; exact H | intros [H|[]]; left; symmetry; exact H].
  - destruct (String.eqb (g_path e) (g_path r)) eqn:E.
    + apply String.eqb_eq in E. destruct (Z.ltb (g_prio e) (g_prio r)); cbn; rewrite ?E; split.
      * intros [H|H]; [left; symmetry; exact H | right; right; exact H].
      * intros [H|[H|H]]; [left; symmetry; exact H | left; exact H | right; exact H].
      * intros [H|H]; [left; symmetry; exact H | right; right; exact H].
      * intros [H|[H|H]]; [left; symmetry; exact H | left; exact H | right; exact H].
    + cbn. rewrite IH. split.
      * intros [H|[H|H]]; [right; left; exact H | left; exact H | right; right; exact H].
      * intros [H|[H|H]]; [right; left; exact H | left; exact H | right; right; exact H].
Qed.

Lemma nodup_add_entire res r :
  NoDup (map g_path res) -> NoDup (map g_path (add_entire res r)).
Proof.
  induction res as [|e rest IH]; cbn; intro Hnd.
  - constructor; [intros [] | constructor].
  - inversion Hnd as [|a b Hn Hr]; subst.
    destruct (String.eqb (g_path e) (g_path r)) eqn:E.
    + apply String.eqb_eq in E. destruct (Z.ltb (g_prio e) (g_prio r)); cbn.
      * rewrite <- E. constructor; assumption.
      * constructor; assumption.
    + cbn. constructor; [|apply IH; exact Hr].
      intro H. apply paths_add_entire in H as [H|H].
      * apply String.eqb_neq in E. contradiction.
      * contradiction.
Qed.

(* the running maximum for one path, on the listed generators *)
Definition pick (etck : bool) (p : string) (b : option gen) (g : gen) : option gen :=
  if is_empty (g_path g) then b
  else if String.eqb (g_path g) p
       then match b with
            | None => Some (result_of etck g)
            | Some e => if Z.ltb (g_prio e) (g_prio g) then Some (result_of etck g) else Some e
            end
       else b.

Lemma findp_run_step etck p res g :
  findp p (run_step etck res g) = pick etck p (findp p res) g.
Proof.
  unfold run_step, pick. destruct (is_empty (g_path g)); [reflexivity|].
  rewrite findp_add_entire. cbn [result_of g_path g_prio]. reflexivity.
Qed.

Lemma findp_fold etck p gens acc :
  findp p (fold_left (run_step etck) gens acc) = fold_left (pick etck p) gens (findp p acc).
Proof.
  revert acc. induction gens as [|g gs IH]; intro acc; cbn [fold_left]; [reflexivity|].
  rewrite IH, findp_run_step. reflexivity.
Qed.

Lemma nodup_fold etck gens acc :
  NoDup (map g_path acc) -> NoDup (map g_path (fold_left (run_step etck) gens acc)).
Proof.
  revert acc. induction gens as [|g gs IH]; intros acc H; cbn; [exact H|].
  apply IH. unfold run_step. destruct (is_empty (g_path g)); [exact H|].
  apply nodup_add_entire. exact H.
Qed.

Lemma nodup_run etck gens : NoDup (map g_path (run_file_generators etck gens)).
Proof. apply nodup_fold. constructor. Qed.

(* g competes for path p *)
Definition cand (p : string) (g : gen) : Prop := g_path g = p /\ g_path g <> "".

Lemma is_empty_false s : is_empty s = false <-> s <> "".
Proof.
  destruct s; cbn; split; intro H.
  - discriminate.
  - exfalso. apply H. reflexivity.
  - discriminate.
  - reflexivity.
Qed.

Lemma pick_fold_spec etck p gens : forall b,
  match fold_left (pick etck p) gens b with
  | Some m =>
    (b = Some m \/ exists g, In g gens /\ cand p g /\ m = result_of etck g) /\
    (forall g, In g gens -> cand p g -> (g_prio g <= g_prio m)%Z) /\
    (forall e, b = Some e -> (g_prio e <= g_prio m)%Z)
  | None => b = None /\ forall g, In g gens -> ~ cand p g
  end.
Proof.
  induction gens as [|g gs IH]; intro b; cbn [fold_left].
  - destruct b as [m|].
    + split; [left; reflexivity|]. split; [intros g []|]. intros e E. injection E as E. subst. lia.
    + split; [reflexivity | intros g []].
  - specialize (IH (pick etck p b g)).
    destruct (fold_left (pick etck p) gs (pick etck p b g)) as [m|].
    + destruct IH as [H1 [H2 H3]]. unfold pick in H1, H3.
      destruct (is_empty (g_path g)) eqn:Eemp.
      * (* g skipped *)
        split; [|split].
        -- destruct H1 as [H1|[g' [Hin [Hc Hm]]]]; [left; exact H1|].
           right. exists g'. split; [right; exact Hin | split; assumption].
        -- intros g' [Hg|Hg] Hc; [|apply H2; assumption].
           subst g'. destruct Hc as [_ Hne]. destruct (g_path g); [contradiction | discriminate].
        -- exact H3.
      * destruct (String.eqb (g_path g) p) eqn:Egp.
        -- apply String.eqb_eq in Egp. apply is_empty_false in Eemp.
           assert (Hcg : cand p g) by (split; assumption).
           destruct b as [e|].
           ++ destruct (Z.ltb (g_prio e) (g_prio g)) eqn:Elt.
              ** apply Z.ltb_lt in Elt.
                 assert (Hgm : (g_prio g <= g_prio m)%Z).
                 { specialize (H3 _ eq_refl). cbn in H3. exact H3. }
                 split; [|split].
                 --- right. destruct H1 as [H1|[g' [Hin [Hc Hm]]]].
                     +++ injection H1 as H1. exists g. split; [left; reflexivity|]. split; [exact Hcg | symmetry; exact H1].
                     +++ exists g'. split; [right; exact Hin | split; assumption].
                 --- intros g' [Hg|Hg] Hc; [subst g'; exact Hgm | apply H2; assumption].
                 --- intros e' E. injection E as E. subst e'. lia.
              ** apply Z.ltb_ge in Elt.
                 assert (Hem : (g_prio e <= g_prio m)%Z) by (apply H3; reflexivity).
                 split; [|split].
                 --- destruct H1 as [H1|[g' [Hin [Hc Hm]]]]; [left; exact H1|].
                     right. exists g'. split; [right; exact Hin | split; assumption].
                 --- intros g' [Hg|Hg] Hc; [subst g'; lia | apply H2; assumption].
                 --- intros e' E. injection E as E. subst e'. exact Hem.
           ++ assert (Hgm : (g_prio g <= g_prio m)%Z).
              { specialize (H3 _ eq_refl). cbn in H3. exact H3. }
              split; [|split].
              ** right. destruct H1 as [H1|[g' [Hin [Hc Hm]]]].
                 --- injection H1 as H1. exists g. split; [left; reflexivity|]. split; [exact Hcg | symmetry; exact H1].
                 --- exists g'. split; [right; exact Hin | split; assumption].
              ** intros g' [Hg|Hg] Hc; [subst g'; exact Hgm | apply H2; assumption].
              ** intros e' E. discriminate.
        -- apply String.eqb_neq in Egp.
           split; [|split].
           ++ destruct H1 as [H1|[g' [Hin [Hc Hm]]]]; [left; exact H1|].
              right. exists g'. split; [right; exact Hin | split; assumption].
           ++ intros g' [Hg|Hg] Hc; [|apply H2; assumption].
              subst g'. destruct Hc as [Hc _]. contradiction.
           ++ exact H3.
    + destruct IH as [H1 H2]. unfold pick in H1.
      destruct (is_empty (g_path g)) eqn:Eemp.
      * split; [exact H1|]. intros g' [Hg|Hg]; [|apply H2; exact Hg].
        subst g'. intros [_ Hne]. destruct (g_path g); [contradiction | discriminate].
      * destruct (String.eqb (g_path g) p) eqn:Egp.
        -- destruct b as [e|]; [destruct (Z.ltb (g_prio e) (g_prio g))|]; discriminate.
        -- apply String.eqb_neq in Egp. split; [exact H1|].
           intros g' [Hg|Hg]; [|apply H2; exact Hg]. subst g'. intros [Hc _]. contradiction.
Qed.

(* with nothing planned yet *)
Lemma pick_fold_none etck p gens :
  match fold_left (pick etck p) gens None with
  | Some m => exists g, In g gens /\ cand p g /\ m = result_of etck g /\
                        forall h, In h gens -> cand p h -> (g_prio h <= g_prio g)%Z
  | None => forall g, In g gens -> ~ cand p g
  end.
Proof.
  pose proof (pick_fold_spec etck p gens None) as H.
  destruct (fold_left (pick etck p) gens None) as [m|].
  - destruct H as [[H|[g [Hin [Hc Hm]]]] [H2 _]]; [discriminate|].
    exists g. split; [exact Hin|]. split; [exact Hc|]. split; [exact Hm|].
    intros h Hh Hch. specialize (H2 h Hh Hch). subst m. cbn in H2. exact H2.
  - destruct H as [_ H]. exact H.
Qed.

(* ---------------------------------------------------------------- distinct priorities *)

Lemma same_key_sym g h : same_key g h = same_key h g.
Proof. unfold same_key. rewrite (String.eqb_sym (g_path g)), (Z.eqb_sym (g_prio g)). reflexivity. Qed.

Lemma same_key_intro g h : g_path g = g_path h -> g_prio g = g_prio h -> same_key g h = true.
Proof. intros H1 H2. unfold same_key. rewrite H1, H2, String.eqb_refl, Z.eqb_refl. reflexivity. Qed.

Lemma distinct_inj gens : distinct_prios gens = true ->
  forall g h, In g gens -> In h gens -> same_key g h = true -> g = h.
Proof.
  induction gens as [|a r IH]; cbn; intros Hd g h Hg Hh Hk; [contradiction|].
  apply andb_true_iff in Hd as [Hn Hd]. apply negb_true_iff in Hn.
  destruct Hg as [Hg|Hg]; destruct Hh as [Hh|Hh].
  - congruence.
  - subst a. exfalso. assert (E : existsb (same_key g) r = true).
    { apply existsb_exists. exists h. split; assumption. }
    congruence.
  - subst a. exfalso. assert (E : existsb (same_key h) r = true).
    { apply existsb_exists. exists g. split; [assumption | rewrite same_key_sym; exact Hk]. }
    congruence.
  - apply IH; assumption.
Qed.

Lemma distinct_perm gens gens' :
  Permutation gens gens' -> distinct_prios gens = true -> distinct_prios gens' = true.
Proof.
  intro HP. induction HP as [|x l l' HP IH|x y l|l l' l'' HP1 IH1 HP2 IH2]; cbn.
  - trivial.
  - intro H. apply andb_true_iff in H as [Hn Hd]. rewrite (IH Hd), andb_true_r.
    apply negb_true_iff in Hn. apply negb_true_iff.
    destruct (existsb (same_key x) l') eqn:E; [|reflexivity].
    apply existsb_exists in E as [h [Hh Hk]].
    assert (E : existsb (same_key x) l = true).
    { apply existsb_exists. exists h. split; [|exact Hk]. apply Permutation_in with l'; [symmetry; exact HP | exact Hh]. }
    congruence.
  - intro H. apply andb_true_iff in H as [Hn1 H]. apply andb_true_iff in H as [Hn2 Hd].
    apply negb_true_iff in Hn1. apply negb_true_iff in Hn2. cbn in Hn1.
    apply orb_false_iff in Hn1 as [Hyx Hn1].
    rewrite Hd, Hn1, andb_true_r. cbn. rewrite same_key_sym, Hyx, Hn2. reflexivity.
  - intro H. apply IH2, IH1, H.
Qed.

(* ---------------------------------------------------------------- the reference `planned` *)

Lemma is_winner_spec gens g :
  is_winner gens g = true <->
  g_path g <> "" /\ forall h, In h gens -> g_path h = g_path g -> (g_prio h <= g_prio g)%Z.
Proof.
  unfold is_winner. rewrite andb_true_iff, negb_true_iff, is_empty_false, forallb_forall.
  split; intros [H1 H2]; (split; [exact H1|]).
  - intros h Hh Hp. specialize (H2 h Hh). apply orb_true_iff in H2 as [H2|H2].
    + apply negb_true_iff, String.eqb_neq in H2. contradiction.
    + apply Z.leb_le. exact H2.
  - intros h Hh. destruct (String.eqb (g_path h) (g_path g)) eqn:E; cbn; [|reflexivity].
    apply String.eqb_eq in E. apply Z.leb_le. apply H2; assumption.
Qed.

Lemma winner_unique gens g h :
  distinct_prios gens = true -> In g gens -> In h gens ->
  is_winner gens g = true -> is_winner gens h = true -> g_path g = g_path h -> g = h.
Proof.
  intros Hd Hg Hh Wg Wh Hp.
  apply is_winner_spec in Wg as [_ Wg]. apply is_winner_spec in Wh as [_ Wh].
  apply (distinct_inj gens Hd g h Hg Hh). apply same_key_intro; [exact Hp|].
  specialize (Wg h Hh (eq_sym Hp)). specialize (Wh g Hg Hp). lia.
Qed.

Definition sel_ok (safe : bool) (g : gen) : bool := negb safe || g_safe g.

Lemma planned_keys etck safe gens g :
  In (g_path g) (keys (planned etck safe gens)) ->
  exists h, In h gens /\ is_winner gens h = true /\ sel_ok safe h = true /\ g_path h = g_path g.
Proof.
  unfold planned, keys. rewrite map_map. cbn. intro H.
  apply in_map_iff in H as [h [E Hin]]. apply filter_In in Hin as [Hin Hq].
  apply andb_true_iff in Hq as [Hw Hs]. exists h. repeat split; assumption.
Qed.

Lemma planned_nodup_gen etck safe gens l :
  distinct_prios l = true -> incl l gens ->
  NoDup (map (fun g => fst (entry_of (result_of etck g)))
             (filter (fun g => is_winner gens g && (negb safe || g_safe g)) l)).
Proof.
  induction l as [|a r IH]; cbn; intros Hd Hincl; [constructor|].
  apply andb_true_iff in Hd as [Hn Hd]. apply negb_true_iff in Hn.
  assert (Hr : incl r gens) by (intros z Hz; apply Hincl; right; exact Hz).
  destruct (is_winner gens a && (negb safe || g_safe a)) eqn:Q; [|apply IH; assumption].
  cbn. constructor; [|apply IH; assumption].
  intro H. apply in_map_iff in H as [h [E Hin]]. cbn in E.
  apply filter_In in Hin as [Hin Hq]. apply andb_true_iff in Hq as [Wh _].
  apply andb_true_iff in Q as [Wa _].
  apply is_winner_spec in Wa as [_ Wa]. apply is_winner_spec in Wh as [_ Wh].
  assert (Ha : In a gens) by (apply Hincl; left; reflexivity).
  assert (Hh : In h gens) by (apply Hr; exact Hin).
  specialize (Wa h Hh E). specialize (Wh a Ha (eq_sym E)).
  assert (K : same_key a h = true) by (apply same_key_intro; [symmetry; exact E | lia]).
  assert (X : existsb (same_key a) r = true).
  { apply existsb_exists. exists h. split; assumption. }
  congruence.
Qed.

Lemma planned_nodup etck safe gens :
  distinct_prios gens = true -> NoDup (keys (planned etck safe gens)).
Proof.
  intro Hd. unfold planned, keys. rewrite map_map.
  apply planned_nodup_gen; [exact Hd | apply incl_refl].
Qed.

(* ---------------------------------------------------------------- new_files through lookup *)

Lemma findp_none_paths p res : findp p res = None <-> ~ In p (map g_path res).
Proof.
  unfold findp. induction res as [|e rest IH]; cbn.
  - split; [intros _ H; exact H | reflexivity].
  - destruct (String.eqb (g_path e) p) eqn:E.
    + apply String.eqb_eq in E. split; [discriminate|]. intro H. exfalso. apply H. left. exact E.
    + apply String.eqb_neq in E. rewrite IH. split.
      * intros H [H1|H1]; [contradiction | apply H; exact H1].
      * intros H H1. apply H. right. exact H1.
Qed.

Lemma keys_new_files_incl safe res k : In k (keys (new_files safe res)) -> In k (map g_path res).
Proof.
  unfold new_files, keys. rewrite map_map. cbn. intro H.
  apply in_map_iff in H as [e [E Hin]]. apply filter_In in Hin as [Hin _]. subst. apply in_map. exact Hin.
Qed.

Lemma new_files_nodup safe res : NoDup (map g_path res) -> NoDup (keys (new_files safe res)).
Proof.
  induction res as [|e rest IH]; cbn; intro Hnd; [constructor|].
  inversion Hnd as [|a b Hn Hr]; subst. unfold new_files. cbn [filter].
  destruct (negb safe || g_safe e); cbn.
  - constructor; [|apply IH; exact Hr]. intro H. apply Hn. apply (keys_new_files_incl safe). exact H.
  - apply IH. exact Hr.
Qed.

Lemma lookup_new_files safe res p :
  NoDup (map g_path res) ->
  lookup p (new_files safe res) =
  match findp p res with
  | Some r => if sel_ok safe r then Some (g_out r, g_reload r) else None
  | None => None
  end.
Proof.
  unfold sel_ok. induction res as [|e rest IH]; cbn; intro Hnd; [reflexivity|].
  inversion Hnd as [|a b Hn Hr]; subst. unfold new_files. cbn [filter]. unfold findp. cbn [find].
  destruct (String.eqb (g_path e) p) eqn:E.
  - apply String.eqb_eq in E. subst p.
    destruct (negb safe || g_safe e) eqn:Q; cbn.
    + rewrite String.eqb_refl. reflexivity.
    + apply lookup_None. intro H. apply Hn. apply (keys_new_files_incl safe). exact H.
  - destruct (negb safe || g_safe e); cbn; [rewrite E|]; apply IH; exact Hr.
Qed.

(* the planned files of the model, seen through lookup, are the reference's *)
Lemma lookup_model_planned etck safe gens p :
  distinct_prios gens = true ->
  lookup p (new_files safe (run_file_generators etck gens)) = lookup p (planned etck safe gens).
Proof.
  intro Hd. rewrite lookup_new_files by apply nodup_run.
  unfold run_file_generators. rewrite findp_fold. cbn [findp find].
  pose proof (pick_fold_none etck p gens) as H.
  destruct (fold_left (pick etck p) gens None) as [m|].
  - destruct H as [g [Hin [[Hp Hne] [Hm Hmax]]]].
    assert (Wg : is_winner gens g = true).
    { apply is_winner_spec. split; [exact Hne|]. intros h Hh Hph. apply Hmax; [exact Hh|].
      split; [congruence|]. rewrite Hph. exact Hne. }
    subst m. unfold sel_ok. cbn [result_of g_safe g_out g_reload].
    destruct (negb safe || g_safe g) eqn:Q.
    + symmetry. apply lookup_In_nodup; [apply planned_nodup; exact Hd|].
      unfold planned. apply in_map_iff. exists g. split.
      * unfold entry_of, result_of. cbn. rewrite Hp. reflexivity.
      * apply filter_In. split; [exact Hin|]. rewrite Wg, Q. reflexivity.
    + symmetry. apply lookup_None. intro H. rewrite <- Hp in H.
      apply planned_keys in H as [h [Hh [Wh [Sh Hph]]]].
      assert (h = g) by (apply (winner_unique gens); assumption). subst h.
      unfold sel_ok in Sh. congruence.
  - symmetry. apply lookup_None. intro Hk.
    unfold planned, keys in Hk. rewrite map_map in Hk. cbn in Hk.
    apply in_map_iff in Hk as [h [E Hin]]. apply filter_In in Hin as [Hin Hq].
    apply andb_true_iff in Hq as [Wh _]. apply is_winner_spec in Wh as [Hne _].
    apply (H h Hin). split; assumption.
Qed.

Lemma pair_str_eqb_refl v : pair_str_eqb v v = true.
Proof. unfold pair_str_eqb. rewrite !String.eqb_refl. reflexivity. Qed.

Lemma new_files_planned etck safe gens :
  distinct_prios gens = true ->
  nf_eqb (new_files safe (run_file_generators etck gens)) (planned etck safe gens) = true.
Proof.
  intro Hd. apply assoc_eqb_intro.
  - exact pair_str_eqb_refl.
  - apply new_files_nodup, nodup_run.
  - apply planned_nodup. exact Hd.
  - intro k. apply lookup_model_planned. exact Hd.
Qed.

(* C19_argmax *)
Lemma argmax etck gens g :
  distinct_prios gens = true -> In g gens -> g_path g <> "" ->
  (forall h, In h gens -> g_path h = g_path g -> (g_prio h <= g_prio g)%Z) ->
  lookup (g_path g) (new_files false (run_file_generators etck gens)) =
  Some (g_out g, reload_cmds etck (g_path g) (g_reload g)).
Proof.
  intros Hd Hin Hne Hmax. rewrite lookup_model_planned by exact Hd.
  apply lookup_In_nodup; [apply planned_nodup; exact Hd|].
  unfold planned. apply in_map_iff. exists g. split; [reflexivity|].
  apply filter_In. split; [exact Hin|]. cbn. rewrite andb_true_r.
  apply is_winner_spec. split; assumption.
Qed.

(* nothing else is planned: every planned entry comes from the maximal generator of its path *)
Lemma argmax_only etck gens p o r :
  distinct_prios gens = true ->
  lookup p (new_files false (run_file_generators etck gens)) = Some (o, r) ->
  exists g, In g gens /\ g_path g = p /\ p <> "" /\ o = g_out g /\
            r = reload_cmds etck p (g_reload g) /\
            forall h, In h gens -> g_path h = p -> (g_prio h <= g_prio g)%Z.
Proof.
  intros Hd H. rewrite lookup_model_planned in H by exact Hd.
  apply lookup_Some_In in H. unfold planned in H. apply in_map_iff in H as [g [E Hin]].
  apply filter_In in Hin as [Hin Hq]. apply andb_true_iff in Hq as [Wg _].
  apply is_winner_spec in Wg as [Hne Hmax].
  unfold entry_of, result_of in E. cbn in E. injection E as E1 E2 E3. subst.
  exists g. repeat split; try assumption; reflexivity.
Qed.

Lemma planned_perm_lookup etck safe gens gens' p :
  Permutation gens gens' -> distinct_prios gens = true ->
  lookup p (new_files safe (run_file_generators etck gens)) =
  lookup p (new_files safe (run_file_generators etck gens')).
Proof.
  intros HP Hd.
  assert (Hd' : distinct_prios gens' = true) by (apply (distinct_perm gens); assumption).
  rewrite !lookup_new_files by apply nodup_run.
  unfold run_file_generators. rewrite !findp_fold. cbn [findp find].
  pose proof (pick_fold_none etck p gens) as H.
  pose proof (pick_fold_none etck p gens') as H'.
  destruct (fold_left (pick etck p) gens None) as [m|];
    destruct (fold_left (pick etck p) gens' None) as [m'|].
  - destruct H as [g [Hin [Hc [Hm Hmax]]]]. destruct H' as [g' [Hin' [Hc' [Hm' Hmax']]]].
    assert (Hg' : In g' gens) by (apply Permutation_in with gens'; [symmetry; exact HP | exact Hin']).
    assert (Hg : In g gens') by (apply Permutation_in with gens; assumption).
    assert (g = g').
    { apply (distinct_inj gens Hd); try assumption. apply same_key_intro.
      - destruct Hc as [Hc _]. destruct Hc' as [Hc' _]. congruence.
      - specialize (Hmax g' Hg' Hc'). specialize (Hmax' g Hg Hc). lia. }
    subst. reflexivity.
  - exfalso. destruct H as [g [Hin [Hc _]]]. apply (H' g); [|exact Hc].
    apply Permutation_in with gens; assumption.
  - exfalso. destruct H' as [g [Hin [Hc _]]]. apply (H g); [|exact Hc].
    apply Permutation_in with gens'; [symmetry; exact HP | exact Hin].
  - reflexivity.
Qed.

Lemma planned_perm etck safe gens gens' :
  Permutation gens gens' -> distinct_prios gens = true ->
  nf_eqb (new_files safe (run_file_generators etck gens))
         (new_files safe (run_file_generators etck gens')) = true.
Proof.
  intros HP Hd. apply assoc_eqb_intro.
  - exact pair_str_eqb_refl.
  - apply new_files_nodup, nodup_run.
  - apply new_files_nodup, nodup_run.
  - intro k. apply planned_perm_lookup; assumption.
Qed.

(* C19_safe_filter: the safe view is the full view restricted to safe winners *)
Lemma safe_filter etck gens p :
  lookup p (new_files true (run_file_generators etck gens)) =
  match findp p (run_file_generators etck gens) with
  | Some r => if g_safe r then lookup p (new_files false (run_file_generators etck gens)) else None
  | None => None
  end.
Proof.
  rewrite !lookup_new_files by apply nodup_run.
  destruct (findp p (run_file_generators etck gens)) as [r|]; [|reflexivity].
  unfold sel_ok. cbn. destruct (g_safe r); reflexivity.
Qed.

(* the safe view shows the winner iff the winner is safe; a lower-priority safe generator
   does not take over *)
Lemma safe_argmax etck gens g :
  distinct_prios gens = true -> In g gens -> g_path g <> "" ->
  (forall h, In h gens -> g_path h = g_path g -> (g_prio h <= g_prio g)%Z) ->
  lookup (g_path g) (new_files true (run_file_generators etck gens)) =
  if g_safe g then Some (g_out g, reload_cmds etck (g_path g) (g_reload g)) else None.
Proof.
  intros Hd Hin Hne Hmax. rewrite lookup_model_planned by exact Hd.
  assert (Wg : is_winner gens g = true) by (apply is_winner_spec; split; assumption).
  destruct (g_safe g) eqn:S.
  - apply lookup_In_nodup; [apply planned_nodup; exact Hd|].
    unfold planned. apply in_map_iff. exists g. split; [reflexivity|].
    apply filter_In. split; [exact Hin|]. rewrite Wg, S. reflexivity.
  - apply lookup_None. intro H. apply planned_keys in H as [h [Hh [Wh [Sh Hph]]]].
    assert (h = g) by (apply (winner_unique gens); assumption). subst h.
    unfold sel_ok in Sh. cbn in Sh. congruence.
Qed.
