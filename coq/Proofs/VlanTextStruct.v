(* C11 text level, part 4: the text-level model of the rule logics (rows in, command rows out:
   row diff, _parse_vlancfg_actions, _process_vlandb, command printing) IS the structured model
   composed with the printers, for every input of the domain; hence C11_final and
   C11_no_transient_loss over configuration rows. *)
From Coq Require Import List String Ascii Bool Arith NArith Lia Sorted Permutation SetoidList.
From Coq Require Import MSets.
From Annet Require Import Base.Str Model.Vlan Spec.P_C11 Spec.P_C11Text
     Proofs.VlanProofs Proofs.VlanTextLib Proofs.VlanTextRanges Proofs.VlanTextLines.
Import ListNotations.
Open Scope string_scope.
Open Scope list_scope.

Arguments Ascii.eqb : simpl never.
Arguments String.eqb : simpl never.
Arguments words : simpl never.
Arguments str_of_N : simpl never.
Arguments N_of_str : simpl never.

(* ------------------------------------------------------------------------------------ *)
(* the rule logics do not see how a set was built *)

Lemma eqlistA_eq {A} (l l' : list A) : eqlistA eq l l' -> l = l'.
Proof. induction 1 as [|x y l l' E _ IH]; [reflexivity|]. now subst. Qed.

Lemma elements_equal a b : NS.Equal a b -> NS.elements a = NS.elements b.
Proof.
  intro H. apply eqlistA_eq.
  refine (SortA_equivlistA_eqlistA (eqA := eq) _ (ltA := N.lt) _ _ _ _ _); try typeclasses eauto.
  - exact (NS.elements_spec2 a).
  - exact (NS.elements_spec2 b).
  - intro x. rewrite !NS.elements_spec1. apply H.
Qed.

Lemma collapse_equal tiny a b : NS.Equal a b -> collapse tiny a = collapse tiny b.
Proof. intro H. unfold collapse. now rewrite (elements_equal a b H). Qed.

Lemma is_empty_equal a b : NS.Equal a b -> NS.is_empty a = NS.is_empty b.
Proof. intro H. now rewrite H. Qed.

Lemma process_equal g k na nr nu A A' O O' : NS.Equal A A' -> NS.Equal O O' ->
  process g k na nr nu A O = process g k na nr nu A' O'.
Proof.
  intros HA HO.
  assert (D1 : NS.Equal (NS.diff O A) (NS.diff O' A')) by now rewrite HA, HO.
  assert (D2 : NS.Equal (NS.diff A O) (NS.diff A' O')) by now rewrite HA, HO.
  unfold process, hw_process, cisco_process.
  rewrite (is_empty_equal _ _ D1), (is_empty_equal _ _ D2), (is_empty_equal _ _ HA).
  rewrite (collapse_equal true _ _ D1), (collapse_equal true _ _ D2).
  rewrite (collapse_equal (rk_catalyst k) _ _ D1), (collapse_equal (rk_catalyst k) _ _ D2).
  reflexivity.
Qed.

(* ------------------------------------------------------------------------------------ *)
(* what the rule logics emit *)

Lemma set_of_lines_nonempty ls : ~ NS.Empty (set_of_lines ls) -> ls <> [].
Proof. intros H E. subst ls. apply H. apply set_of_lines_nil_empty. Qed.

Lemma is_empty_false s : NS.is_empty s = false -> ~ NS.Empty s.
Proof. intros H E. apply NS.is_empty_spec in E. rewrite E in H. discriminate H. Qed.

Lemma diff_nonempty_l a b : NS.is_empty (NS.diff a b) = false -> ~ NS.Empty a.
Proof.
  intros H E. apply is_empty_false in H. apply H. intros v Hv. apply NS.diff_spec in Hv as [Hv _]. exact (E v Hv).
Qed.

Definition cmd_shape (k : rulek) (na : nat) (A O : NS.t) (c : cmd) : Prop :=
  match c with
  | Add rs => rs <> [] /\ ~ NS.Empty A
  | Remove rs => rs <> [] /\ ~ NS.Empty O
  | RemoveAll => is_hw (rk_logic k) = true /\ (rk_logic k = HwSingle \/ rk_logic k = HwMultiAll)
  | SetNone => is_hw (rk_logic k) = false /\ na = 1%nat /\ NS.Empty A
  | SetTo _ => False
  end.

Lemma cmds_of_shape k tiny na A O c :
  In c (cmds_of (rk_logic k) tiny (NS.diff O A) (NS.diff A O)) -> cmd_shape k na A O c.
Proof.
  unfold cmds_of. intro H. apply in_app_or in H as [H|H].
  - destruct (NS.is_empty (NS.diff O A)) eqn:E; [destruct H|].
    apply in_map_iff in H as (rs & <- & H). cbn. split; [|exact (diff_nonempty_l _ _ E)].
    exact (proj1 (chunk_of_collapse _ _ _ _ H E)).
  - destruct (NS.is_empty (NS.diff A O)) eqn:E; [destruct H|].
    apply in_map_iff in H as (rs & <- & H). cbn. split; [|exact (diff_nonempty_l _ _ E)].
    exact (proj1 (chunk_of_collapse _ _ _ _ H E)).
Qed.

Lemma process_shape k na nr nu A O cs :
  process true k na nr nu A O = Some cs -> forall c, In c cs -> cmd_shape k na A O c.
Proof.
  unfold process. destruct (is_hw (rk_logic k)) eqn:Hh.
  - unfold hw_process.
    destruct (logic_eqb (rk_logic k) HwSingle && (Nat.ltb 1 na || Nat.ltb 1 nr)); [discriminate|].
    destruct (negb (Nat.eqb nr 0) && Nat.eqb na 0 && (negb true || Nat.eqb nu 0) &&
              (logic_eqb (rk_logic k) HwMultiAll || logic_eqb (rk_logic k) HwSingle)) eqn:S.
    + intro E. injection E as <-. intros c [<-|[]]. cbn. rewrite Hh. split; [reflexivity|].
      apply andb_true_iff in S as [_ S]. destruct (rk_logic k); try discriminate S; auto.
    + intro E. injection E as <-. intros c Hc. exact (cmds_of_shape k true na A O c Hc).
  - unfold cisco_process.
    destruct (Nat.eqb na 1 && NS.is_empty A) eqn:S.
    + intro E. injection E as <-. intros c [<-|[]]. cbn. rewrite Hh.
      apply andb_true_iff in S as [S1 S2]. apply Nat.eqb_eq in S1. apply NS.is_empty_spec in S2. auto.
    + intro E. injection E as <-. intros c Hc. exact (cmds_of_shape k (rk_catalyst k) na A O c Hc).
Qed.

(* ------------------------------------------------------------------------------------ *)

Lemma filter_map_comm {A B} (f : B -> bool) (g : A -> B) (l : list A) :
  filter f (map g l) = map g (filter (fun x => f (g x)) l).
Proof. induction l as [|x l IH]; [reflexivity|]. cbn. destruct (f (g x)); cbn; now rewrite IH. Qed.

Lemma config_ok_lines k ls : config_ok k ls = true -> forallb (line_ok k) ls = true.
Proof.
  unfold config_ok. intro H. apply andb_true_iff in H as [H H4]. apply andb_true_iff in H as [H H3].
  apply andb_true_iff in H as [H1 _].
  assert (G : forallb (fun l => negb (is_nil (snd l))) ls = true \/
              (ls = [(false, [])] /\ logic_eqb (rk_logic k) CiscoSwtrunk = true)).
  { destruct ls as [|[b rs] tl]; [now left|]. destruct b; [now left|]. destruct rs; [|now left].
    destruct tl; [now right|now left]. }
  rewrite forallb_forall in *. intros l Hl. unfold line_ok. rewrite (H1 l Hl), (H3 l Hl). cbn [andb].
  destruct G as [G|[G1 G2]].
  - now rewrite (G l Hl).
  - subst ls. destruct Hl as [<-|[]]. cbn. now rewrite G2.
Qed.

Lemma config_none_swtrunk k : config_ok k [(false, [])] = true -> logic_eqb (rk_logic k) CiscoSwtrunk = true.
Proof. unfold config_ok. cbn. intro H. now apply andb_true_iff in H as [_ H]. Qed.

Section Rule.
  Variable k : rulek.
  Hypothesis TOK : rule_text_ok k = true.

  Let P := print_line k.
  Let pfx := rk_prefix k.

  Lemma eqb_print_line a b : line_ok k a = true -> line_ok k b = true ->
    String.eqb (P a) (P b) = line_eqb a b.
  Proof.
    intros Ha Hb. apply eq_true_iff_eq. rewrite String.eqb_eq, line_eqb_eq. split.
    - now apply (print_line_inj k).
    - now intros ->.
  Qed.

  Lemma mem_print_line l ls : line_ok k l = true -> forallb (line_ok k) ls = true ->
    mem_str (P l) (map P ls) = mem_line l ls.
  Proof.
    intros Hl Hls. unfold mem_str, mem_line. induction ls as [|a ls IH]; [reflexivity|].
    cbn in Hls. apply andb_true_iff in Hls as [Ha Hls]. cbn [map existsb].
    now rewrite (eqb_print_line l a Hl Ha), (IH Hls).
  Qed.

  Section Diff.
    Variables old new : list line.
    Hypothesis Hold : forallb (line_ok k) old = true.
    Hypothesis Hnew : forallb (line_ok k) new = true.

    Lemma rows_added_print : rows_added (map P old) (map P new) = map P (lines_added old new).
    Proof.
      unfold rows_added, lines_added. rewrite filter_map_comm. f_equal. apply filter_ext_in.
      intros l Hl. rewrite forallb_forall in Hnew. now rewrite (mem_print_line l old (Hnew l Hl) Hold).
    Qed.

    Lemma rows_removed_print : rows_removed (map P old) (map P new) = map P (lines_removed old new).
    Proof.
      unfold rows_removed, lines_removed. rewrite filter_map_comm. f_equal. apply filter_ext_in.
      intros l Hl. rewrite forallb_forall in Hold. now rewrite (mem_print_line l new (Hold l Hl) Hnew).
    Qed.

    Lemma rows_unchanged_print : rows_unchanged (map P old) (map P new) = map P (lines_unchanged old new).
    Proof.
      unfold rows_unchanged, lines_unchanged. rewrite filter_map_comm. f_equal. apply filter_ext_in.
      intros l Hl. rewrite forallb_forall in Hold. now rewrite (mem_print_line l new (Hold l Hl) Hnew).
    Qed.
  End Diff.

  Lemma filter_ok (f : line -> bool) ls : forallb (line_ok k) ls = true -> forallb (line_ok k) (filter f ls) = true.
  Proof.
    rewrite !forallb_forall. intros H l Hl. apply filter_In in Hl as [Hl _]. now apply H.
  Qed.

  (* _parse_vlancfg_actions over printed lines: the rule's prefix, the union of the line sets *)
  Lemma parse_actions_print ls : forallb (line_ok k) ls = true -> forall p acc,
    exists s, parse_actions (parse_vlancfg_of k) (map P ls) p acc
              = Some (match ls with [] => p | _ => Some pfx end, s) /\
              forall v, NS.In v s <-> NS.In v acc \/ NS.In v (set_of_lines ls).
  Proof.
    induction ls as [|l ls IH]; intros Hls p acc.
    - exists acc. split; [reflexivity|]. intro v. split; [now left|].
      intros [H|H]; [exact H|]. exfalso. exact (set_of_lines_nil_empty v H).
    - cbn in Hls. apply andb_true_iff in Hls as [Hl Hls]. cbn [map parse_actions].
      destruct (parse_line k TOK l Hl) as (sl & El & Hsl). fold P in El. rewrite El.
      destruct (IH Hls (Some pfx) (NS.union sl acc)) as (s & Es & Hs). exists s. split.
      + fold pfx. rewrite Es. destruct ls; reflexivity.
      + intro v. rewrite Hs, NS.union_spec. cbn [set_of_lines fold_right]. fold (set_of_lines ls).
        rewrite NS.union_spec. fold (line_set l). rewrite (Hsl v). tauto.
  Qed.

  Lemma parse_actions_print0 ls : forallb (line_ok k) ls = true ->
    exists s, parse_actions (parse_vlancfg_of k) (map P ls) None NS.empty
              = Some (match ls with [] => None | _ => Some pfx end, s) /\ NS.Equal s (set_of_lines ls).
  Proof.
    intro H. destruct (parse_actions_print ls H None NS.empty) as (s & Es & Hs).
    exists s. split; [exact Es|]. intro v. rewrite Hs. split; [|now right].
    intros [E|E]; [exfalso; revert E; apply NSF.empty_iff|exact E].
  Qed.

  (* the prefixes returned by _parse_vlancfg_actions are only used where they are the rule's *)
  Lemma print_cmd_prefix (A R : list line) c :
    cmd_shape k (List.length A) (set_of_lines A) (set_of_lines R) c ->
    let pa := match A with [] => None | _ => Some pfx end in
    let pr := match R with [] => None | _ => Some pfx end in
    let padd := if is_hw (rk_logic k) then fmt_prefix pa
                else fmt_prefix (match pa with Some _ => pa | None => pr end) in
    let pdel := if is_hw (rk_logic k) then fmt_prefix pr else padd in
    print_cmd k padd pdel c = print_cmd k pfx pfx c.
  Proof.
    intros Hc pa pr padd pdel.
    assert (HA : ~ NS.Empty (set_of_lines A) -> pa = Some pfx).
    { intro H. apply set_of_lines_nonempty in H. subst pa. destruct A; [contradiction|reflexivity]. }
    assert (HR : ~ NS.Empty (set_of_lines R) -> pr = Some pfx).
    { intro H. apply set_of_lines_nonempty in H. subst pr. destruct R; [contradiction|reflexivity]. }
    destruct c as [rs|rs| | |rs]; cbn [cmd_shape] in Hc.
    - destruct Hc as [_ Hc]. apply HA in Hc. subst padd pdel. rewrite Hc. unfold print_cmd.
      destruct (rk_logic k); reflexivity.
    - destruct Hc as [_ Hc]. apply HR in Hc. subst padd pdel. rewrite Hc. unfold print_cmd.
      destruct (rk_logic k); cbn [is_hw fmt_prefix]; try reflexivity; subst pa; destruct A; cbn; rewrite ?Hc; reflexivity.
    - destruct Hc as [Hh _]. unfold print_cmd. destruct (rk_logic k); try discriminate Hh; reflexivity.
    - destruct Hc as (Hh & Hna & He). subst padd pdel. rewrite Hh.
      assert (E : pa = Some pfx).
      { subst pa. destruct A as [|x A']; [discriminate Hna|reflexivity]. }
      rewrite E. unfold print_cmd. destruct (rk_logic k); reflexivity.
    - destruct Hc.
  Qed.
End Rule.

(* ------------------------------------------------------------------------------------ *)
(* struct_is_text, for all inputs *)

Section Main.
  Variable k : rulek.
  Hypothesis TOK : rule_text_ok k = true.
  Variables old new : list line.

  Let pfx := rk_prefix k.

  Section Lines.
    Hypothesis Hold : forallb (line_ok k) old = true.
    Hypothesis Hnew : forallb (line_ok k) new = true.

    Theorem struct_is_text_lines :
      model_rows k (map (print_line k) old) (map (print_line k) new)
      = option_map (map (print_cmd k pfx pfx)) (model_struct k old new).
    Proof.
      unfold model_rows, model_rows_g, model_struct, model_struct_g.
      rewrite (rows_added_print k old new Hold Hnew), (rows_removed_print k old new Hold Hnew),
              (rows_unchanged_print k old new Hold Hnew).
      rewrite !map_length.
      assert (HA : forallb (line_ok k) (lines_added old new) = true) by (apply filter_ok; exact Hnew).
      assert (HR : forallb (line_ok k) (lines_removed old new) = true) by (apply filter_ok; exact Hold).
      destruct (parse_actions_print0 k TOK _ HA) as (sa & Ea & Hsa).
      destruct (parse_actions_print0 k TOK _ HR) as (sr & Er & Hsr).
      change (if is_hw (rk_logic k) then hw_parse_vlancfg else cisco_parse_vlancfg) with (parse_vlancfg_of k).
      rewrite Ea, Er.
      rewrite (process_equal true k _ _ _ sa (set_of_lines (lines_added old new)) sr
                             (set_of_lines (lines_removed old new)) Hsa Hsr).
      destruct (process true k (List.length (lines_added old new)) (List.length (lines_removed old new))
                        (List.length (lines_unchanged old new)) (set_of_lines (lines_added old new))
                        (set_of_lines (lines_removed old new))) as [cs|] eqn:E; [|reflexivity].
      cbn [option_map]. f_equal. apply map_ext_in. intros c Hc.
      apply (print_cmd_prefix k (lines_added old new) (lines_removed old new) c).
      exact (process_shape k _ _ _ _ _ cs E c Hc).
    Qed.
  End Lines.

  Hypothesis WF : wf_C11 (k, old, new) = true.

  Let Hold : config_ok k old = true.
  Proof. unfold wf_C11 in WF. cbn in WF. apply andb_true_iff in WF as [W _]. now apply andb_true_iff in W as [W _]. Qed.
  Let Hnew : config_ok k new = true.
  Proof. unfold wf_C11 in WF. cbn in WF. apply andb_true_iff in WF as [W _]. now apply andb_true_iff in W as [_ W]. Qed.

  Theorem struct_is_text_wf :
    model_rows k (map (print_line k) old) (map (print_line k) new)
    = option_map (map (print_cmd k pfx pfx)) (model_struct k old new).
  Proof. apply struct_is_text_lines; now apply config_ok_lines. Qed.

  (* every command of the model is in the range of the command printer *)
  Theorem model_cmds_emittable cs : model_struct k old new = Some cs -> forallb (emittable k) cs = true.
  Proof.
    intro E. apply forallb_forall. intros c Hc.
    pose proof (process_shape k _ _ _ _ _ cs E c Hc) as Sh.
    destruct c as [rs|rs| | |rs]; cbn [cmd_shape emittable] in *.
    - destruct Sh as [H _]. destruct rs; [contradiction|reflexivity].
    - destruct Sh as [H _]. destruct rs; [contradiction|reflexivity].
    - destruct Sh as [_ [H|H]]; rewrite H; reflexivity.
    - destruct Sh as (_ & Hna & He).
      destruct (lines_added old new) as [|la [|? ?]] eqn:EA; try discriminate Hna.
      assert (Hin : In la new).
      { assert (H : In la (lines_added old new)) by (rewrite EA; now left).
        unfold lines_added in H. now apply filter_In in H as [H _]. }
      assert (Hle : NS.Empty (line_set la)).
      { intros v Hv. apply (He v). apply set_of_lines_spec. exists la. split; [now left|exact Hv]. }
      pose proof (config_none k new la Hnew Hin Hle) as En. rewrite En in Hnew.
      now apply config_none_swtrunk.
    - destruct Sh.
  Qed.

  (* the command rows of the text-level model are read back as the commands of the structured one *)
  Theorem parse_model_rows :
    exists cs, model_struct k old new = Some cs /\
               model_rows k (map (print_line k) old) (map (print_line k) new) = Some (map (print_cmd k pfx pfx) cs) /\
               parse_cmds k (map (print_cmd k pfx pfx) cs) = Some cs.
  Proof.
    destruct (total_struct k old new WF) as (cs & E). exists cs. split; [exact E|]. split.
    - rewrite struct_is_text_wf, E. reflexivity.
    - apply (parse_print_cmds k TOK). now apply model_cmds_emittable.
  Qed.

  (* the predicate evaluated on real outputs holds of the text-level model's own output *)
  Theorem rows_holds :
    P_C11 (k, old, new) (model_rows k (map (print_line k) old) (map (print_line k) new)) = true.
  Proof.
    destruct parse_model_rows as (cs & E & Er & Ep). unfold P_C11. rewrite WF, Er. cbn [in_rule fst].
    rewrite Ep. now apply holds_struct.
  Qed.

  (* the boolean evaluated by the correspondence run is true on every case of the domain *)
  Theorem struct_is_text_true g y : struct_is_text (((k, old, new), g), y) = true.
  Proof.
    unfold struct_is_text. cbn [fst snd in_rule in_old in_new]. rewrite WF. cbn [negb orb].
    destruct parse_model_rows as (cs & E & Er & _). unfold model_struct in *. rewrite E.
    unfold model_rows in *. rewrite Er. apply list_str_eqb_refl.
  Qed.
End Main.

(* ------------------------------------------------------------------------------------ *)
(* the same over configuration rows *)


Lemma rows_wf_inv k ro rn : rows_wf k ro rn = true ->
  exists o n, rule_text_ok k = true /\ read_lines k ro = Some o /\ read_lines k rn = Some n /\
              ro = map (print_line k) o /\ rn = map (print_line k) n /\ wf_C11 (k, o, n) = true.
Proof.
  unfold rows_wf. intro H. apply andb_true_iff in H as [T H].
  destruct (read_lines k ro) as [o|]; [|discriminate H]. destruct (read_lines k rn) as [n|]; [|discriminate H].
  apply andb_true_iff in H as [H W]. apply andb_true_iff in H as [H1 H2].
  apply list_str_eqb_eq in H1. apply list_str_eqb_eq in H2. exists o, n. repeat split; auto.
Qed.

Theorem rows_main k ro rn : rows_wf k ro rn = true ->
  exists out, model_rows k ro rn = Some out /\
    forall out', Permutation out' out ->
      exists cs', parse_cmds k out' = Some cs' /\
        NS.Equal (simulate cs' (rows_set k ro)) (rows_set k rn) /\
        forall l1 l2, cs' = l1 ++ l2 ->
          NS.Subset (NS.inter (rows_set k ro) (rows_set k rn)) (simulate l1 (rows_set k ro)).
Proof.
  intro H. destruct (rows_wf_inv k ro rn H) as (o & n & T & Ro & Rn & Eo & En & W).
  unfold rows_set. rewrite Ro, Rn. subst ro rn.
  destruct (parse_model_rows k T o n W) as (cs & E & Er & Ep).
  exists (map (print_cmd k (rk_prefix k) (rk_prefix k)) cs). split; [exact Er|].
  intros out' Pm. destruct (parse_cmds_perm k _ out' Pm cs Ep) as (cs' & Ep' & Pc).
  exists cs'. split; [exact Ep'|]. split.
  - exact (final_struct k o n W cs cs' E Pc).
  - intros l1 l2 El. exact (prefix_struct k o n W cs cs' l1 l2 E Pc El).
Qed.

(* the printer's range is exactly the domain: printed configurations of the domain are rows_wf *)
Lemma read_lines_print k ls : forallb (line_ok k) ls = true ->
  read_lines k (map (print_line k) ls) = Some ls.
Proof.
  unfold read_lines. induction ls as [|l ls IH]; [reflexivity|]. cbn [forallb map all_some]. intro H.
  apply andb_true_iff in H as [Hl H]. now rewrite (read_print_line k l Hl), (IH H).
Qed.

Theorem rows_wf_print k old new : rule_text_ok k = true -> wf_C11 (k, old, new) = true ->
  rows_wf k (map (print_line k) old) (map (print_line k) new) = true.
Proof.
  intros T W. unfold rows_wf. rewrite T. cbn [andb].
  assert (Ho : config_ok k old = true).
  { unfold wf_C11 in W. cbn in W. apply andb_true_iff in W as [W _]. now apply andb_true_iff in W as [W _]. }
  assert (Hn : config_ok k new = true).
  { unfold wf_C11 in W. cbn in W. apply andb_true_iff in W as [W _]. now apply andb_true_iff in W as [_ W]. }
  rewrite (read_lines_print k old (config_ok_lines k old Ho)), (read_lines_print k new (config_ok_lines k new Hn)).
  now rewrite !list_str_eqb_refl, W.
Qed.
