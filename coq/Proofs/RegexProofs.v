(* C07 lemma library, part 1: the derivative matcher decides the language of a
   one-word regex; ASCII case-folding facts. *)
From Coq Require Import List String Ascii Bool Arith NArith Lia.
From Annet Require Import Base.Str Model.Pattern Spec.P_C07.
Import ListNotations.
Open Scope string_scope.
Open Scope list_scope.

(* ------------------------------------------------------------------------------ *)
(* smart constructors                                                              *)

Lemma lang_nul ic w : ~ sre_lang ic SNul w.
Proof. intro H. inversion H; subst. cbn in *. discriminate. Qed.

Lemma is_nul_eq r : is_nul r = true -> r = SNul.
Proof.
  destruct r; cbn; try discriminate. destruct neg; try discriminate.
  destruct items; try discriminate. reflexivity.
Qed.

Lemma lang_of_bool ic b w : sre_lang ic (of_bool b) w <-> b = true /\ w = [].
Proof.
  destruct b; cbn; split.
  - intro H. inversion H; subst. auto.
  - intros [_ H]; subst. constructor.
  - intro H. exfalso. eapply lang_nul; eauto.
  - intros [H _]. discriminate.
Qed.

Lemma lang_mk_cat ic a b w : sre_lang ic (mk_cat a b) w <-> sre_lang ic (SCat a b) w.
Proof.
  unfold mk_cat. destruct (is_nul a) eqn:E.
  - apply is_nul_eq in E. subst. split; intro H.
    + exfalso. eapply lang_nul; eauto.
    + inversion H; subst. exfalso. eapply lang_nul; eauto.
  - destruct a; try reflexivity. split; intro H.
    + change w with ([] ++ w). constructor; [constructor | exact H].
    + inversion H; subst. inversion H2; subst. exact H4.
Qed.

Lemma lang_mk_alt ic a b w : sre_lang ic (mk_alt a b) w <-> sre_lang ic (SAlt a b) w.
Proof.
  unfold mk_alt. destruct (is_nul a) eqn:E.
  - apply is_nul_eq in E. subst. split; intro H.
    + apply L_alt_r. exact H.
    + inversion H; subst; [exfalso; eapply lang_nul; eauto | assumption].
  - destruct (is_nul b) eqn:E2; [|reflexivity].
    apply is_nul_eq in E2. subst. split; intro H.
    + apply L_alt_l. exact H.
    + inversion H; subst; [assumption | exfalso; eapply lang_nul; eauto].
Qed.

(* ------------------------------------------------------------------------------ *)
(* nullable                                                                        *)

Lemma app_nil_both {A} (u v : list A) : u ++ v = [] -> u = [] /\ v = [].
Proof. destruct u; cbn; intro H; [auto | discriminate]. Qed.

Ltac nil_app :=
  match goal with E : _ ++ _ = [] |- _ => apply app_nil_both in E as [-> ->] end.

Lemma nullable_lang ic r : nullable r = true <-> sre_lang ic r [].
Proof.
  induction r; cbn; split; intro H; try discriminate; try (now constructor);
    try (now inversion H).
  - constructor. apply IHr. exact H.
  - inversion H; subst. apply IHr. assumption.
  - apply andb_true_iff in H as [H1 H2]. change (@nil ascii) with (@nil ascii ++ []).
    constructor; [apply IHr1 | apply IHr2]; assumption.
  - inversion H; subst. nil_app.
    apply andb_true_iff. split; [apply IHr1 | apply IHr2]; assumption.
  - apply orb_true_iff in H as [H|H]; [apply L_alt_l, IHr1 | apply L_alt_r, IHr2]; exact H.
  - apply orb_true_iff. inversion H; subst; [left; apply IHr1 | right; apply IHr2]; assumption.
  - change (@nil ascii) with (@nil ascii ++ []). constructor; [apply IHr; exact H | constructor].
  - inversion H; subst. nil_app. apply IHr. assumption.
Qed.

(* ------------------------------------------------------------------------------ *)
(* star: a non-empty member starts with a non-empty member of the body             *)

Lemma star_cons ic a c w :
  sre_lang ic (SStar a) (c :: w) ->
  exists u v, w = u ++ v /\ sre_lang ic a (c :: u) /\ sre_lang ic (SStar a) v.
Proof.
  intro H. remember (SStar a) as r eqn:Er. remember (c :: w) as s eqn:Es.
  revert a c w Er Es.
  induction H; intros a0 c0 w0 Er Es; try discriminate.
  injection Er as Er; subst.
  destruct u as [|x u].
  - cbn in Es. eapply IHsre_lang2; eauto.
  - cbn in Es. injection Es as Es1 Es2; subst. exists u, v. auto.
Qed.

(* ------------------------------------------------------------------------------ *)
(* inversion lemmas (robust names)                                                 *)

Lemma cat_inv ic a b w : sre_lang ic (SCat a b) w ->
  exists u v, w = u ++ v /\ sre_lang ic a u /\ sre_lang ic b v.
Proof. intro H. inversion H; subst. eauto. Qed.

Lemma alt_inv ic a b w : sre_lang ic (SAlt a b) w -> sre_lang ic a w \/ sre_lang ic b w.
Proof. intro H. inversion H; subst; auto. Qed.

Lemma grp_inv ic cap a w : sre_lang ic (SGrp cap a) w -> sre_lang ic a w.
Proof. intro H. inversion H; subst; auto. Qed.

Lemma opt_inv ic a w : sre_lang ic (SOpt a) w -> w = [] \/ sre_lang ic a w.
Proof. intro H. inversion H; subst; auto. Qed.

Lemma plus_inv ic a w : sre_lang ic (SPlus a) w ->
  exists u v, w = u ++ v /\ sre_lang ic a u /\ sre_lang ic (SStar a) v.
Proof. intro H. inversion H; subst. eauto. Qed.

Definition is_atom (r : sre) : bool :=
  match r with SChr _ | SEsc _ | SAny | SCls _ | SSet _ _ => true | _ => false end.

Lemma atom_inv ic r w : is_atom r = true -> sre_lang ic r w ->
  exists c, w = [c] /\ atom_has ic r c = true.
Proof.
  intros A H. destruct r; try discriminate; inversion H; subst; eexists; split; try reflexivity; cbn;
    try assumption.
  apply negb_true_iff. assumption.
Qed.

Lemma atom_intro ic r c : is_atom r = true -> atom_has ic r c = true -> sre_lang ic r [c].
Proof.
  intros A H. destruct r; try discriminate; cbn in H; constructor; try assumption.
  apply negb_true_iff. assumption.
Qed.

Lemma cons_app_inv {A} (x : A) w u v : u ++ v = x :: w ->
  (u = [] /\ v = x :: w) \/ exists u', u = x :: u' /\ w = u' ++ v.
Proof.
  destruct u as [|y u]; cbn; intro H.
  - left. auto.
  - injection H as -> <-. right. eauto.
Qed.

(* ------------------------------------------------------------------------------ *)
(* derivative                                                                      *)

Lemma deriv_atom ic r c w : is_atom r = true ->
  deriv ic c r = of_bool (atom_has ic r c) ->
  (sre_lang ic (deriv ic c r) w <-> sre_lang ic r (c :: w)).
Proof.
  intros A E. rewrite E, lang_of_bool. split.
  - intros [H ->]. apply atom_intro; assumption.
  - intro H. apply atom_inv in H as (c' & E' & H); [|assumption].
    injection E' as <- ->. auto.
Qed.

Lemma deriv_lang ic r : forall c w, sre_lang ic (deriv ic c r) w <-> sre_lang ic r (c :: w).
Proof.
  induction r; intros x w; try (apply deriv_atom; reflexivity); cbn [deriv].
  - (* SEps *) split; intro H; [exfalso; eapply lang_nul; eauto | inversion H].
  - (* SGrp *) rewrite IHr. split; intro H; [constructor; exact H | eapply grp_inv; eauto].
  - (* SCat *)
    destruct (nullable r1) eqn:N.
    + rewrite lang_mk_alt. split; intro H.
      * apply alt_inv in H as [H|H].
        -- apply lang_mk_cat, cat_inv in H as (u & v & -> & H1 & H2). apply IHr1 in H1.
           change (x :: u ++ v) with ((x :: u) ++ v). constructor; assumption.
        -- apply IHr2 in H. change (x :: w) with ([] ++ x :: w).
           constructor; [apply (nullable_lang ic); exact N | exact H].
      * apply cat_inv in H as (u & v & E & H1 & H2). symmetry in E.
        apply cons_app_inv in E as [[-> ->] | (u' & -> & ->)].
        -- apply L_alt_r. apply IHr2. assumption.
        -- apply L_alt_l. apply lang_mk_cat. constructor; [apply IHr1; assumption | assumption].
    + rewrite lang_mk_cat. split; intro H.
      * apply cat_inv in H as (u & v & -> & H1 & H2). apply IHr1 in H1.
        change (x :: u ++ v) with ((x :: u) ++ v). constructor; assumption.
      * apply cat_inv in H as (u & v & E & H1 & H2). symmetry in E.
        apply cons_app_inv in E as [[-> ->] | (u' & -> & ->)].
        -- apply (nullable_lang ic) in H1. congruence.
        -- constructor; [apply IHr1; assumption | assumption].
  - (* SAlt *)
    rewrite lang_mk_alt. split; intro H; apply alt_inv in H as [H|H].
    + apply L_alt_l. apply IHr1. assumption.
    + apply L_alt_r. apply IHr2. assumption.
    + apply L_alt_l. apply IHr1. assumption.
    + apply L_alt_r. apply IHr2. assumption.
  - (* SStar *)
    rewrite lang_mk_cat. split; intro H.
    + apply cat_inv in H as (u & v & -> & H1 & H2). apply IHr in H1.
      change (x :: u ++ v) with ((x :: u) ++ v). constructor; assumption.
    + apply star_cons in H as (u & v & -> & H1 & H2). constructor; [apply IHr; exact H1 | exact H2].
  - (* SPlus *)
    rewrite lang_mk_cat. split; intro H.
    + apply cat_inv in H as (u & v & -> & H1 & H2). apply IHr in H1.
      change (x :: u ++ v) with ((x :: u) ++ v). constructor; assumption.
    + apply plus_inv in H as (u & v & E & H1 & H2). symmetry in E.
      apply cons_app_inv in E as [[-> ->] | (u' & -> & ->)].
      * apply star_cons in H2 as (u & v & -> & H3 & H4).
        constructor; [apply IHr; exact H3 | exact H4].
      * constructor; [apply IHr; assumption | assumption].
  - (* SOpt *)
    rewrite IHr. split; intro H; [apply L_opt_one; exact H |].
    apply opt_inv in H as [H|H]; [discriminate | assumption].
Qed.

Theorem sre_run_lang ic : forall w r, sre_run ic r w = true <-> sre_lang ic r w.
Proof.
  induction w as [|c w IH]; intro r; cbn.
  - apply nullable_lang.
  - rewrite IH. apply deriv_lang.
Qed.

Corollary sre_imatch_lang ic r w : sre_imatch ic r w = true <-> sre_lang ic r (l_of w).
Proof. apply sre_run_lang. Qed.

(* ------------------------------------------------------------------------------ *)
(* re.IGNORECASE: only the lower-cased character matters                           *)

Ltac all_ascii c := destruct c as [[] [] [] [] [] [] [] []]; vm_compute; try reflexivity; try discriminate.

Lemma lower_idem c : lower (lower c) = lower c.
Proof. all_ascii c. Qed.

Lemma upper_lower c : upper (lower c) = upper c.
Proof. all_ascii c. Qed.

Lemma lower_or_upper c : c = lower c \/ c = upper c.
Proof. all_ascii c; auto. Qed.

Lemma cls_has_lower k c : cls_has k (lower c) = cls_has k c.
Proof. destruct k; all_ascii c. Qed.

Lemma nl_lower c : Ascii.eqb (lower c) nl = Ascii.eqb c nl.
Proof. all_ascii c. Qed.

Lemma chr_eq_ic a c : chr_eq true a c = Ascii.eqb (lower a) (lower c).
Proof.
  unfold chr_eq. cbn [andb]. destruct (Ascii.eqb a c) eqn:E; [|reflexivity].
  apply Ascii.eqb_eq in E. subst. rewrite Ascii.eqb_refl. reflexivity.
Qed.

Lemma chr_eq_lower a c : chr_eq true a (lower c) = chr_eq true a c.
Proof. rewrite !chr_eq_ic, lower_idem. reflexivity. Qed.

Lemma item_has_lower it c : item_has true it (lower c) = item_has true it c.
Proof.
  unfold item_has. cbn [andb]. rewrite lower_idem, upper_lower.
  destruct (lower_or_upper c) as [E|E]; rewrite E at 4;
    destruct (item_has1 it (lower c)), (item_has1 it (upper c)); reflexivity.
Qed.

Lemma set_has_lower neg items c : set_has true neg items (lower c) = set_has true neg items c.
Proof.
  unfold set_has. f_equal. induction items as [|it items IH]; [reflexivity|].
  cbn [existsb]. rewrite item_has_lower, IH. reflexivity.
Qed.

Lemma deriv_lower r : forall c, deriv true (lower c) r = deriv true c r.
Proof.
  induction r; intro x; cbn [deriv]; try reflexivity;
    rewrite ?chr_eq_lower, ?nl_lower, ?cls_has_lower, ?set_has_lower, ?IHr, ?IHr1, ?IHr2; reflexivity.
Qed.

Lemma sre_run_lower w : forall r, sre_run true r (map lower w) = sre_run true r w.
Proof.
  induction w as [|c w IH]; intro r; [reflexivity|]. cbn [map sre_run].
  rewrite deriv_lower. apply IH.
Qed.

Lemma l_of_s_of' l : l_of (s_of l) = l.
Proof. apply list_ascii_of_string_of_list_ascii. Qed.

Theorem sre_imatch_lower r w : sre_imatch true r (lower_str w) = sre_imatch true r w.
Proof. unfold sre_imatch, lower_str. rewrite l_of_s_of'. apply sre_run_lower. Qed.

Lemma lower_str_idem w : lower_str (lower_str w) = lower_str w.
Proof.
  unfold lower_str. rewrite l_of_s_of', map_map. f_equal. apply map_ext. apply lower_idem.
Qed.

Lemma word_eq_ic w x : word_eq true w x = String.eqb (lower_str w) (lower_str x).
Proof.
  unfold word_eq. cbn [andb]. destruct (String.eqb w x) eqn:E; [|reflexivity].
  apply String.eqb_eq in E. subst. rewrite String.eqb_refl. reflexivity.
Qed.

Lemma word_eq_lower w x : word_eq true w (lower_str x) = word_eq true w x.
Proof. rewrite !word_eq_ic, lower_str_idem. reflexivity. Qed.

Lemma word_eq_mono w x : word_eq false w x = true -> word_eq true w x = true.
Proof. unfold word_eq. cbn. intro H. rewrite orb_false_r in H. rewrite H. reflexivity. Qed.
