(* C03 proof library, part 1: well-formedness of annotated forests, lookup facts,
   generic list facts, structure of diff_t / diff_level / base_diff. *)
From Coq Require Import List String Bool Arith Lia Permutation.
From Annet Require Import Base.Str Base.Tree Model.Rulebook Model.Diff Spec.P_C03 Proofs.DiffBasics.
Import ListNotations.
Open Scope list_scope.
Arguments Nat.ltb : simpl never.
Arguments Nat.leb : simpl never.
Arguments Nat.sub : simpl never.

(* ---------- induction principle for the nested type atree ---------- *)
Section AtreeInd.
  Variable P : atree -> Prop.
  Hypothesis H : forall kids, Forall (fun k => P (asub k)) kids -> P (AT kids).
  Fixpoint atree_ind2 (t : atree) : P t :=
    match t with
    | AT kids =>
      H kids ((fix go (l : aforest) : Forall (fun k => P (asub k)) l :=
                 match l with
                 | [] => Forall_nil _
                 | (r, m, c) :: l' => Forall_cons (r, m, c) (atree_ind2 c) (go l')
                 end) kids)
    end.
End AtreeInd.

Definition arows (f : aforest) : list string := map arow f.

(* rows unique at every level *)
Inductive awf : aforest -> Prop :=
| awf_nil : awf []
| awf_cons r m c f : ~ In r (arows f) -> awf (akids c) -> awf f -> awf ((r, m, c) :: f).

(* a row present at the same path in old and new carries the same annotation *)
Inductive compat : aforest -> aforest -> Prop :=
| compat_nil ao : compat ao []
| compat_cons ao r m c f :
    (forall mo so, alookup r ao = Some (mo, so) -> mo = m) ->
    (forall mo so, alookup r ao = Some (mo, so) -> compat (akids so) (akids c)) ->
    compat ao f -> compat ao ((r, m, c) :: f).

(* ---------- generic facts ---------- *)

Lemma dlogic_eqb_eq a b : dlogic_eqb a b = true <-> a = b.
Proof. destruct a, b; cbn; split; intro H; try reflexivity; try discriminate. Qed.
Lemma dlogic_eqb_refl a : dlogic_eqb a a = true.
Proof. destruct a; reflexivity. Qed.
Lemma dlogic_eqb_neq a b : dlogic_eqb a b = false <-> a <> b.
Proof. destruct a, b; cbn; split; intro H; try reflexivity; try discriminate; try congruence. Qed.
Lemma dlogic_eqb_sym a b : dlogic_eqb a b = dlogic_eqb b a.
Proof. destruct a, b; reflexivity. Qed.

Lemma list_str_eqb_refl l : list_str_eqb l l = true.
Proof. apply list_str_eqb_eq. reflexivity. Qed.
Lemma mi_eqb_refl m : mi_eqb m m = true.
Proof. unfold mi_eqb. rewrite String.eqb_refl, list_str_eqb_refl. reflexivity. Qed.

Lemma nodup_rows_NoDup l : nodup_rows l = true <-> NoDup l.
Proof.
  induction l as [|x l IH]; cbn.
  - split; [constructor | reflexivity].
  - rewrite andb_true_iff, negb_true_iff, IH. split.
    + intros [H1 H2]. constructor; [|exact H2]. intro Hin. apply existsb_eqb_In in Hin. congruence.
    + intros Hnd. inversion Hnd as [|y l' Hn Hl]; subst. split; [|exact Hl].
      destruct (existsb (String.eqb x) l) eqn:E; [|reflexivity].
      apply existsb_eqb_In in E. contradiction.
Qed.

Lemma existsb_eqb_false r l : existsb (String.eqb r) l = false <-> ~ In r l.
Proof.
  split.
  - intros E Hin. apply existsb_eqb_In in Hin. congruence.
  - intros Hn. destruct (existsb (String.eqb r) l) eqn:E; [|reflexivity].
    apply existsb_eqb_In in E. contradiction.
Qed.

(* ---------- uniq_dl ---------- *)
Lemma existsb_dl_In x seen : existsb (dlogic_eqb x) seen = true <-> In x seen.
Proof.
  rewrite existsb_exists. split.
  - intros (y & Hy & E). apply dlogic_eqb_eq in E. subst. exact Hy.
  - intros Hin. exists x. split; [exact Hin | apply dlogic_eqb_refl].
Qed.

Lemma uniq_dl_In : forall l seen x, In x (uniq_dl l seen) <-> In x l /\ ~ In x seen.
Proof.
  induction l as [|y l IH]; intros seen x; cbn.
  - tauto.
  - destruct (existsb (dlogic_eqb y) seen) eqn:E.
    + apply existsb_dl_In in E. rewrite IH. split.
      * intros [H1 H2]. tauto.
      * intros [[H1|H1] H2]; [subst; contradiction | tauto].
    + assert (Hn : ~ In y seen).
      { intro Hin. apply existsb_dl_In in Hin. congruence. }
      cbn. rewrite IH. cbn. split.
      * intros [H1|[H1 H2]]; [subst; tauto | tauto].
      * intros [[H1|H1] H2]; [tauto|].
        destruct (dlogic_eqb y x) eqn:E2.
        -- apply dlogic_eqb_eq in E2. tauto.
        -- apply dlogic_eqb_neq in E2. right. split; [exact H1|]. intros [H3|H3]; tauto.
Qed.

Lemma uniq_dl_NoDup : forall l seen, NoDup (uniq_dl l seen).
Proof.
  induction l as [|y l IH]; intros seen; cbn.
  - constructor.
  - destruct (existsb (dlogic_eqb y) seen) eqn:E.
    + apply IH.
    + constructor; [|apply IH]. rewrite uniq_dl_In. cbn. tauto.
Qed.

Lemma uniq_dl_In0 l x : In x (uniq_dl l []) <-> In x l.
Proof. rewrite uniq_dl_In. cbn. tauto. Qed.

(* ---------- grouping by a key is a permutation ---------- *)
Lemma flat_map_cons_perm {A} (g : dlogic -> list A) (x : A) (tx : dlogic) :
  forall keys, NoDup keys -> In tx keys ->
  Permutation (flat_map (fun L => if dlogic_eqb tx L then x :: g L else g L) keys)
              (x :: flat_map g keys).
Proof.
  induction keys as [|k keys IH]; intros Hnd Hin; [destruct Hin|].
  inversion Hnd as [|k' keys' Hk Hnd']; subst. cbn [flat_map].
  destruct (dlogic_eqb tx k) eqn:E.
  - apply dlogic_eqb_eq in E. subst k. cbn. constructor.
    apply Permutation_app_head.
    assert (Hext : forall L, In L keys -> (if dlogic_eqb tx L then x :: g L else g L) = g L).
    { intros L HL. destruct (dlogic_eqb tx L) eqn:E; [|reflexivity].
      apply dlogic_eqb_eq in E. subst. contradiction. }
    clear - Hext. induction keys as [|k keys IH]; cbn; [constructor|].
    rewrite Hext by (now left). apply Permutation_app_head. apply IH.
    intros L HL. apply Hext. now right.
  - apply dlogic_eqb_neq in E. destruct Hin as [Hin|Hin]; [congruence|].
    specialize (IH Hnd' Hin).
    eapply Permutation_trans.
    + apply Permutation_app_head. exact IH.
    + apply Permutation_sym. apply Permutation_middle.
Qed.

Lemma group_perm {A} (tag : A -> dlogic) :
  forall (all : list A) keys, NoDup keys -> (forall x, In x all -> In (tag x) keys) ->
  Permutation (flat_map (fun L => filter (fun x => dlogic_eqb (tag x) L) all) keys) all.
Proof.
  induction all as [|x all IH]; intros keys Hnd Hin.
  - cbn. clear. induction keys as [|k keys IHk]; cbn; [constructor|exact IHk].
  - cbn [filter].
    eapply Permutation_trans.
    + apply (flat_map_cons_perm (fun L => filter (fun x0 => dlogic_eqb (tag x0) L) all) x (tag x) keys Hnd).
      apply Hin. now left.
    + constructor. apply IH; [exact Hnd|]. intros y Hy. apply Hin. now right.
Qed.

Lemma NoDup_app_intro {A} (l1 l2 : list A) :
  NoDup l1 -> NoDup l2 -> (forall x, In x l1 -> In x l2 -> False) -> NoDup (l1 ++ l2).
Proof.
  induction l1 as [|x l1 IH]; intros H1 H2 Hd; cbn; [exact H2|].
  inversion H1 as [|x' l' Hx Hl]; subst. constructor.
  - rewrite in_app_iff. intros [Hin|Hin]; [contradiction|]. apply (Hd x); [now left|exact Hin].
  - apply IH; [exact Hl|exact H2|]. intros y Hy1 Hy2. apply (Hd y); [now right|exact Hy2].
Qed.

(* NoDup of a grouped list by tags *)
Lemma NoDup_flat_map_tag {A} (rowof : A -> string) (tag : string -> dlogic) (G : dlogic -> list A) :
  forall keys, NoDup keys ->
  (forall L, In L keys -> NoDup (map rowof (G L))) ->
  (forall L d, In L keys -> In d (G L) -> tag (rowof d) = L) ->
  NoDup (map rowof (flat_map G keys)).
Proof.
  induction keys as [|k keys IH]; intros Hnd HG Htag; cbn; [constructor|].
  inversion Hnd as [|k' keys' Hk Hnd']; subst.
  rewrite map_app. apply NoDup_app_intro.
  - apply HG. now left.
  - apply IH; [exact Hnd'| |].
    + intros L HL. apply HG. now right.
    + intros L d HL Hd. apply (Htag L d); [now right|exact Hd].
  - intros r Hr1 Hr2.
    apply in_map_iff in Hr1 as (d1 & E1 & Hd1).
    apply in_map_iff in Hr2 as (d2 & E2 & Hd2).
    apply in_flat_map in Hd2 as (L & HL & Hd2).
    assert (T1 : tag (rowof d1) = k) by (apply Htag; [now left|exact Hd1]).
    assert (T2 : tag (rowof d2) = L) by (apply Htag; [now right|exact Hd2]).
    rewrite E1 in T1. rewrite E2 in T2. subst. contradiction.
Qed.

(* ---------- lookups in annotated forests ---------- *)
Lemma awf_inv r m c f : awf ((r, m, c) :: f) -> ~ In r (arows f) /\ awf (akids c) /\ awf f.
Proof. intros H. inversion H; subst. auto. Qed.

Lemma awf_NoDup f : awf f -> NoDup (arows f).
Proof. induction 1 as [|r m c f Hr _ _ _ IH]; cbn; constructor; assumption. Qed.

Lemma awf_In f : awf f -> forall r m c, In (r, m, c) f -> awf (akids c).
Proof.
  induction 1 as [|r0 m0 c0 f Hr Hc _ _ IH]; intros r m c Hin; [destruct Hin|].
  destruct Hin as [E|Hin]; [injection E as E1 E2 E3; subst; exact Hc | eapply IH; exact Hin].
Qed.

Lemma In_arows r m c (f : aforest) : In (r, m, c) f -> In r (arows f).
Proof. intros H. apply in_map_iff. exists (r, m, c). split; [reflexivity|exact H]. Qed.

Lemma alookup_Some_In : forall f r m c, alookup r f = Some (m, c) -> In (r, m, c) f.
Proof.
  induction f as [|[[r0 m0] c0] f IH]; intros r m c H; cbn in H; [discriminate|].
  destruct (String.eqb_spec r0 r) as [E|E].
  - injection H as E1 E2; subst. now left.
  - right. apply IH. exact H.
Qed.

Lemma alookup_None : forall f r, alookup r f = None <-> ~ In r (arows f).
Proof.
  induction f as [|[[r0 m0] c0] f IH]; intros r; cbn.
  - tauto.
  - destruct (String.eqb_spec r0 r) as [E|E].
    + split; [discriminate | intros H; exfalso; apply H; now left].
    + rewrite IH. unfold arow at 1. cbn. tauto.
Qed.

Lemma alookup_In : forall f r m c, NoDup (arows f) -> In (r, m, c) f -> alookup r f = Some (m, c).
Proof.
  induction f as [|[[r0 m0] c0] f IH]; intros r m c Hnd Hin; [destruct Hin|].
  cbn in Hnd. inversion Hnd as [|x l Hx Hl]; subst. cbn.
  destruct Hin as [E|Hin].
  - injection E as E1 E2 E3; subst. rewrite String.eqb_refl. reflexivity.
  - destruct (String.eqb_spec r0 r) as [E|E].
    + subst. exfalso. apply Hx. eapply In_arows. exact Hin.
    + apply IH; assumption.
Qed.

Lemma amem_In f r : amem r f = true <-> In r (arows f).
Proof.
  unfold amem. destruct (alookup r f) as [p|] eqn:E.
  - destruct p as [m c]. apply alookup_Some_In in E. split; [intros _; eapply In_arows; exact E | reflexivity].
  - apply alookup_None in E. split; [discriminate | contradiction].
Qed.

Lemma afind_None : forall f r i, afind r f i = None <-> alookup r f = None.
Proof.
  induction f as [|[[r0 m0] c0] f IH]; intros r i; cbn; [tauto|].
  destruct (String.eqb r0 r); [split; discriminate | apply IH].
Qed.

Lemma afind_Some : forall f r i j s, afind r f i = Some (j, s) -> exists m, alookup r f = Some (m, s).
Proof.
  induction f as [|[[r0 m0] c0] f IH]; intros r i j s H; cbn in *; [discriminate|].
  destruct (String.eqb r0 r).
  - injection H as E1 E2; subst. exists m0. reflexivity.
  - eapply IH. exact H.
Qed.

Lemma afind_app_hit : forall pre r m s suf i, ~ In r (arows pre) ->
  afind r (pre ++ (r, m, s) :: suf) i = Some (i + List.length pre, s).
Proof.
  induction pre as [|[[r0 m0] c0] pre IH]; intros r m s suf i Hn; cbn.
  - rewrite String.eqb_refl. f_equal. f_equal. lia.
  - destruct (String.eqb_spec r0 r) as [E|E].
    + exfalso. apply Hn. left. exact E.
    + rewrite IH by (intro Hin; apply Hn; right; exact Hin). f_equal. f_equal. lia.
Qed.

(* the index returned by afind points at the row *)
Lemma afind_nth : forall f r i j s, afind r f i = Some (j, s) ->
  i <= j /\ exists m, nth_error f (j - i) = Some (r, m, s).
Proof.
  induction f as [|[[r0 m0] c0] f IH]; intros r i j s H; cbn in H; [discriminate|].
  destruct (String.eqb_spec r0 r) as [E|E].
  - injection H as E1 E2; subst. split; [lia|]. replace (j - j) with 0 by lia. exists m0. reflexivity.
  - apply IH in H as (Hle & m & Hn). split; [lia|]. exists m.
    replace (j - i) with (S (j - S i)) by lia. exact Hn.
Qed.

Lemma arows_filter_incl p (f : aforest) r : In r (arows (filter p f)) -> In r (arows f).
Proof.
  unfold arows. rewrite !in_map_iff. intros (k & E & Hk). apply filter_In in Hk as [Hk _].
  exists k. auto.
Qed.

Lemma NoDup_arows_filter p (f : aforest) : NoDup (arows f) -> NoDup (arows (filter p f)).
Proof.
  induction f as [|k f IH]; cbn; intros H; [constructor|].
  inversion H as [|x l Hx Hl]; subst.
  destruct (p k); cbn.
  - constructor; [|apply IH; exact Hl]. intro Hin. apply Hx. eapply arows_filter_incl. exact Hin.
  - apply IH. exact Hl.
Qed.

Lemma compat_nil_l : forall an, compat [] an.
Proof.
  induction an as [|[[r m] c] an IH]; constructor; try exact IH; intros mo so H; discriminate.
Qed.

Lemma compat_In ao an : compat ao an -> forall r m c mo so, In (r, m, c) an ->
  alookup r ao = Some (mo, so) -> mo = m /\ compat (akids so) (akids c).
Proof.
  induction 1 as [|ao r0 m0 c0 f H1 H2 _ _ IH]; intros r m c mo so Hin Hl; [destruct Hin|].
  destruct Hin as [E|Hin].
  - injection E as E1 E2 E3; subst. split; [eapply H1 | eapply H2]; exact Hl.
  - eapply IH; eassumption.
Qed.

(* ---------- structure of diff_t ---------- *)
Definition cks (f : aforest) : list ckid := map (fun k => (arow k, ami k, diff_t (asub k))) f.

Lemma diff_t_unfold nk old pop inrw :
  diff_t (AT nk) old pop inrw = diff_level old (cks nk) pop inrw.
Proof.
  cbn [diff_t]. f_equal.
  induction nk as [|[[r m] c] nk IH]; [reflexivity|].
  cbn [cks map]. unfold arow, ami, asub. cbn [fst snd]. f_equal. exact IH.
Qed.

Definition inL (L : dlogic) (k : string * minfo * atree) : bool := dlogic_eqb (mi_dlogic (ami k)) L.

Lemma filter_cks L f :
  filter (fun k : ckid => dlogic_eqb (mi_dlogic (snd (fst k))) L) (cks f) = cks (filter (inL L) f).
Proof.
  induction f as [|[[r m] c] f IH]; [reflexivity|].
  change (cks ((r, m, c) :: f)) with ((r, m, diff_t c) :: cks f).
  cbn [filter fst snd].
  change (inL L (r, m, c)) with (dlogic_eqb (mi_dlogic m) L).
  destruct (dlogic_eqb (mi_dlogic m) L); rewrite IH; reflexivity.
Qed.

Lemma cks_rows f : map (fun k : ckid => fst (fst k)) (cks f) = arows f.
Proof. unfold cks, arows. rewrite map_map. reflexivity. Qed.

Lemma diff_level_unfold old nk pop inrw :
  diff_level old (cks nk) pop inrw =
  flat_map (fun L => run_dlogic L (filter (inL L) old) (cks (filter (inL L) nk)) pop inrw)
           (uniq_dl (map (fun k => mi_dlogic (ami k)) old ++ map (fun k => mi_dlogic (ami k)) nk) []).
Proof.
  unfold diff_level.
  replace (map (fun k : ckid => mi_dlogic (snd (fst k))) (cks nk)) with (map (fun k => mi_dlogic (ami k)) nk)
    by (unfold cks; rewrite map_map; reflexivity).
  apply flat_map_ext. intros L. rewrite filter_cks. reflexivity.
Qed.

(* ---------- interleave ---------- *)
Lemma interleave_perm : forall news rem i, Permutation (interleave news rem i) (news ++ map snd rem).
Proof.
  induction news as [|d ns IH]; intros rem i; cbn [interleave].
  - apply Permutation_refl.
  - destruct rem as [|[j r] rem'].
    + cbn. constructor. specialize (IH [] (S i)). cbn in IH. exact IH.
    + destruct (Nat.eqb j i).
      * cbn. constructor. eapply Permutation_trans; [constructor; apply IH|].
        apply Permutation_middle.
      * cbn. constructor. apply (IH ((j, r) :: rem') (S i)).
Qed.

Lemma interleave_nil : forall news i, interleave news [] i = news.
Proof. induction news as [|d ns IH]; intros i; cbn; [reflexivity|]. rewrite IH. reflexivity. Qed.

Lemma interleave_filter (p : dnode -> bool) : forall news rem i,
  (forall d, In d news -> p d = true) -> (forall d, In d (map snd rem) -> p d = false) ->
  filter p (interleave news rem i) = news.
Proof.
  induction news as [|d ns IH]; intros rem i Hn Hr; cbn [interleave].
  - induction rem as [|[j r] rem IHr]; cbn; [reflexivity|].
    rewrite (Hr r) by (now left). apply IHr. intros d Hd. apply Hr. now right.
  - destruct rem as [|[j r] rem'].
    + cbn. rewrite (Hn d) by (now left). f_equal. apply IH; [|intros x []].
      intros x Hx. apply Hn. now right.
    + destruct (Nat.eqb j i); cbn; rewrite (Hn d) by (now left).
      * rewrite (Hr r) by (now left). f_equal. apply IH.
        -- intros x Hx. apply Hn. now right.
        -- intros x Hx. apply Hr. now right.
      * f_equal. apply IH; [|exact Hr]. intros x Hx. apply Hn. now right.
Qed.

(* ---------- removed_rows ---------- *)
Definition mkrem (k : string * minfo * atree) : dnode := DN Removed (arow k) (ami k) (removed_t (asub k)).

Lemma removed_rows_spec : forall l newrows i,
  map snd (removed_rows l newrows i) =
  map mkrem (filter (fun k => negb (existsb (String.eqb (arow k)) newrows)) l).
Proof.
  induction l as [|[[r m] c] l IH]; intros newrows i; [reflexivity|].
  cbn [removed_rows filter]. unfold arow at 1. cbn [fst].
  destruct (existsb (String.eqb r) newrows); cbn [negb map snd]; rewrite IH; reflexivity.
Qed.
