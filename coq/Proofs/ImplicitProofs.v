(* C17: the lemmas cited by Properties/C17.v.  The work is in ImplicitLib (implementation =
   declarative completion), ImplicitSpec (clauses 1-3) and ImplicitDiff (clause 4, on the C03
   libraries); this file states the results about the model, instantiates them to every
   hardware branch of Gen/Src_implicit.v by computation, and holds the ties to the source. *)
From Coq Require Import List String Ascii Bool Arith Lia.
From Annet Require Import Base.Str Base.Tree Model.Pattern Model.Rulebook Model.Diff Model.Order Model.Patch
     Model.Blocks Model.Pipeline Model.Implicit
     Spec.P_C17 Gen.Src_implicit Proofs.ImplicitLib Proofs.ImplicitSpec Proofs.ImplicitDiff.
Import ListNotations.
Open Scope string_scope.
Open Scope list_scope.

(* ---- the tie to annet/implicit.py and annet/gen.py as they are now (Gen/Src_implicit.v) ---- *)
Definition src_text_parses (b : ibranch) : bool :=
  match Implicit.parse_text (ib_text b) with Some p => praws_eqb p (ib_tree b) | None => false end.
Lemma src_texts_parse : forallb src_text_parses Src_branches = true.
Proof. vm_compute. reflexivity. Qed.

Definition branch_rules (b : ibranch) : list irule := compile_tree (ib_tree b).
Definition src_modelled (b : ibranch) : bool := rules_modelled (branch_rules b).
Lemma src_rules_modelled : forallb src_modelled Src_branches = true.
Proof. vm_compute. reflexivity. Qed.

Lemma src_gen_completes_both : In "old" Src_gen_completed /\ In "new" Src_gen_completed.
Proof. vm_compute. auto. Qed.

(* ---- boolean well-formedness of rule trees ---- *)
Fixpoint nodup_str (l : list string) : bool :=
  match l with [] => true | x :: r => negb (existsb (String.eqb x) r) && nodup_str r end.
Fixpoint wfrb_r (r : irule) : bool :=
  match r with
  | IRule row _ ks => negb (is_empty row) && nodup_str (map i_row ks) && forallb wfrb_r ks
  end.
Definition wfrb (rs : list irule) : bool := nodup_str (map i_row rs) && forallb wfrb_r rs.

Lemma nodup_str_NoDup l : nodup_str l = true -> NoDup l.
Proof.
  induction l as [|x l IH]; cbn; intros H; [constructor|].
  apply andb_true_iff in H as [H1 H2]. apply negb_true_iff in H1. constructor; [|apply IH; exact H2].
  intro Hin. apply existsb_eqb_In in Hin. congruence.
Qed.

Lemma wfr_of_parts rs : NoDup (map i_row rs) -> (forall r, In r rs -> i_row r <> "" /\ wfr (i_kids r)) -> wfr rs.
Proof.
  induction rs as [|r rs IH]; intros Hnd H; [constructor|].
  cbn in Hnd. inversion Hnd as [|x l Hx Hl]; subst.
  destruct (H r (or_introl eq_refl)) as [H1 H2]. constructor; try assumption.
  apply IH; [exact Hl|]. intros r' Hr'. apply H. now right.
Qed.

Lemma wfrb_r_wfr : forall r, wfrb_r r = true -> i_row r <> "" /\ wfr (i_kids r).
Proof.
  induction r as [row ign ks IH] using irule_ind2. cbn [wfrb_r i_row i_kids]. intros H.
  apply andb_true_iff in H as [H H3]. apply andb_true_iff in H as [H1 H2]. split.
  - destruct row; [discriminate | discriminate].
  - apply wfr_of_parts; [apply nodup_str_NoDup; exact H2|].
    intros r Hr. rewrite Forall_forall in IH. apply (IH r Hr).
    rewrite forallb_forall in H3. apply H3. exact Hr.
Qed.

Lemma wfrb_wfr rs : wfrb rs = true -> wfr rs.
Proof.
  unfold wfrb. intros H. apply andb_true_iff in H as [H1 H2].
  apply wfr_of_parts; [apply nodup_str_NoDup; exact H1|].
  intros r Hr. apply wfrb_r_wfr. rewrite forallb_forall in H2. apply H2. exact Hr.
Qed.

Lemma src_branches_wfrb : forallb (fun b => wfrb (branch_rules b)) Src_branches = true.
Proof. vm_compute. reflexivity. Qed.

Lemma src_branches_wfr b : In b Src_branches -> wfr (branch_rules b).
Proof.
  intros Hb. apply wfrb_wfr. pose proof src_branches_wfrb as H. rewrite forallb_forall in H. apply H. exact Hb.
Qed.

(* ================================================================================== *)
(* Results about the model, for every matcher, rule tree and config tree               *)
Section Model.
  Variable im : string -> string -> bool.

  (* implicit.config followed by merge_dicts computes the declarative completion *)
  Theorem model_is_completion rs t : okf t -> wfr rs -> add_implicit im rs t = complete im rs t.
  Proof. intros Ht Hr. apply add_implicit_complete; assumption. Qed.

  Theorem model_explicit_kept rs t : okf t -> wfr rs -> subtree t (add_implicit im rs t) = true.
  Proof. intros Ht Hr. rewrite model_is_completion by assumption. apply explicit_kept. Qed.

  Theorem model_idem rs t : okf t -> wfr rs -> idem_guard im rs = true ->
    add_implicit im rs (add_implicit im rs t) = add_implicit im rs t.
  Proof.
    intros Ht Hr Hg. rewrite (model_is_completion rs t Ht Hr).
    rewrite model_is_completion; [|apply complete_okf; assumption | exact Hr].
    apply complete_idem. exact Hg.
  Qed.

  (* clause 3, at every parent the rules reach *)
  Theorem model_default_iff rs t p rs' t' r :
    okf t -> wfr rs ->
    rules_at im rs p = Some rs' -> sub_at p t = Some t' -> In r rs' -> i_ign r = false ->
    exists m', sub_at p (add_implicit im rs t) = Some m' /\
               (In (i_row r) (keys m') <-> has_match im (i_row r) t' = false \/ In (i_row r) (keys t')).
  Proof. intros Ht Hr. rewrite model_is_completion by assumption. apply default_iff_at. Qed.

  (* the row is ADDED iff no row of its kind is there, when the default row is of its own kind *)
  Theorem model_default_added_iff rs t p rs' t' r :
    okf t -> wfr rs ->
    rules_at im rs p = Some rs' -> sub_at p t = Some t' -> In r rs' -> i_ign r = false ->
    im (i_row r) (i_row r) = true ->
    exists m', sub_at p (add_implicit im rs t) = Some m' /\
               (In (i_row r) (keys m') /\ ~ In (i_row r) (keys t') <-> has_match im (i_row r) t' = false).
  Proof.
    intros Ht Hr H1 H2 H3 H4 Hself.
    destruct (model_default_iff rs t p rs' t' r Ht Hr H1 H2 H3 H4) as (m' & Hm & Hiff).
    exists m'. split; [exact Hm|]. split.
    - intros [Ha Hb]. apply Hiff in Ha as [Ha|Ha]; [exact Ha | contradiction].
    - intros Hn. split; [apply Hiff; now left|].
      intro Hk. apply in_map_iff in Hk as (kv & E & Hkv).
      assert (Ht' : has_match im (i_row r) t' = true).
      { apply has_match_exists. exists kv. split; [exact Hkv|]. rewrite E. exact Hself. }
      congruence.
  Qed.

  (* nothing but wanted, childless default rows is added, at every parent the rules reach *)
  Theorem model_only_defaults_added rs t p rs' t' m' k c :
    okf t -> wfr rs ->
    rules_at im rs p = Some rs' -> sub_at p t = Some t' -> sub_at p (add_implicit im rs t) = Some m' ->
    In (k, c) m' -> ~ In k (keys t') ->
    c = T [] /\ exists r, In r rs' /\ i_row r = k /\ i_ign r = false /\ has_match im k t' = false.
  Proof.
    intros Ht Hr H1 H2 H3. rewrite model_is_completion in H3 by assumption.
    rewrite (complete_at im p rs t rs' t' H1 H2) in H3. injection H3 as E. subst m'.
    apply added_iff_level.
  Qed.

  (* the predicate the check evaluates on the implementation's outputs holds of the model *)
  Theorem model_P_C17 rs t : okf t -> wfr rs -> idem_guard im rs = true ->
    let m := add_implicit im rs t in
    P_C17 im (rs, t) (m, add_implicit im rs m) = true.
  Proof.
    intros Ht Hr Hg m. unfold P_C17, P_spec, P_kept, P_iff, P_idem. cbn [fst snd].
    subst m. rewrite (model_idem rs t Ht Hr Hg), (model_explicit_kept rs t Ht Hr).
    rewrite (model_is_completion rs t Ht Hr), forest_eqb_refl, iff_complete by (apply okf_wf; exact Ht).
    reflexivity.
  Qed.
End Model.

(* ================================================================================== *)
(* Clause 4: both sides completed the same way, then make_diff                          *)
Lemma sub_at_app p q : forall f,
  sub_at (p ++ q) f = match sub_at p f with Some g => sub_at q g | None => None end.
Proof.
  induction p as [|x p IH]; intros f; [reflexivity|]. cbn [app sub_at].
  destruct (lookup x f) as [c|]; [apply IH | reflexivity].
Qed.

Section NoSpurious.
  Variable im : string -> string -> bool.                       (* implicit rule matcher *)
  Variable rm : string -> string -> option (list string).      (* patching rule matcher *)

  (* a wanted default sits childless below its parent in the completion *)
  Lemma default_leaf rs t p rs' t' r :
    wfr rs -> rules_at im rs p = Some rs' -> sub_at p t = Some t' -> In r rs' ->
    wants_default im t' r = true ->
    sub_at (p ++ [i_row r]) (complete im rs t) = Some [].
  Proof.
    intros Hw H1 H2 Hin Hwant. rewrite sub_at_app, (complete_at im p rs t rs' t' H1 H2).
    cbn [sub_at]. rewrite complete_eq', lookup_app, lookup_map_keyed.
    pose proof Hwant as Hw2. apply wants_default_iff in Hw2 as (_ & _ & Hk).
    rewrite (proj2 (lookup_None (i_row r) t') Hk).
    assert (Hwr : wfr rs').
    { clear -Hw H1. revert rs Hw H1. induction p as [|x p IH]; intros rs Hw H1; cbn [rules_at] in H1.
      - injection H1 as E. subst. exact Hw.
      - destruct (last_match im rs x) as [r0|] eqn:El; [|discriminate].
        apply last_match_In in El as [E1 _]. apply (IH (i_kids r0)); [apply (wfr_In rs Hw r0 E1) | exact H1]. }
    rewrite (lookup_In (i_row r) (T []) (defaults im rs' t')).
    - reflexivity.
    - apply okf_NoDup. apply okf_defaults. exact Hwr.
    - unfold defaults. apply in_map_iff. exists r. split; [reflexivity|]. apply filter_In. auto.
  Qed.

  Theorem no_spurious_diff irs rs t u p rs' t' u' r :
    wfr irs -> okf t -> okf u ->
    rules_at im irs p = Some rs' -> sub_at p t = Some t' -> sub_at p u = Some u' ->
    In r rs' -> i_ign r = false ->
    has_match im (i_row r) t' = false -> has_match im (i_row r) u' = false ->
    ~ In (i_row r) (keys t') -> ~ In (i_row r) (keys u') ->
    path_ddefault rm rs (p ++ [i_row r]) = true ->
    let mt := add_implicit im irs t in
    let mu := add_implicit im irs u in
    let D := make_diff rm rs mt mu in
    (sub_at (p ++ [i_row r]) mt = Some [] /\ sub_at (p ++ [i_row r]) mu = Some []) /\
    Forall (fun e => d_op e = Unchanged) (entries_at (p ++ [i_row r]) D) /\
    entries_at (p ++ [i_row r]) (strip_unchanged D) = [].
  Proof.
    intros Hw Ht Hu H1 H2 H3 Hin Hi Hmt Hmu Hkt Hku Hdl mt mu D. subst mt mu D.
    rewrite !(model_is_completion im irs) by assumption.
    assert (Wt : wants_default im t' r = true) by (apply wants_default_iff; auto).
    assert (Wu : wants_default im u' r = true) by (apply wants_default_iff; auto).
    pose proof (default_leaf irs t p rs' t' r Hw H1 H2 Hin Wt) as Lt.
    pose proof (default_leaf irs u p rs' u' r Hw H1 H3 Hin Wu) as Lu.
    split; [split; assumption|].
    apply leaf_both_unchanged; try assumption.
    - apply okf_wf. apply complete_okf; assumption.
    - apply okf_wf. apply complete_okf; assumption.
    - destruct p; discriminate.
  Qed.
End NoSpurious.

(* the patch half of clause 4, as the check evaluates it on the real pipeline's outputs: in the
   model pipeline, no command below the parent has the absent default or its reverse form as last
   element unless another changed line of that parent explains it (P_nospur).  NOT proved; the
   proved half is no_spurious_diff (no diff entry, UNCHANGED before stripping). *)
Definition no_spurious_patch_statement : Prop :=
  forall (v : vendor) irs rs ordering t u,
    wfr irs -> okf t -> okf u ->
    let mt := add_implicit imatch irs t in
    let mu := add_implicit imatch irs u in
    forall d pt, diff_and_patch v rs ordering mt mu = (d, POk pt) ->
      P_nospur imatch (path_ddefault pm rs)
               (C17Pipe (v_reverse v) irs t u mt mu d (cmd_paths (v_family v) pt)) = true.

(* ================================================================================== *)
(* Every hardware branch of _implicit_tree (Gen/Src_implicit.v), by computation         *)

(* every default row of the branch is of its own kind (matches its own pattern) *)
Fixpoint self_matching_r (r : irule) : bool :=
  match r with IRule row ign ks => (ign || imatch row row) && forallb self_matching_r ks end.
Definition self_matching (rs : list irule) : bool := forallb self_matching_r rs.

Lemma src_branches_self_matching : forallb (fun b => self_matching (branch_rules b)) Src_branches = true.
Proof. vm_compute. reflexivity. Qed.

Lemma self_matching_at : forall p rs rs', self_matching rs = true -> rules_at imatch rs p = Some rs' ->
  self_matching rs' = true.
Proof.
  induction p as [|x p IH]; intros rs rs' Hs H; cbn [rules_at] in H.
  - injection H as E. subst. exact Hs.
  - destruct (last_match imatch rs x) as [r|] eqn:El; [|discriminate].
    apply last_match_In in El as [Hr _]. apply (IH (i_kids r)); [|exact H].
    unfold self_matching in Hs. rewrite forallb_forall in Hs. specialize (Hs r Hr).
    destruct r as [row ign ks]. cbn [self_matching_r] in Hs. apply andb_true_iff in Hs as [_ Hs]. exact Hs.
Qed.

Lemma self_matching_In rs r : self_matching rs = true -> In r rs -> i_ign r = false ->
  imatch (i_row r) (i_row r) = true.
Proof.
  unfold self_matching. rewrite forallb_forall. intros Hs Hr Hi. specialize (Hs r Hr).
  destruct r as [row ign ks]. cbn [self_matching_r i_row i_ign] in *. subst ign.
  apply andb_true_iff in Hs as [Hs _]. exact Hs.
Qed.

Section Hardware.
  Variable b : ibranch.
  Hypothesis Hb : In b Src_branches.
  Let R := branch_rules b.

  Theorem hw_completion t : okf t -> add_implicit imatch R t = complete imatch R t.
  Proof. intros Ht. apply model_is_completion; [exact Ht | apply src_branches_wfr; exact Hb]. Qed.

  Theorem hw_explicit_kept t : okf t -> subtree t (add_implicit imatch R t) = true.
  Proof. intros Ht. apply model_explicit_kept; [exact Ht | apply src_branches_wfr; exact Hb]. Qed.

  Theorem hw_default_added_iff t p rs' t' r :
    okf t -> rules_at imatch R p = Some rs' -> sub_at p t = Some t' -> In r rs' -> i_ign r = false ->
    exists m', sub_at p (add_implicit imatch R t) = Some m' /\
               (In (i_row r) (keys m') /\ ~ In (i_row r) (keys t') <-> has_match imatch (i_row r) t' = false).
  Proof.
    intros Ht H1 H2 H3 H4. apply (model_default_added_iff imatch R t p rs' t' r); try assumption.
    - apply src_branches_wfr. exact Hb.
    - apply (self_matching_In rs' r); [|exact H3 | exact H4].
      apply (self_matching_at p R rs'); [|exact H1].
      pose proof src_branches_self_matching as H. rewrite forallb_forall in H. apply (H b Hb).
  Qed.

  Theorem hw_no_spurious_diff rs t u p rs' t' u' r :
    okf t -> okf u ->
    rules_at imatch R p = Some rs' -> sub_at p t = Some t' -> sub_at p u = Some u' ->
    In r rs' -> i_ign r = false ->
    has_match imatch (i_row r) t' = false -> has_match imatch (i_row r) u' = false ->
    path_ddefault pm rs (p ++ [i_row r]) = true ->
    let mt := add_implicit imatch R t in
    let mu := add_implicit imatch R u in
    let D := p_make_diff rs mt mu in
    Forall (fun e => d_op e = Unchanged) (entries_at (p ++ [i_row r]) D) /\
    entries_at (p ++ [i_row r]) (strip_unchanged D) = [].
  Proof.
    intros Ht Hu H1 H2 H3 Hin Hi Hmt Hmu Hdl.
    assert (Hself : imatch (i_row r) (i_row r) = true).
    { apply (self_matching_In rs' r); [|exact Hin | exact Hi].
      apply (self_matching_at p R rs'); [|exact H1].
      pose proof src_branches_self_matching as H. rewrite forallb_forall in H. apply (H b Hb). }
    assert (Hk : forall f, has_match imatch (i_row r) f = false -> ~ In (i_row r) (keys f)).
    { intros f Hf Hk. apply in_map_iff in Hk as (kv & E & Hkv).
      assert (has_match imatch (i_row r) f = true).
      { apply has_match_exists. exists kv. split; [exact Hkv|]. rewrite E. exact Hself. }
      congruence. }
    apply (no_spurious_diff imatch pm R rs t u p rs' t' u' r); try assumption.
    - apply src_branches_wfr. exact Hb.
    - apply Hk. exact Hmt.
    - apply Hk. exact Hmu.
  Qed.
End Hardware.

(* completing twice: every branch but Huawei NE satisfies the guard *)
Lemma src_branches_idem_guard :
  forallb (fun b => String.eqb (ib_name b) "huawei_ne" || idem_guard imatch (branch_rules b)) Src_branches = true.
Proof. vm_compute. reflexivity. Qed.

Theorem hw_idem b t : In b Src_branches -> ib_name b <> "huawei_ne" -> okf t ->
  add_implicit imatch (branch_rules b) (add_implicit imatch (branch_rules b) t)
  = add_implicit imatch (branch_rules b) t.
Proof.
  intros Hb Hn Ht. apply model_idem; [exact Ht | apply src_branches_wfr; exact Hb|].
  pose proof src_branches_idem_guard as H. rewrite forallb_forall in H. specialize (H b Hb).
  apply orb_true_iff in H as [H|H]; [|exact H]. apply String.eqb_eq in H. contradiction.
Qed.

(* ... and on Huawei NE the unguarded statement is false: the empty configuration *)
Theorem idem_refuted_huawei_ne :
  exists b t, In b Src_branches /\ okf t /\
    add_implicit imatch (branch_rules b) (add_implicit imatch (branch_rules b) t)
    <> add_implicit imatch (branch_rules b) t.
Proof.
  exists br_huawei_ne, []. split; [|split].
  - vm_compute. tauto.
  - constructor.
  - vm_compute. discriminate.
Qed.

(* without the diff-logic guard clause 4 is false: inside a %rewrite block every line, the
   default included, is re-created (MOVED) as soon as one line of the block changes *)
Definition rw_irules : list irule := [IRule "blk" true [IRule "ip y" false []]].
Definition rw_rs : rset :=
  ([PRule "blk %rewrite" false (Attrs "blk" LRewrite DRewrite true false)
          [PRule "ip *" false (Attrs "ip *" LDefault DDefault false false) [] []] []], []).
Definition rw_t : forest := [("blk", T [("ip 1", T [])])].
Definition rw_u : forest := [("blk", T [("ip 2", T [])])].

Theorem no_spurious_rewrite_refuted :
  exists irs rs t u p rs' t' u' r,
    wfr irs /\ okf t /\ okf u /\
    rules_at imatch irs p = Some rs' /\ sub_at p t = Some t' /\ sub_at p u = Some u' /\
    In r rs' /\ i_ign r = false /\
    has_match imatch (i_row r) t' = false /\ has_match imatch (i_row r) u' = false /\
    ~ In (i_row r) (keys t') /\ ~ In (i_row r) (keys u') /\
    map d_op (entries_at (p ++ [i_row r])
                (strip_unchanged (p_make_diff rs (add_implicit imatch irs t) (add_implicit imatch irs u))))
    = [Moved].
Proof.
  exists rw_irules, rw_rs, rw_t, rw_u, ["blk"], [IRule "ip y" false []], [("ip 1", T [])], [("ip 2", T [])],
         (IRule "ip y" false []).
  repeat split.
  - apply wfrb_wfr. vm_compute. reflexivity.
  - repeat constructor; cbn; intuition discriminate.
  - repeat constructor; cbn; intuition discriminate.
  - vm_compute. tauto.
  - cbn. intuition discriminate.
  - cbn. intuition discriminate.
Qed.
