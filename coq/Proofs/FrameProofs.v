(* C20: lemma library for Model/Frame.v.
   - make_patch on the store leaves the rule dictionaries alone when the per-(rule,key)
     deepcopy is present (mp_frame), and also when only _select_match's copy is (mp_frame_sel);
   - nothing a job returns depends on the ACL scratch cells it finds (run_core_irrel);
   - a job keeps every cached rulebook as compiled (run_job_inv), hence the observation of
     the i-th job of any sequence is the observation in the empty store (history_all). *)
From Coq Require Import List String Ascii Bool Arith ZArith Lia.
From Annet Require Import Base.Str Base.Tree Model.Pattern Model.Rulebook Model.Diff Model.Order
     Model.Patch Model.Blocks Model.Pipeline Model.Frame.
Import ListNotations.
Open Scope string_scope.
Open Scope list_scope.

(* generic: a fold of state transformers that each keep a projection keeps it *)
Lemma fold_left_inv {A B} (f : A -> B -> A) (P : A -> Prop) :
  (forall a b, P a -> P (f a b)) -> forall l a, P a -> P (fold_left f l a).
Proof. intros H l. induction l as [|x l IH]; intros a Ha; cbn; auto. Qed.

Section MPFrame.
  Variable F : frames.
  Variable v : vendor.
  Variable ac : bool.
  Hypothesis Hpc : fr_patch_copy F = true.

  Lemma write_back_copy g c cs : write_back F g c cs = (g, cs).
  Proof. unfold write_back. rewrite Hpc. reflexivity. Qed.

  Section Level.
    Variable rec : pre -> hrset -> list orule -> list cell -> presult * list cell.
    Hypothesis Hrec : forall p h o cs, snd (rec p h o cs) = cs.

    Lemma do_yield_frame raw a hrs ord st y :
      snd (do_yield v ac rec raw a hrs ord st y) = snd st.
    Proof.
      unfold do_yield. destruct y as [[[[direct row] sub] fc] comment].
      destruct st as [[out|] cs]; [|reflexivity].
      destruct (p_get_order v ord row direct (Some "patch")) as [[order odirect] ord'].
      destruct sub as [[ch [|]]|]; cbn [snd].
      - specialize (Hrec ch (hchildren cs row hrs) ord' cs).
        destruct (rec ch (hchildren cs row hrs) ord' cs) as [[ct|] cs1]; cbn in *; subst; reflexivity.
      - reflexivity.
      - reflexivity.
    Qed.

    Lemma fold_yield_frame raw a hrs ord ys st :
      snd (fold_left (do_yield v ac rec raw a hrs ord) ys st) = snd st.
    Proof.
      revert st. induction ys as [|y ys IH]; intro st; cbn; [reflexivity|].
      rewrite IH. apply do_yield_frame.
    Qed.

    Lemma do_key_frame raw a w hrs ord g st k :
      fst (do_key F v ac rec raw a w hrs ord (g, st) k) = g /\
      snd (snd (do_key F v ac rec raw a w hrs ord (g, st) k)) = snd st.
    Proof.
      unfold do_key. destruct st as [[out|] cs]; [|split; reflexivity].
      destruct (run_x pre w (a_logic a) (deref cs g) (fst k) _) as [ys c_out].
      rewrite write_back_copy.
      destruct ys as [ys|]; cbn [fst snd]; [|split; reflexivity].
      split; [reflexivity|]. rewrite fold_yield_frame. reflexivity.
    Qed.

    Lemma fold_key_frame raw a w hrs ord ks g st :
      fst (fold_left (do_key F v ac rec raw a w hrs ord) ks (g, st)) = g /\
      snd (snd (fold_left (do_key F v ac rec raw a w hrs ord) ks (g, st))) = snd st.
    Proof.
      revert g st. induction ks as [|k ks IH]; intros g st; cbn [fold_left]; [split; reflexivity|].
      destruct (do_key_frame raw a w hrs ord g st k) as [Hg Hs].
      destruct (do_key F v ac rec raw a w hrs ord (g, st) k) as [g' st'] eqn:E. cbn in Hg, Hs. subst g'.
      destruct (IH g st') as [H1 H2]. rewrite H1, H2. split; [reflexivity|exact Hs].
    Qed.

    Lemma do_group_frame hrs ord st grp :
      snd (do_group F v ac rec hrs ord st grp) = snd st.
    Proof.
      unfold do_group. destruct grp as [[raw a] ks]. destruct st as [[out|] cs]; [|reflexivity].
      apply (fold_key_frame raw a).
    Qed.

    Lemma mp_level_frame p hrs ord cs : snd (mp_level F v ac rec p hrs ord cs) = cs.
    Proof.
      unfold mp_level.
      assert (H : snd (fold_left (do_group F v ac rec hrs ord) (pgroups p) (Some [], cs)) = cs).
      { apply (fold_left_inv (do_group F v ac rec hrs ord) (fun st => snd st = cs)); [|reflexivity].
        intros st g Hst. rewrite do_group_frame. exact Hst. }
      destruct (fold_left _ _ _) as [[out|] cs']; cbn in *; subst; reflexivity.
    Qed.
  End Level.

  Lemma mp_frame n : forall p hrs ord cs, snd (mp F v ac n p hrs ord cs) = cs.
  Proof.
    induction n as [|n IH]; intros p hrs ord cs; cbn [mp]; [reflexivity|].
    apply mp_level_frame. exact IH.
  Qed.

  Lemma make_patch_h_frame p hrs ord cs : snd (make_patch_h F v ac p hrs ord cs) = cs.
  Proof. apply mp_frame. Qed.
End MPFrame.

(* the other layer alone is enough for the rule dictionaries: with the copy of
   _select_match the group dictionary is an object of its own *)
Section MPFrameSel.
  Variable F : frames.
  Variable v : vendor.
  Variable ac : bool.
  Hypothesis Hsc : fr_select_copy F = true.

  Definition is_val (g : aref) : Prop := match g with AVal _ => True | ALoc _ => False end.

  Lemma write_back_val g c cs : is_val g -> is_val (fst (write_back F g c cs)) /\ snd (write_back F g c cs) = cs.
  Proof.
    unfold write_back. destruct (fr_patch_copy F); [intros H; split; [exact H|reflexivity]|].
    destruct g as [l|c0]; cbn; [intros []|intros _; split; [exact I|reflexivity]].
  Qed.

  Section Level.
    Variable rec : pre -> hrset -> list orule -> list cell -> presult * list cell.
    Hypothesis Hrec : forall p h o cs, snd (rec p h o cs) = cs.

    Lemma do_yield_frame' raw a hrs ord st y :
      snd (do_yield v ac rec raw a hrs ord st y) = snd st.
    Proof.
      unfold do_yield. destruct y as [[[[direct row] sub] fc] comment].
      destruct st as [[out|] cs]; [|reflexivity].
      destruct (p_get_order v ord row direct (Some "patch")) as [[order odirect] ord'].
      destruct sub as [[ch [|]]|]; cbn [snd]; try reflexivity.
      specialize (Hrec ch (hchildren cs row hrs) ord' cs).
      destruct (rec ch (hchildren cs row hrs) ord' cs) as [[ct|] cs1]; cbn in *; subst; reflexivity.
    Qed.

    Lemma fold_yield_frame' raw a hrs ord ys st :
      snd (fold_left (do_yield v ac rec raw a hrs ord) ys st) = snd st.
    Proof.
      revert st. induction ys as [|y ys IH]; intro st; cbn; [reflexivity|].
      rewrite IH. apply do_yield_frame'.
    Qed.

    Lemma do_key_frame' raw a w hrs ord g st k :
      is_val g ->
      is_val (fst (do_key F v ac rec raw a w hrs ord (g, st) k)) /\
      snd (snd (do_key F v ac rec raw a w hrs ord (g, st) k)) = snd st.
    Proof.
      intro Hg. unfold do_key. destruct st as [[out|] cs]; [|split; [exact Hg|reflexivity]].
      destruct (run_x pre w (a_logic a) (deref cs g) (fst k) _) as [ys c_out].
      destruct (write_back_val g c_out cs Hg) as [H1 H2].
      destruct (write_back F g c_out cs) as [g' cs']. cbn in H1, H2. subst cs'.
      destruct ys as [ys|]; cbn [fst snd]; [|split; [exact H1|reflexivity]].
      split; [exact H1|]. rewrite fold_yield_frame'. reflexivity.
    Qed.

    Lemma fold_key_frame' raw a w hrs ord ks g st :
      is_val g ->
      snd (snd (fold_left (do_key F v ac rec raw a w hrs ord) ks (g, st))) = snd st.
    Proof.
      revert g st. induction ks as [|k ks IH]; intros g st Hg; cbn [fold_left]; [reflexivity|].
      destruct (do_key_frame' raw a w hrs ord g st k Hg) as [H1 H2].
      destruct (do_key F v ac rec raw a w hrs ord (g, st) k) as [g' st'] eqn:E. cbn in H1, H2.
      rewrite (IH g' st' H1). exact H2.
    Qed.

    Lemma do_group_frame' hrs ord st grp :
      snd (do_group F v ac rec hrs ord st grp) = snd st.
    Proof.
      unfold do_group. destruct grp as [[raw a] ks]. destruct st as [[out|] cs]; [|reflexivity].
      apply (fold_key_frame' raw a). unfold group_dict. rewrite Hsc. exact I.
    Qed.

    Lemma mp_level_frame' p hrs ord cs : snd (mp_level F v ac rec p hrs ord cs) = cs.
    Proof.
      unfold mp_level.
      assert (H : snd (fold_left (do_group F v ac rec hrs ord) (pgroups p) (Some [], cs)) = cs).
      { apply (fold_left_inv (do_group F v ac rec hrs ord) (fun st => snd st = cs)); [|reflexivity].
        intros st g Hst. rewrite do_group_frame'. exact Hst. }
      destruct (fold_left _ _ _) as [[out|] cs']; cbn in *; subst; reflexivity.
    Qed.
  End Level.

  Lemma mp_frame_sel n : forall p hrs ord cs, snd (mp F v ac n p hrs ord cs) = cs.
  Proof.
    induction n as [|n IH]; intros p hrs ord cs; cbn [mp]; [reflexivity|].
    apply mp_level_frame'. exact IH.
  Qed.
End MPFrameSel.

Lemma make_patch_h_frame_either F v ac :
  fr_patch_copy F = true \/ fr_select_copy F = true ->
  forall p hrs ord cs, snd (make_patch_h F v ac p hrs ord cs) = cs.
Proof.
  intros [H|H] p hrs ord cs; unfold make_patch_h; [apply mp_frame|apply mp_frame_sel]; exact H.
Qed.

(* ---------------------------------------------------------------- ACL scratch cells *)
Section AclIrrelevant.
  Variable F : frames.
  Variable rev : string.
  Variable gd : string -> string -> gdict.

  Lemma acl_scan_irrel is_rev row l : forall c1 c2,
    fst (acl_scan F rev gd is_rev row l c1) = fst (acl_scan F rev gd is_rev row l c2).
  Proof.
    induction l as [|[r g] l IH]; intros c1 c2; cbn [acl_scan]; [reflexivity|].
    destruct (pm _ row); [|apply IH].
    cbn [fst]. f_equal. apply IH.
  Qed.

  Lemma acl_match_irrel row rs c1 c2 :
    fst (acl_match F rev gd row rs c1) = fst (acl_match F rev gd row rs c2).
  Proof.
    unfold acl_match. cbn [fst].
    set (lg := map (fun r => (r, false)) (fst rs) ++ map (fun r => (r, true)) (snd rs)).
    rewrite (acl_scan_irrel false row lg c1 c2).
    rewrite (acl_scan_irrel true row lg (snd (acl_scan F rev gd false row lg c1)) (snd (acl_scan F rev gd false row lg c2))).
    reflexivity.
  Qed.

  Lemma smapf_irrel {A B} (f : A -> acells -> option B * acells) l :
    (forall a, In a l -> forall s1 s2, fst (f a s1) = fst (f a s2)) ->
    forall s1 s2, fst (smapf f l s1) = fst (smapf f l s2).
  Proof.
    induction l as [|a l IH]; intros H s1 s2; cbn [smapf]; [reflexivity|].
    cbn [fst]. rewrite (H a (or_introl eq_refl) s1 s2).
    rewrite (IH (fun x Hx => H x (or_intror Hx)) (snd (f a s1)) (snd (f a s2))). reflexivity.
  Qed.

  Lemma apply_acl_n_irrel n : forall rs e c1 c2,
    fst (apply_acl_n F rev gd n rs e c1) = fst (apply_acl_n F rev gd n rs e c2).
  Proof.
    induction n as [|n IH]; intros rs e c1 c2; cbn [apply_acl_n]; [reflexivity|].
    rewrite (acl_match_irrel (fst e) rs c1 c2).
    destruct (fst (acl_match F rev gd (fst e) rs c2)) as [[[cd is_rev] crs]|]; [|reflexivity].
    destruct (is_rev && forallb (fun b => b) cd); [reflexivity|].
    cbn [fst]. rewrite (smapf_irrel (apply_acl_n F rev gd n crs) _ (fun a _ => IH crs a)
                                    (snd (acl_match F rev gd (fst e) rs c1)) (snd (acl_match F rev gd (fst e) rs c2))).
    reflexivity.
  Qed.

  Lemma apply_acl_irrel f rs c1 c2 : fst (apply_acl F rev gd f rs c1) = fst (apply_acl F rev gd f rs c2).
  Proof. unfold apply_acl. apply smapf_irrel. intros a _. apply apply_acl_n_irrel. Qed.

  Lemma apply_acl_diff_n_irrel n : forall rs d c1 c2,
    fst (apply_acl_diff_n F rev gd n rs d c1) = fst (apply_acl_diff_n F rev gd n rs d c2).
  Proof.
    induction n as [|n IH]; intros rs d c1 c2; cbn [apply_acl_diff_n]; [reflexivity|].
    rewrite (acl_match_irrel (d_row d) rs c1 c2).
    destruct (fst (acl_match F rev gd (d_row d) rs c2)) as [[[cd is_rev] crs]|]; [|reflexivity].
    cbn [fst]. rewrite (smapf_irrel (apply_acl_diff_n F rev gd n crs) _ (fun a _ => IH crs a)
                                    (snd (acl_match F rev gd (d_row d) rs c1)) (snd (acl_match F rev gd (d_row d) rs c2))).
    reflexivity.
  Qed.

  Lemma apply_acl_diff_irrel d rs c1 c2 :
    fst (apply_acl_diff F rev gd d rs c1) = fst (apply_acl_diff F rev gd d rs c2).
  Proof. unfold apply_acl_diff. apply smapf_irrel. intros a _. apply apply_acl_diff_n_irrel. Qed.
End AclIrrelevant.

(* ---------------------------------------------------------------- %diff_logic marks *)
Section DiffMarksFrame.
  Variable F : frames.
  Hypothesis Hsc : fr_select_copy F = true.

  Lemma mark_cell_frame hrs d cs : mark_cell F hrs d cs = cs.
  Proof.
    unfold mark_cell. destruct (hfind _ hrs) as [h|]; [|reflexivity].
    destruct (h_dm h); [|reflexivity]. destruct (h_ref h); [|reflexivity].
    rewrite Hsc. rewrite andb_false_r. reflexivity.
  Qed.

  Lemma dmarks_frame n : forall hrs cs d, dmarks F n hrs cs d = cs.
  Proof.
    induction n as [|n IH]; intros hrs cs d; cbn [dmarks]; [reflexivity|].
    rewrite mark_cell_frame.
    generalize (hchildren cs (d_row d) hrs). intro h.
    induction (d_kids d) as [|k ks IHk]; cbn [fold_left]; [reflexivity|].
    rewrite IH. exact IHk.
  Qed.

  Lemma diff_marks_frame d hrs cs : diff_marks F d hrs cs = cs.
  Proof.
    unfold diff_marks. generalize (ddepth d). intro n.
    induction d as [|x d IH]; cbn [fold_left]; [reflexivity|].
    rewrite dmarks_frame. exact IH.
  Qed.
End DiffMarksFrame.

(* ---------------------------------------------------------------- one job *)
Section JobLemmas.
  Variable F : frames.
  Variable gd : string -> string -> gdict.

  Lemma acl_stage_irrel j c1 c2 : fst (acl_stage F gd j c1) = fst (acl_stage F gd j c2).
  Proof.
    unfold acl_stage. destruct (j_acl j) as [[k src]|]; [|reflexivity]. cbn [fst].
    set (A := fst (acompile src)). set (rv := v_reverse (j_vendor j)).
    rewrite (apply_acl_irrel F rv gd (j_old j) A c1 c2).
    rewrite (apply_acl_irrel F rv gd (j_new j) A (snd (apply_acl F rv gd (j_old j) A c1))
                             (snd (apply_acl F rv gd (j_old j) A c2))).
    reflexivity.
  Qed.

  Lemma filter_stage_irrel j d a1 f1 a2 f2 :
    fst (fst (filter_stage F gd j d a1 f1)) = fst (fst (filter_stage F gd j d a2 f2)).
  Proof.
    unfold filter_stage. cbn [fst].
    assert (H1 : fst (match j_acl j with
                      | Some (_, src) => apply_acl_diff F (v_reverse (j_vendor j)) gd d (fst (acompile src)) a1
                      | None => (d, a1) end)
                 = fst (match j_acl j with
                        | Some (_, src) => apply_acl_diff F (v_reverse (j_vendor j)) gd d (fst (acompile src)) a2
                        | None => (d, a2) end)).
    { destruct (j_acl j) as [[k src]|]; [apply apply_acl_diff_irrel|reflexivity]. }
    rewrite H1. destruct (j_facl j) as [[k src]|]; [apply apply_acl_diff_irrel|reflexivity].
  Qed.

  (* C20_match_irrelevant: nothing a job returns, and nothing it leaves in the rule
     dictionaries, depends on the content of the ACL scratch cells it starts with *)
  Lemma run_core_irrel j cs a1 f1 a2 f2 :
    fst (fst (run_core F gd j cs a1 f1)) = fst (fst (run_core F gd j cs a2 f2)).
  Proof.
    unfold run_core. cbn [fst].
    rewrite (acl_stage_irrel j a1 a2).
    rewrite (filter_stage_irrel j _ (snd (acl_stage F gd j a1)) f1 (snd (acl_stage F gd j a2)) f2).
    reflexivity.
  Qed.

  Lemma old_after_ok j : implb (fr_diff_pops_old F) (fr_diff_copy_old F) = true -> old_after F j = j_old j.
  Proof.
    unfold old_after. destruct (fr_diff_pops_old F), (fr_diff_copy_old F); cbn; intro H; try discriminate;
      rewrite ?andb_false_r; reflexivity.
  Qed.
  Lemma new_after_ok j : implb (fr_diff_pops_new F) (fr_diff_copy_new F) = true -> new_after F j = j_new j.
  Proof.
    unfold new_after. destruct (fr_diff_pops_new F), (fr_diff_copy_new F); cbn; intro H; try discriminate;
      rewrite ?andb_false_r; reflexivity.
  Qed.

  Lemma frames_ok_parts :
    frames_ok F = true ->
    implb (fr_diff_pops_old F) (fr_diff_copy_old F) = true /\ implb (fr_diff_pops_new F) (fr_diff_copy_new F) = true /\
    fr_select_copy F = true /\ fr_patch_copy F = true.
  Proof. unfold frames_ok. rewrite !andb_true_iff. tauto. Qed.

  (* the frame of one call of _diff_and_patch *)
  Lemma run_core_frame j cs ac fc :
    frames_ok F = true ->
    let r := run_core F gd j cs ac fc in
    snd (fst (fst r)) = cs /\
    ob_cells_after (fst (fst (fst r))) = cs /\
    ob_old_after (fst (fst (fst r))) = j_old j /\
    ob_new_after (fst (fst (fst r))) = j_new j.
  Proof.
    intros H. destruct (frames_ok_parts H) as (Ho & Hn & Hs & Hp).
    unfold run_core. cbn [fst snd ob_cells_after ob_old_after ob_new_after].
    rewrite (make_patch_h_frame F _ _ Hp). rewrite (diff_marks_frame F Hs).
    rewrite (old_after_ok j Ho), (new_after_ok j Hn). auto.
  Qed.

  (* against %logic writers either attribute copy alone keeps the rule dictionaries; the
     %diff_logic writers are stopped by _select_match's copy only *)
  Lemma run_core_cells_either j cs ac fc :
    fr_select_copy F = true \/ (fr_patch_copy F = true /\ forall d, diff_marks F d (fst (job_compiled j)) cs = cs) ->
    snd (fst (fst (run_core F gd j cs ac fc))) = cs.
  Proof.
    intro H. unfold run_core. cbn [fst snd].
    destruct H as [H|[H Hd]].
    - rewrite (diff_marks_frame F H). apply make_patch_h_frame_either. right. exact H.
    - rewrite Hd. apply make_patch_h_frame_either. left. exact H.
  Qed.
End JobLemmas.

(* ---------------------------------------------------------------- the store *)
Lemma lookup_upsert_same {A} k (x : A) l : lookup k (upsert k x l) = Some x.
Proof.
  induction l as [|[k' y] l IH]; cbn; [rewrite String.eqb_refl; reflexivity|].
  destruct (String.eqb k' k) eqn:E; cbn; rewrite E; [reflexivity|exact IH].
Qed.
Lemma lookup_upsert_other {A} k k' (x : A) l : k' <> k -> lookup k' (upsert k x l) = lookup k' l.
Proof.
  intro Hne. induction l as [|[k0 y] l IH]; cbn.
  - destruct (String.eqb k k') eqn:E; [apply String.eqb_eq in E; congruence|reflexivity].
  - destruct (String.eqb k0 k) eqn:E; cbn.
    + apply String.eqb_eq in E. subst k0.
      destruct (String.eqb k k') eqn:E2; [apply String.eqb_eq in E2; congruence|reflexivity].
    + destruct (String.eqb k0 k'); [reflexivity|exact IH].
Qed.

Section History.
  Variable F : frames.
  Variable gd : string -> string -> gdict.
  Hypothesis HF : frames_ok F = true.

  (* two jobs with the same cache key carry the same rulebook source (the key is the text) *)
  Definition keys_ok (js : list job) : Prop :=
    forall j1 j2, In j1 js -> In j2 js -> j_rb_key j1 = j_rb_key j2 ->
                  snd (job_compiled j1) = snd (job_compiled j2).

  (* every cached rulebook is as compiled *)
  Definition rb_inv (js : list job) (s : store) : Prop :=
    forall j c, In j js -> lookup (j_rb_key j) (s_rb s) = Some c -> c = snd (job_compiled j).

  Lemma rb_inv_empty js : rb_inv js empty_store.
  Proof. intros j c _ H. discriminate H. Qed.

  Lemma job_cells_inv js s j : rb_inv js s -> In j js -> job_cells F s j = snd (job_compiled j).
  Proof.
    intros Hinv Hin. unfold job_cells. destruct (fr_cache_patching F); [|reflexivity].
    destruct (lookup (j_rb_key j) (s_rb s)) as [c|] eqn:E; [|reflexivity].
    exact (Hinv j c Hin E).
  Qed.

  Lemma job_cells_empty j : job_cells F empty_store j = snd (job_compiled j).
  Proof. unfold job_cells. destruct (fr_cache_patching F); reflexivity. Qed.

  (* the observation of a job in a store that satisfies the invariant is the observation in
     the empty store *)
  Lemma run_job_obs js s j :
    rb_inv js s -> In j js -> fst (run_job F gd s j) = fst (run_job F gd empty_store j).
  Proof.
    intros Hinv Hin. unfold run_job. cbn [fst].
    rewrite (job_cells_inv js s j Hinv Hin), job_cells_empty.
    f_equal. apply run_core_irrel.
  Qed.

  Lemma run_job_inv js s j :
    keys_ok js -> rb_inv js s -> In j js -> rb_inv js (snd (run_job F gd s j)).
  Proof.
    intros Hk Hinv Hin j' c Hin' Hl. unfold run_job in Hl. cbn [snd s_rb] in Hl.
    destruct (fr_cache_patching F); [|exact (Hinv j' c Hin' Hl)].
    destruct (run_core_frame F gd j (job_cells F s j) (acl_cells F s (j_acl j)) (acl_cells F s (j_facl j)) HF)
      as (Hcs & _). cbv zeta in Hcs. rewrite Hcs in Hl.
    destruct (string_dec (j_rb_key j') (j_rb_key j)) as [E|NE].
    - rewrite E, lookup_upsert_same in Hl. injection Hl as Hl. subst c.
      rewrite (job_cells_inv js s j Hinv Hin). symmetry. apply Hk; assumption.
    - rewrite (lookup_upsert_other _ _ _ _ NE) in Hl. exact (Hinv j' c Hin' Hl).
  Qed.

  Lemma run_jobs_fresh js0 : keys_ok js0 -> forall js s,
    incl js js0 -> rb_inv js0 s ->
    fst (run_jobs F gd s js) = map (fun j => fst (run_job F gd empty_store j)) js.
  Proof.
    intros Hk. induction js as [|j js IH]; intros s Hincl Hinv; cbn [run_jobs map fst]; [reflexivity|].
    assert (Hin : In j js0) by (apply Hincl; left; reflexivity).
    rewrite (run_job_obs js0 s j Hinv Hin). f_equal.
    apply IH; [intros x Hx; apply Hincl; right; exact Hx|].
    apply run_job_inv; assumption.
  Qed.

  (* C20_history, list form *)
  Lemma history_all js :
    keys_ok js ->
    fst (run_jobs F gd empty_store js) = map (fun j => fst (run_job F gd empty_store j)) js.
  Proof. intro Hk. apply (run_jobs_fresh js Hk); [apply incl_refl|apply rb_inv_empty]. Qed.

  (* pointwise form *)
  Lemma history_nth js i j :
    keys_ok js -> nth_error js i = Some j ->
    nth_error (fst (run_jobs F gd empty_store js)) i = Some (fst (run_job F gd empty_store j)).
  Proof.
    intros Hk Hn. rewrite (history_all js Hk). rewrite nth_error_map, Hn. reflexivity.
  Qed.

  (* the frame of one job on the store: every cached rulebook is left as it was found; the
     rulebook of the job is cached as compiled/found *)
  Lemma run_job_store s j k :
    lookup k (s_rb (snd (run_job F gd s j))) =
    if fr_cache_patching F && String.eqb (j_rb_key j) k then Some (job_cells F s j) else lookup k (s_rb s).
  Proof.
    unfold run_job. cbn [snd s_rb].
    destruct (fr_cache_patching F); cbn [andb]; [|reflexivity].
    destruct (run_core_frame F gd j (job_cells F s j) (acl_cells F s (j_acl j)) (acl_cells F s (j_facl j)) HF)
      as (Hcs & _). cbv zeta in Hcs. rewrite Hcs.
    destruct (String.eqb (j_rb_key j) k) eqn:E.
    - apply String.eqb_eq in E. subst k. apply lookup_upsert_same.
    - apply lookup_upsert_other. intro H. subst k. rewrite String.eqb_refl in E. discriminate.
  Qed.
End History.
