(* C09, --dont-commit end to end on the model: patch built with do_commit = false -> cmd_paths ->
   apply_deploy_rulebook with do_commit = false.  Every commit-class command of the stream is a row
   the diff offers to a rule that is not %force_commit. *)
From Coq Require Import List String Ascii Bool Arith ZArith NArith Lia.
From Annet Require Import Base.Str Base.Tree Model.Pattern Model.Rulebook Model.Diff Model.Order
     Model.Patch Model.Blocks Model.Pipeline Model.PatchDC Gen.Src_apply Model.Deploy
     Spec.C09Blocks Spec.P_C09 Spec.P_C09DC
     Proofs.BlocksProofs Proofs.DeployProofs Proofs.DeployGroups Proofs.PatchDCProofs.
Import ListNotations.
Open Scope string_scope.
Open Scope list_scope.

(* the rows a formatter family may add to a patch: its block-exit statements *)
Definition exit_words (f : family) : list string :=
  match f with
  | FBlockExit ex => [ex]
  | FHuawei => ["end-filter"; "end-list"; "endif"; "quit"]
  | FCisco => ["exit-address-family"; "exit"]
  | FAsr => ["end-set"; "endif"; "end-policy"; "exit"]
  | FCommon | FJuniper _ _ | FRos => []
  end.

Definition exits_not_commit (f : family) : bool :=
  forallb (fun x => negb (is_class WCommit x)) (exit_words f).

Lemma exit_stmt_words f parent row next x :
  In (Row x) (exit_stmt f parent row next) -> In x (exit_words f).
Proof.
  unfold exit_stmt, wrap.
  destruct f; cbn [exit_words];
    repeat match goal with
           | |- context [if ?b then _ else _] => destruct b
           end;
    cbn [In]; intros H;
      repeat (destruct H as [H|H]); try discriminate; try contradiction;
        injection H as <-; auto 10.
Qed.

Lemma blocks_rows : forall t f parent x,
  In (Row x) (blocks f parent t) -> In x (pt_rows t) \/ In x (exit_words f).
Proof.
  induction t as [items IH] using ptree_ind2. intros f parent x.
  rewrite blocks_unfold, pt_rows_unfold.
  induction IH as [|[[row child] sk] l Hit Hl IHl]; [intros []|].
  cbn [blocks_items flat_map]. unfold item_rows at 1. cbn [fst snd].
  intros [H|H].
  - injection H as <-. left. left. reflexivity.
  - apply in_app_or in H. destruct H as [H|H].
    + destruct child as [ct|]; [|destruct H].
      destruct H as [H|H]; [discriminate|].
      apply in_app_or in H. destruct H as [H|H].
      * unfold kidP in Hit. cbn [fst snd] in Hit. destruct (Hit f row x H) as [Hr|He]; [|right; exact He].
        left. right. apply in_or_app. left. exact Hr.
      * destruct H as [H|H]; [discriminate|]. right. exact (exit_stmt_words _ _ _ _ _ H).
    + destruct (IHl H) as [Hr|He]; [|right; exact He].
      left. right. apply in_or_app. right. exact Hr.
Qed.

Lemma path_stack_rows : forall s path acc p,
  In p (path_stack s path acc) -> In p acc \/ exists x, In (Row x) s /\ last p "" = x.
Proof.
  induction s as [|e s IH]; intros path acc p H; cbn [path_stack] in H; [left; exact H|].
  destruct e as [x| |].
  - destruct (IH _ _ _ H) as [Hacc|(y & Hy & El)].
    + destruct (existsb _ acc); [left; exact Hacc|].
      apply in_app_or in Hacc. destruct Hacc as [Hacc|[E|[]]]; [left; exact Hacc|].
      right. exists x. split; [left; reflexivity|]. subst p. apply last_snoc.
    + right. exists y. split; [right; exact Hy|exact El].
  - destruct (IH _ _ _ H) as [Hacc|(y & Hy & El)]; [left; exact Hacc|].
    right. exists y. split; [right; exact Hy|exact El].
  - destruct (IH _ _ _ H) as [Hacc|(y & Hy & El)]; [left; exact Hacc|].
    right. exists y. split; [right; exact Hy|exact El].
Qed.

(* the command of every path handed to the deployer is a row of the patch or a block-exit statement *)
Theorem cmd_paths_rows f t p :
  block_family f = true -> In p (cmd_paths f t) ->
  In (path_cmd p) (pt_rows t) \/ In (path_cmd p) (exit_words f).
Proof.
  intros Hf Hp.
  assert (Hs : In p (path_stack (blocks f "" t) [] [])).
  { destruct f; try discriminate; exact Hp. }
  destruct (path_stack_rows _ _ _ _ Hs) as [[]|(x & Hx & El)].
  unfold path_cmd. rewrite El. apply (blocks_rows t f "" x Hx).
Qed.

(* ------------------------------------------------------------------------------------------ *)
Lemma enter_not_commit c : is_class WEnter c = true -> is_class WCommit c = false.
Proof. unfold is_class. destruct (classify c) as [[| | |]|]; intros H; try discriminate; reflexivity. Qed.

Lemma std_wrappers_no_commit e id c :
  e_commit e = false -> In c (fst (std_wrappers e id) ++ snd (std_wrappers e id)) -> is_class WCommit c = false.
Proof.
  intros Hc Hin. destruct id as [|id]; cbn [std_wrappers] in Hin.
  - destruct (common_apply e) as [w|] eqn:E; [|destruct Hin].
    exact (no_commit_without_do_commit e w c E Hc Hin).
  - pose proof (ap_env_wrapper_ok e) as H. rewrite Hc in H. unfold wrapper_ok_weak in H.
    apply andb_true_iff in H. destruct H as [H H3]. apply andb_true_iff in H. destruct H as [H1 H2].
    cbn [orb] in H3. apply negb_true_iff in H3.
    apply in_app_or in Hin. destruct Hin as [Hin|Hin].
    + rewrite forallb_forall in H1. apply enter_not_commit. exact (H1 c Hin).
    + destruct (is_class WCommit c) eqn:Ec; [|reflexivity].
      assert (existsb (is_class WCommit) (snd (ap_env_apply e)) = true) as Hex.
      { apply existsb_exists. exists c. split; assumption. }
      congruence.
Qed.

Lemma wraps_texts hit rules l cs c : wraps hit rules l cs -> In c cs -> In (c_cmd c) l.
Proof.
  intros H. induction H as [|t c0 l cs Hc _ IH]; [intros []|].
  intros [E|Hin]; [|right; exact (IH Hin)].
  subst c0. apply wrap_cmd_shape in Hc. left. symmetry. exact (proj1 Hc).
Qed.

Section Stream.
  Variable hit : drule -> string -> ctx -> bool.
  Variable e : env.
  Variable rules : list drule.

  (* apply_deploy_rulebook with do_commit = false: a commit-class command of the stream is the command of
     one of the paths (the session wrappers of both shipped apply logics hold none) *)
  Theorem deploy_no_commit_beyond_paths paths cmds c :
    e_commit e = false ->
    deploy hit (std_wrappers e) rules paths = Some cmds ->
    In c cmds -> is_class WCommit (c_cmd c) = true ->
    exists pc, In pc paths /\ c_cmd c = path_cmd (fst pc).
  Proof.
    intros Hdc Hd Hc Hcls.
    destruct (deploy_body_general hit (std_wrappers e) rules paths cmds Hd) as (segs & E & Hok & _ & _ & Hbody).
    subst cmds. apply in_flat_map in Hc. destruct Hc as (s & Hs & Hc).
    pose proof (proj1 (Forall_forall _ _) Hok s Hs) as (Hne & Hm & Hb & Ha).
    assert (Hw : exists id, sg_w s = std_wrappers e id).
    { destruct (sg_m s) as [|x m] eqn:Em; [contradiction|].
      inversion Hm as [|? ? [Hx _] _]; subst. eexists. symmetry. exact Hx. }
    destruct Hw as [id Hw].
    unfold seg_cmds in Hc. apply in_app_or in Hc. destruct Hc as [Hc|Hc]; [|apply in_app_or in Hc; destruct Hc as [Hc|Hc]].
    - exfalso. pose proof (wraps_texts _ _ _ _ _ Hb Hc) as Hin. rewrite Hw in Hin.
      rewrite (std_wrappers_no_commit e id (c_cmd c) Hdc) in Hcls; [discriminate|].
      apply in_or_app. left. exact Hin.
    - assert (Hin : In (c_level c, c_cmd c) (map (fun pc : list string * ctx => lv (fst pc)) paths)).
      { rewrite <- Hbody. apply in_map_iff. exists c. split; [reflexivity|].
        unfold strip_wrappers. apply in_flat_map. exists s. split; assumption. }
      apply in_map_iff in Hin. destruct Hin as (pc & Epc & Hpc). exists pc. split; [exact Hpc|].
      unfold lv in Epc. injection Epc as _ E2. unfold path_cmd. symmetry. exact E2.
    - exfalso. pose proof (wraps_texts _ _ _ _ _ Ha Hc) as Hin. rewrite Hw in Hin.
      rewrite (std_wrappers_no_commit e id (c_cmd c) Hdc) in Hcls; [discriminate|].
      apply in_or_app. right. exact Hin.
  Qed.
End Stream.

(* end to end: diff -> make_patch(do_commit=False) -> cmd_paths -> apply_deploy_rulebook(do_commit=False) *)
Theorem dc_stream_rows :
  forall rmatch rsrc rrev block_exit rreverse (p : pre) ord t
         (f : family) (paths : list (list string * ctx)) hit e rules cmds c,
    make_patch_dc rmatch rsrc rrev block_exit rreverse false p ord = POk t ->
    block_family f = true -> exits_not_commit f = true ->
    map fst paths = cmd_paths f t ->
    e_commit e = false ->
    deploy hit (std_wrappers e) rules paths = Some cmds ->
    In c cmds -> is_class WCommit (c_cmd c) = true ->
    In (c_cmd c) (pre_rows rreverse p).
Proof.
  intros rmatch rsrc rrev block_exit rreverse p ord t f paths hit e rules cmds c Hp Hf Hex Hpaths Hdc Hd Hc Hcls.
  destruct (deploy_no_commit_beyond_paths hit e rules paths cmds c Hdc Hd Hc Hcls) as (pc & Hpc & Ecmd).
  assert (Hin : In (fst pc) (cmd_paths f t)).
  { rewrite <- Hpaths. apply in_map. exact Hpc. }
  destruct (cmd_paths_rows f t (fst pc) Hf Hin) as [Hrow|Hexit].
  - rewrite Ecmd. exact (dc_false_rows rmatch rsrc rrev block_exit rreverse p ord t Hp _ Hrow).
  - exfalso. unfold exits_not_commit in Hex. rewrite forallb_forall in Hex.
    specialize (Hex _ Hexit). rewrite <- Ecmd, Hcls in Hex. discriminate.
Qed.
