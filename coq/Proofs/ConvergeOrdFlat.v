(* C01 for %ordered rules, layer 2: a level whose rows are all leaves governed by one %ordered rule
   (ordered_diff + logic `ordered`), for sequences of any length.
   B. Device.exec on such a level is the list machine of ConvergeOrdSeq.
   C. make_diff of two such levels, explicitly (common prefix UNCHANGED, then ADDED / MOVED in new's
      order, REMOVED rows interleaved).
   D. make_pre / make_patch of that diff: one patch item per direct command and per removal, sorted.
   E. the sorted patch, executed, turns old into new as a sequence. *)
From Coq Require Import List String Bool Arith ZArith Lia Permutation.
From Annet Require Import Base.Str Base.Tree Model.Pattern Model.Rulebook Model.Diff Model.Order Model.Patch
     Model.Blocks Model.Pipeline Model.Device Spec.P_C03 Spec.P_C01 Spec.P_C01o
     Proofs.DiffBasics Proofs.DiffProofsLib Proofs.DiffProofsAnnot Proofs.SortProofs Proofs.OrderProofs Proofs.ConvergeDevice
     Proofs.ConvergeRun Proofs.ConvergeBlocks Proofs.ConvergePre Proofs.ConvergeDiff Proofs.ConvergeOrdSeq.
Import ListNotations.
Open Scope string_scope.
Open Scope list_scope.

Definition leaves (l : list string) : forest := map (fun r => (r, T [])) l.

Lemma leaves_app a b : leaves (a ++ b) = leaves a ++ leaves b.
Proof. apply map_app. Qed.
Lemma keys_leaves l : keys (leaves l) = l.
Proof. unfold keys, leaves. rewrite map_map. cbn. apply map_id. Qed.

Section Flat.
  Variable rmatch : string -> string -> option (list string).
  Variable rsrc : string -> string.
  Variable rrev : string -> string.
  Variable block_exit : string.
  Variable rreverse : string -> list string -> string.
  Variable is_exit : string -> bool.
  Variable rs : rset.

  Definition no_attrs := Attrs "" LDefault DDefault false false.
  Definition mi_of (r : string) : minfo :=
    match match_row rmatch r rs with Some (s, _) => s | None => MI "" [] no_attrs end.
  Definition crs_of (r : string) : rset :=
    match match_row rmatch r rs with Some (_, c) => c | None => ([], []) end.
  Definition rev (r : string) : string := reverse_of rreverse (mi_of r).

  (* the universe of rows of the level *)
  Variable U : list string.
  Record fdom : Prop := {
    fd_known : forall r, In r U -> match_row rmatch r rs = Some (mi_of r, crs_of r);
    fd_ord : forall r, In r U -> is_ordered (mi_of r) = true /\ a_logic (mi_attrs (mi_of r)) = LOrdered /\
                                 a_force_commit (mi_attrs (mi_of r)) = false;
    fd_noexit : forall r, In r U -> is_exit r = false;
    fd_rev : forall r, In r U -> match_row rmatch (rev r) rs = None /\ is_exit (rev r) = false;
    fd_one : forall r r', In r U -> In r' U -> mi_raw (mi_of r) = mi_raw (mi_of r') /\ mi_attrs (mi_of r) = mi_attrs (mi_of r');
    fd_revinj : forall r r', In r U -> In r' U -> rev r = rev r' -> r = r';
    fd_key : forall r r', In r U -> In r' U -> mi_key (mi_of r) = mi_key (mi_of r') -> r = r'
  }.
  Hypothesis HD : fdom.

  (* ------------------------------------------------------------------ B. the device *)
  Lemma slot_of_U r : In r U -> slot_of rmatch rs r = Some (mi_of r).
  Proof. intro H. unfold slot_of. rewrite (fd_known HD r H). reflexivity. Qed.

  Lemma in_slot_leaf r x t : In r U -> In x U -> in_slot rmatch rs (mi_of r) (x, t) = String.eqb x r.
  Proof.
    intros Hr Hx. unfold in_slot. cbn [fst]. rewrite (slot_of_U x Hx).
    destruct (String.eqb_spec x r) as [E|E].
    - subst. apply same_slot_refl.
    - unfold same_slot. destruct (lse_spec (mi_key (mi_of x)) (mi_key (mi_of r))) as [Ek|Ek].
      + exfalso. apply E. apply (fd_key HD); assumption.
      + apply andb_false_r.
  Qed.

  Lemma find_leaf r l : In r U -> incl l U ->
    find (in_slot rmatch rs (mi_of r)) (leaves l) = if memb r l then Some (r, T []) else None.
  Proof.
    intros Hr. induction l as [|x l IH]; intro Hl; [reflexivity|].
    cbn [leaves map find]. rewrite in_slot_leaf by (auto; apply Hl; now left).
    unfold memb. cbn [existsb]. rewrite (String.eqb_sym r x).
    destruct (String.eqb_spec x r) as [E|E]; [subst; reflexivity|]. cbn [orb].
    apply IH. intros y Hy. apply Hl. now right.
  Qed.

  Lemma replace_leaf r l : In r U -> incl l U ->
    replace_slot rmatch rs (mi_of r) (r, T []) (leaves l) = leaves l.
  Proof.
    intros Hr. induction l as [|x l IH]; intro Hl; [reflexivity|].
    cbn [leaves map replace_slot]. rewrite in_slot_leaf by (auto; apply Hl; now left).
    destruct (String.eqb_spec x r) as [E|E]; [subst; reflexivity|].
    f_equal. apply IH. intros y Hy. apply Hl. now right.
  Qed.

  Lemma exec_direct_leaf r l : In r U -> incl l U ->
    exec_cmd rmatch rreverse is_exit rs r (leaves l) = leaves (lstep l (true, r)).
  Proof.
    intros Hr Hl. unfold exec_cmd. rewrite (fd_noexit HD r Hr), (fd_known HD r Hr).
    unfold exec_direct. rewrite (find_leaf r l Hr Hl). unfold lstep. cbn [fst snd].
    destruct (memb r l) eqn:Em.
    - cbn [fst]. rewrite String.eqb_refl. cbn [snd kids]. unfold enter. cbn [filter].
      apply replace_leaf; assumption.
    - rewrite leaves_app. reflexivity.
  Qed.

  Lemma exec_undo_leaf r l : In r U -> incl l U ->
    exec_cmd rmatch rreverse is_exit rs (rev r) (leaves l) = leaves (lstep l (false, r)).
  Proof.
    intros Hr Hl. unfold exec_cmd. destruct (fd_rev HD r Hr) as [Hm He]. rewrite He, Hm.
    unfold lstep, drop. cbn [fst snd]. induction l as [|x l IH]; [reflexivity|].
    assert (Hx : In x U) by (apply Hl; now left).
    cbn [leaves map filter]. unfold reverse_hits at 1. cbn [fst]. rewrite (slot_of_U x Hx).
    fold (rev x). fold (leaves l).
    assert (E : String.eqb (rev x) (rev r) = String.eqb x r).
    { destruct (String.eqb_spec x r) as [E|E]; [subst; apply String.eqb_refl|].
      apply String.eqb_neq. intro Er. apply E. apply (fd_revinj HD); assumption. }
    rewrite E. destruct (String.eqb x r); cbn [negb].
    - apply IH. intros y Hy. apply Hl. now right.
    - cbn [map]. f_equal. apply IH. intros y Hy. apply Hl. now right.
  Qed.

  (* a patch item and the command of the list machine it stands for *)
  Definition tag_ok (it : item) (c : cmd) : Prop :=
    In (snd c) U /\
    if fst c then irow it = snd c /\ (ichild it = None \/ ichild it = Some (PT []))
    else irow it = rev (snd c) /\ ichild it = None.

  Lemma run_item_leaf it c l : tag_ok it c -> incl l U ->
    run_item rmatch rreverse is_exit rs it (leaves l) = leaves (lstep l c).
  Proof.
    intros [Hu Ht] Hl. destruct c as [[|] r]; cbn [fst snd] in *.
    - destruct Ht as [Er Hc]. unfold run_item. rewrite Er. destruct Hc as [Hc|Hc]; rewrite Hc.
      + apply exec_direct_leaf; assumption.
      + rewrite (fd_known HD r Hu). rewrite exec_direct_leaf by assumption.
        rewrite (nav_ext r (run_pt rmatch rreverse is_exit (PT []) (crs_of r)) (fun x => x)) by reflexivity.
        apply nav_id.
    - destruct Ht as [Er Hc]. unfold run_item. rewrite Er, Hc. apply exec_undo_leaf; assumption.
  Qed.

  Lemma lstep_incl l c : incl l U -> In (snd c) U -> incl (lstep l c) U.
  Proof.
    intros Hl Hc. unfold lstep. destruct (fst c).
    - destruct (memb (snd c) l); [exact Hl|]. intros y Hy. apply in_app_or in Hy as [Hy|[Hy|[]]]; [auto | subst; exact Hc].
    - intros y Hy. apply filter_In in Hy as [Hy _]. auto.
  Qed.

  Lemma run_items_leaf : forall its cs l, Forall2 tag_ok its cs -> incl l U ->
    fold_left (fun a i => run_item rmatch rreverse is_exit rs i a) its (leaves l) = leaves (fold_left lstep cs l).
  Proof.
    induction its as [|it its IH]; intros cs l H Hl; inversion H as [|x c y cs' Hic Hrest]; subst; [reflexivity|].
    cbn [fold_left]. rewrite (run_item_leaf it c l Hic Hl). apply IH; [exact Hrest|].
    apply lstep_incl; [exact Hl | exact (proj1 Hic)].
  Qed.

  (* ------------------------------------------------------------------ C. the diff *)
  Definition ann (l : list string) : aforest := map (fun r => (r, mi_of r, AT [])) l.
  Definition nd (o : op) (r : string) : dnode := DN o r (mi_of r) [].

  Lemma annot_leaves l : incl l U -> annot_f rmatch rs (leaves l) = ann l.
  Proof.
    induction l as [|r l IH]; intro Hl; [reflexivity|].
    cbn [leaves map]. rewrite annot_f_cons. rewrite (fd_known HD r) by (apply Hl; now left).
    cbn [ann map]. f_equal. apply IH. intros y Hy; apply Hl; now right.
  Qed.

  Lemma arows_ann l : arows (ann l) = l.
  Proof. unfold arows, ann. rewrite map_map. cbn. apply map_id. Qed.

  Fixpoint index_of (r : string) (l : list string) : option nat :=
    match l with [] => None | x :: l' => if String.eqb x r then Some 0 else option_map S (index_of r l') end.

  Lemma afind_ann r l : forall i, afind r (ann l) i = option_map (fun j => (i + j, AT [])) (index_of r l).
  Proof.
    induction l as [|x l IH]; intro i; [reflexivity|]. cbn [ann map afind index_of]. fold (ann l).
    destruct (String.eqb x r); [cbn; rewrite Nat.add_0_r; reflexivity|].
    rewrite IH. destruct (index_of r l); [|reflexivity]. cbn. rewrite Nat.add_succ_r. reflexivity.
  Qed.

  Lemma index_of_memb r l : memb r l = match index_of r l with Some _ => true | None => false end.
  Proof.
    induction l as [|x l IH]; [reflexivity|]. unfold memb in *. cbn [existsb index_of].
    rewrite (String.eqb_sym r x). destruct (String.eqb x r); [reflexivity|]. cbn [orb]. rewrite IH.
    destruct (index_of r l); reflexivity.
  Qed.

  Lemma index_of_nth r l : forall j, index_of r l = Some j -> nth_error l j = Some r.
  Proof.
    induction l as [|x l IH]; intros j H; [discriminate|]. cbn [index_of] in H.
    destruct (String.eqb_spec x r) as [E|E].
    - injection H as H. subst. reflexivity.
    - destruct (index_of r l) as [k|]; [|discriminate]. injection H as H. subst. cbn. apply IH. reflexivity.
  Qed.

  Lemma index_of_head pre r suf : ~ In r pre -> index_of r (pre ++ r :: suf) = Some (List.length pre).
  Proof.
    induction pre as [|x pre IH]; intro H; cbn [app index_of List.length].
    - rewrite String.eqb_refl. reflexivity.
    - destruct (String.eqb_spec x r) as [E|E]; [exfalso; apply H; now left|].
      rewrite IH; [reflexivity|]. intro Hin. apply H. now right.
  Qed.

  Definition am (o : list string) (r : string) : op := if memb r o then Moved else Added.
  Fixpoint cpl (a b : list string) : nat :=
    match a, b with x :: a', y :: b' => if String.eqb x y then S (cpl a' b') else 0 | _, _ => 0 end.

  Lemma dt_nil o b : diff_t (AT []) [] o b = [].
  Proof. reflexivity. Qed.
  Lemma cks_ann_cons r l : cks (ann (r :: l)) = (r, mi_of r, diff_t (AT [])) :: cks (ann l).
  Proof. reflexivity. Qed.

  Lemma scan_dis o n' : forall i,
    scan_new (ann o) Affected false false (cks (ann n')) i true = map (fun r => nd (am o r) r) n'.
  Proof.
    induction n' as [|r n' IH]; intro i; [reflexivity|].
    rewrite cks_ann_cons. cbn [scan_new map]. rewrite afind_ann. unfold am at 1. rewrite index_of_memb.
    destruct (index_of r o) as [j|]; cbn [option_map orb akids]; rewrite dt_nil, IH; reflexivity.
  Qed.

  Lemma scan_flat : forall n' pre osuf, NoDup (pre ++ osuf) ->
    scan_new (ann (pre ++ osuf)) Affected false false (cks (ann n')) (List.length pre) false =
    map (nd Affected) (firstn (cpl n' osuf) n') ++
    map (fun r => nd (am (pre ++ osuf) r) r) (skipn (cpl n' osuf) n').
  Proof.
    induction n' as [|r n' IH]; intros pre osuf Hnd; [reflexivity|].
    rewrite cks_ann_cons. cbn [scan_new]. rewrite afind_ann.
    assert (Hgen : forall j, index_of r (pre ++ osuf) = Some j -> j <> List.length pre ->
              cpl (r :: n') osuf = 0 ->
              (match option_map (fun j => (0 + j, AT [])) (index_of r (pre ++ osuf)) with
               | Some (j, oldsub) =>
                 if false || negb (Nat.eqb (List.length pre) j)
                 then DN Moved r (mi_of r) (diff_t (AT []) (akids oldsub) Moved false)
                         :: scan_new (ann (pre ++ osuf)) Affected false false (cks (ann n')) (S (List.length pre)) true
                 else DN Affected r (mi_of r) (diff_t (AT []) (akids oldsub) Affected false)
                         :: scan_new (ann (pre ++ osuf)) Affected false false (cks (ann n')) (S (List.length pre)) false
               | None => DN Added r (mi_of r) (diff_t (AT []) [] Added false)
                         :: scan_new (ann (pre ++ osuf)) Affected false false (cks (ann n')) (S (List.length pre)) true
               end) =
              map (nd Affected) (firstn (cpl (r :: n') osuf) (r :: n')) ++
              map (fun r => nd (am (pre ++ osuf) r) r) (skipn (cpl (r :: n') osuf) (r :: n'))).
    { intros j Ej Hj Hc. rewrite Ej, Hc. cbn [option_map plus orb firstn skipn map app akids].
      assert (E : Nat.eqb (List.length pre) j = false) by (apply Nat.eqb_neq; congruence).
      rewrite E. cbn [negb]. rewrite dt_nil, scan_dis. unfold am at 2. rewrite index_of_memb, Ej. reflexivity. }
    assert (Hnone : index_of r (pre ++ osuf) = None -> cpl (r :: n') osuf = 0 ->
              DN Added r (mi_of r) (diff_t (AT []) [] Added false)
                 :: scan_new (ann (pre ++ osuf)) Affected false false (cks (ann n')) (S (List.length pre)) true =
              map (nd Affected) (firstn (cpl (r :: n') osuf) (r :: n')) ++
              map (fun r => nd (am (pre ++ osuf) r) r) (skipn (cpl (r :: n') osuf) (r :: n'))).
    { intros En Hc. rewrite Hc. cbn [firstn skipn map app]. rewrite dt_nil, scan_dis.
      unfold am at 2. rewrite index_of_memb, En. reflexivity. }
    destruct osuf as [|y osuf'].
    - assert (Hc : cpl (r :: n') [] = 0) by reflexivity.
      assert (Hcase : (exists j, index_of r (pre ++ []) = Some j) \/ index_of r (pre ++ []) = None)
        by (destruct (index_of r (pre ++ [])); eauto).
      destruct Hcase as [[j Ej]|Ej].
      + apply (Hgen j Ej); [|exact Hc]. apply index_of_nth in Ej.
        assert (Hlt : j < List.length (pre ++ [])) by (apply nth_error_Some; congruence).
        rewrite app_nil_r in Hlt. lia.
      + rewrite Ej. cbn [option_map]. apply Hnone; [exact Ej | exact Hc].
    - destruct (String.eqb_spec r y) as [E|E].
      + subst y.
        assert (Hr : ~ In r pre).
        { intro Hin. apply (NoDup_app_disj pre (r :: osuf') r Hnd Hin). now left. }
        rewrite (index_of_head pre r osuf' Hr). cbn [option_map plus orb akids].
        rewrite Nat.eqb_refl. cbn [negb cpl]. rewrite String.eqb_refl. cbn [firstn skipn map app]. rewrite dt_nil.
        fold (nd Affected r). f_equal.
        specialize (IH (pre ++ [r]) osuf'). rewrite <- app_assoc in IH. cbn [app] in IH.
        rewrite app_length in IH. cbn [List.length] in IH. rewrite Nat.add_1_r in IH. apply IH. exact Hnd.
      + assert (Hc : cpl (r :: n') (y :: osuf') = 0).
        { cbn [cpl]. apply String.eqb_neq in E. rewrite E. reflexivity. }
        assert (Hcase : (exists j, index_of r (pre ++ y :: osuf') = Some j) \/ index_of r (pre ++ y :: osuf') = None)
          by (destruct (index_of r (pre ++ y :: osuf')); eauto).
        destruct Hcase as [[j Ej]|Ej].
        * apply (Hgen j Ej); [|exact Hc]. intro Hj. subst j. apply index_of_nth in Ej.
          rewrite nth_error_app2 in Ej by lia. rewrite Nat.sub_diag in Ej. cbn in Ej. congruence.
        * rewrite Ej. cbn [option_map]. apply Hnone; [exact Ej | exact Hc].
  Qed.

  Lemma removed_flat o nr : forall i,
    map snd (removed_rows (ann o) nr i) = map (nd Removed) (filter (fun r => negb (memb r nr)) o).
  Proof.
    induction o as [|r o IH]; intro i; [reflexivity|]. cbn [ann map removed_rows filter]. fold (ann o).
    unfold memb at 1. destruct (existsb (String.eqb r) nr); cbn [negb]; [apply IH|].
    cbn [map snd]. f_equal. apply IH.
  Qed.

  Lemma removed_rows_op o nr : forall i, Forall (fun x : nat * dnode => d_op (snd x) = Removed) (removed_rows (ann o) nr i).
  Proof.
    induction o as [|r o IH]; intro i; [constructor|]. cbn [ann map removed_rows]. fold (ann o).
    destruct (existsb (String.eqb r) nr); [apply IH|]. constructor; [reflexivity | apply IH].
  Qed.

  Definition notrem (d : dnode) : bool := negb (op_eqb (d_op d) Removed).

  Lemma interleave_filter : forall news rem i,
    Forall (fun d => notrem d = true) news -> Forall (fun x : nat * dnode => d_op (snd x) = Removed) rem ->
    filter notrem (interleave news rem i) = news.
  Proof.
    induction news as [|d ns IH]; intros rem i Hn Hr.
    - cbn [interleave]. apply filter_all_false. intros x Hx. apply in_map_iff in Hx as (y & E & Hy). subst.
      rewrite Forall_forall in Hr. unfold notrem. rewrite (Hr y Hy). reflexivity.
    - inversion Hn as [|d' ns' Hd Hns]; subst. cbn [interleave]. destruct rem as [|[j r] rem'].
      + cbn [filter]. rewrite Hd. f_equal. apply IH; [exact Hns | constructor].
      + inversion Hr as [|x rem'' Hx Hrem]; subst. cbn [snd] in Hx.
        destruct (Nat.eqb j i).
        * cbn [filter]. rewrite Hd. unfold notrem at 1. rewrite Hx. cbn. f_equal. apply IH; assumption.
        * cbn [filter]. rewrite Hd. f_equal. apply IH; assumption.
  Qed.

  Lemma interleave_In x : forall news rem i, In x (interleave news rem i) <-> In x news \/ In x (map snd rem).
  Proof.
    induction news as [|d ns IH]; intros rem i; cbn [interleave].
    - cbn [In]. tauto.
    - destruct rem as [|[j r] rem'].
      + cbn [In map]. rewrite IH. cbn [map In]. tauto.
      + destruct (Nat.eqb j i); cbn [In map snd]; rewrite IH; cbn [map In snd]; tauto.
  Qed.

  (* the diff of two flat levels, before marking *)
  Definition news_of (o n : list string) : list dnode :=
    map (nd Affected) (firstn (cpl n o) n) ++ map (fun r => nd (am o r) r) (skipn (cpl n o) n).
  Definition D0 (o n : list string) : list dnode := interleave (news_of o n) (removed_rows (ann o) n 0) 0.

  Lemma raw_diff_flat o n : incl o U -> incl n U -> NoDup o ->
    raw_diff rmatch rs (leaves o) (leaves n) = D0 o n.
  Proof.
    intros Ho Hn Hnd. unfold raw_diff.
    change (annot rmatch rs (T (leaves n))) with (AT (annot_f rmatch rs (leaves n))).
    rewrite diff_t_unfold, !annot_leaves by assumption. rewrite diff_level_unfold.
    destruct (o ++ n) as [|z zs] eqn:Eon.
    - apply app_eq_nil in Eon as [E1 E2]. subst. reflexivity.
    - assert (Hall : forall k, In k (ann o) \/ In k (ann n) -> inL DOrdered k = true).
      { intros k Hk. assert (Hk' : exists r, In r U /\ k = (r, mi_of r, AT [])).
        { destruct Hk as [Hk|Hk]; apply in_map_iff in Hk as (r & E & Hr); exists r; split; auto. }
        destruct Hk' as (r & Hr & E). subst k. unfold inL, ami, mi_dlogic. cbn [fst snd].
        exact (proj1 (fd_ord HD r Hr)). }
      rewrite (uniq_dl_const0 DOrdered).
      + cbn [flat_map]. rewrite app_nil_r. rewrite !filter_all by (intros k Hk; apply Hall; auto).
        cbn [run_dlogic]. unfold base_diff. rewrite cks_rows, arows_ann.
        unfold D0, news_of. f_equal. apply (scan_flat n [] o). exact Hnd.
      + intros x Hx. apply in_app_or in Hx. destruct Hx as [Hx|Hx]; apply in_map_iff in Hx as (k & E & Hk); subst x;
          [specialize (Hall k (or_introl Hk)) | specialize (Hall k (or_intror Hk))];
          unfold inL in Hall; destruct (mi_dlogic (ami k)); try discriminate; reflexivity.
      + rewrite <- map_app. unfold ann. rewrite <- map_app. rewrite Eon. discriminate.
  Qed.

  (* ------------------------------------------------------------------ D. make_pre and make_patch *)
  Lemma NoDup_app_intro {A} (a b : list A) : NoDup a -> NoDup b -> (forall x, In x a -> In x b -> False) -> NoDup (a ++ b).
  Proof.
    induction a as [|x a IH]; intros Ha Hb Hd; [exact Hb|]. inversion Ha as [|x' a' Hx Ha']; subst. cbn. constructor.
    - intro Hin. apply in_app_or in Hin as [Hin|Hin]; [contradiction|]. apply (Hd x); [now left | exact Hin].
    - apply IH; auto. intros y Hy. apply Hd. now right.
  Qed.
  Lemma interleave_perm : forall news rem i, Permutation (interleave news rem i) (news ++ map snd rem).
  Proof.
    induction news as [|d ns IH]; intros rem i; cbn [interleave app]; [apply Permutation_refl|].
    destruct rem as [|[j r] rem'].
    - constructor. apply IH.
    - destruct (Nat.eqb j i).
      + constructor. cbn [map snd]. eapply Permutation_trans; [|apply Permutation_middle]. constructor. apply IH.
      + constructor. apply IH.
  Qed.

  Lemma firstn_skipn_map {A B} (g : A -> B) k (l : list A) : map g (firstn k l) ++ map g (skipn k l) = map g l.
  Proof. rewrite <- map_app, firstn_skipn. reflexivity. Qed.

  Lemma news_rows o n : map d_row (news_of o n) = n.
  Proof.
    unfold news_of. rewrite map_app, !map_map. cbn [nd d_row].
    rewrite (firstn_skipn_map (fun x => x)). apply map_id.
  Qed.

  Definition isnd (d : dnode) : Prop := d = nd (d_op d) (d_row d) /\ In (d_row d) U.

  Lemma D0_perm o n : Permutation (D0 o n) (news_of o n ++ map (nd Removed) (filter (fun r => negb (memb r n)) o)).
  Proof. unfold D0. rewrite <- (removed_flat o n 0). apply interleave_perm. Qed.

  Lemma D0_isnd o n : incl o U -> incl n U -> Forall isnd (D0 o n).
  Proof.
    intros Ho Hn. apply Forall_forall. intros d Hd. apply (Permutation_in _ (D0_perm o n)) in Hd.
    apply in_app_or in Hd as [Hd|Hd].
    - unfold news_of in Hd. apply in_app_or in Hd as [Hd|Hd]; apply in_map_iff in Hd as (r & E & Hr); subst d;
        (split; [reflexivity|]); cbn [nd d_row]; apply Hn.
      + rewrite <- (firstn_skipn (cpl n o) n). apply in_or_app. left. exact Hr.
      + rewrite <- (firstn_skipn (cpl n o) n). apply in_or_app. right. exact Hr.
    - apply in_map_iff in Hd as (r & E & Hr). subst d. split; [reflexivity|]. apply filter_In in Hr as [Hr _].
      cbn [nd d_row]. apply Ho. exact Hr.
  Qed.

  Lemma D0_rows_nodup o n : NoDup o -> NoDup n -> NoDup (map d_row (D0 o n)).
  Proof.
    intros Ho Hn. eapply Permutation_NoDup; [apply Permutation_sym, Permutation_map, D0_perm|].
    rewrite map_app, news_rows, map_map. cbn [nd d_row]. rewrite map_id.
    apply NoDup_app_intro; [exact Hn | apply NoDup_filter; exact Ho|].
    intros x Hx Hf. apply filter_In in Hf as [_ Hf]. apply negb_true_iff in Hf. apply memb_false in Hf. contradiction.
  Qed.

  (* marking *)
  Definition mop (o : op) : op := match o with Affected => Unchanged | x => x end.
  Lemma mark_nd o r : mark_unchanged_n (nd o r) = nd (mop o) r.
  Proof. destruct o; reflexivity. Qed.

  Definition pe_of (d : dnode) : pentry :=
    (mi_raw (mi_of (d_row d)), mi_attrs (mi_of (d_row d)), mi_key (mi_of (d_row d)), (mop (d_op d), d_row d, Pre [])).
  Lemma make_pre_nd d : isnd d -> make_pre_n (mark_unchanged_n d) = pe_of d.
  Proof. intros [E _]. rewrite E at 1. rewrite mark_nd. reflexivity. Qed.

  (* grouping entries of one rule with distinct keys *)
  Lemma ins_key_fresh key it ks : ~ In key (gkeys ks) -> ins_key key it ks = ks ++ [(key, [it])].
  Proof.
    induction ks as [|[k its] ks IH]; intro H; [reflexivity|]. cbn [ins_key].
    destruct (lse_spec k key) as [E|E]; [exfalso; apply H; left; exact E|].
    cbn [app]. f_equal. apply IH. intro Hin. apply H. right. exact Hin.
  Qed.

  Lemma group_one raw0 a : forall (es : list pentry) ks,
    (forall e, In e es -> pe_raw e = raw0) -> NoDup (gkeys ks ++ map pe_key es) ->
    fold_left ins_entry es [(raw0, a, ks)] = [(raw0, a, ks ++ map (fun e => (pe_key e, [pe_item e])) es)].
  Proof.
    induction es as [|e es IH]; intros ks Hraw Hnd.
    - cbn. rewrite app_nil_r. reflexivity.
    - cbn [fold_left]. destruct e as [[[raw a'] key] it].
      assert (Er : raw = raw0) by (apply (Hraw (raw, a', key, it)); now left). subst raw.
      cbn [ins_entry ins_group]. rewrite String.eqb_refl.
      rewrite ins_key_fresh.
      + rewrite IH.
        * cbn [map pe_key pe_item fst snd]. rewrite <- app_assoc. reflexivity.
        * intros e He. apply Hraw. now right.
        * unfold gkeys in *. rewrite map_app. cbn [map fst]. rewrite <- app_assoc. exact Hnd.
      + cbn [map pe_key fst snd] in Hnd. apply NoDup_remove_2 in Hnd. intro Hin. apply Hnd. apply in_or_app. now left.
  Qed.

  Lemma group_all_one raw0 (e : pentry) es :
    (forall x, In x (e :: es) -> pe_raw x = raw0) -> NoDup (map pe_key (e :: es)) ->
    group_all (e :: es) = [(raw0, pe_attrs e, map (fun x => (pe_key x, [pe_item x])) (e :: es))].
  Proof.
    intros Hraw Hnd. unfold group_all. cbn [fold_left]. destruct e as [[[raw a'] key] it].
    assert (Er : raw = raw0) by (apply (Hraw (raw, a', key, it)); now left). subst raw.
    change (ins_entry [] (raw0, a', key, it)) with [(raw0, a', [(key, [it])])].
    etransitivity; [apply (group_one raw0 a' es [(key, [it])]) | reflexivity].
    - intros x Hx. apply Hraw. now right.
    - exact Hnd.
  Qed.

  (* the items of the patch *)
  Definition skof (ord : list orule) (raw row : string) (direct : bool) : skey :=
    let '(order, odirect, _) := get_order rmatch rsrc rrev block_exit ord row direct (Some "patch") in
    (match order with ZFin z => ZFin (if odirect then z else Z.opp z) | ZInf => ZInf end, raw, odirect).
  Definition ord_ditem (ord : list orule) (a : attrs) (raw r : string) : item :=
    (r, if a_parent a then Some (PT []) else None, skof ord raw r true).
  Definition ord_uitem (ord : list orule) (raw u : string) : item := (u, None, skof ord raw u false).

  Lemma yield_dir ord raw a r mk : a_force_commit a = false ->
    yield_item rmatch rsrc rrev block_exit ord raw a (true, r, Some (mk, false)) = Some [ord_ditem ord a raw r].
  Proof.
    intro Hf. unfold yield_item, ord_ditem, skof.
    destruct (get_order rmatch rsrc rrev block_exit ord r true (Some "patch")) as [[order odirect] ord'].
    cbn. rewrite Hf. destruct (a_parent a); reflexivity.
  Qed.
  Lemma yield_undo ord raw a u : a_force_commit a = false ->
    yield_item rmatch rsrc rrev block_exit ord raw a (false, u, None) = Some [ord_uitem ord raw u].
  Proof.
    intro Hf. unfold yield_item, ord_uitem, skof.
    destruct (get_order rmatch rsrc rrev block_exit ord u false (Some "patch")) as [[order odirect] ord'].
    cbn. rewrite Hf. rewrite orb_true_r. reflexivity.
  Qed.

  Definition its_of (ord : list orule) (a : attrs) (raw : string) (key : list string) (o : op) (r : string) : list item :=
    match o with
    | Unchanged => []
    | Added | Affected => [ord_ditem ord a raw r]
    | Moved => [ord_uitem ord raw (rreverse (a_pat a) key); ord_ditem ord a raw r]
    | Removed => [ord_uitem ord raw (rreverse (a_pat a) key)]
    end.

  Lemma run_logic_one pat key o r (mk : ckpre) :
    run_logic rreverse pat key LOrdered [(o, r, mk, false)] =
    Some (match o with
          | Unchanged => []
          | Added | Affected => [(true, r, Some (mk, false))]
          | Moved => [(false, rreverse pat key, None); (true, r, Some (mk, false))]
          | Removed => [(false, rreverse pat key, None)]
          end).
  Proof. destruct o; reflexivity. Qed.

  Lemma slot_items_one ord raw a key o r mk : a_logic a = LOrdered -> a_force_commit a = false ->
    slot_items rmatch rsrc rrev block_exit rreverse ord (raw, a, key, [(o, r, mk, false)]) = Some (its_of ord a raw key o r).
  Proof.
    intros Hl Hf. unfold slot_items. rewrite Hl, run_logic_one.
    destruct o; cbn [map its_of]; rewrite ?(yield_dir ord raw a r mk Hf), ?(yield_undo ord raw a _ Hf); reflexivity.
  Qed.

  Lemma all_some_map_total {A B} (g : A -> option B) (h : A -> B) l :
    (forall x, In x l -> g x = Some (h x)) -> all_some (map g l) = Some (map h l).
  Proof.
    induction l as [|x l IH]; intro H; [reflexivity|]. cbn [map all_some]. rewrite (H x) by now left.
    rewrite IH; [reflexivity|]. intros y Hy. apply H. now right.
  Qed.

  Definition items (ord : list orule) (d : dnode) : list item :=
    let m := mi_of (d_row d) in
    its_of ord (mi_attrs m) (mi_raw m) (mi_key m) (mop (d_op d)) (d_row d).

  Lemma map_key_nodup (l : list dnode) : Forall isnd l -> NoDup (map d_row l) ->
    NoDup (map (fun d => mi_key (mi_of (d_row d))) l).
  Proof.
    induction l as [|d l IH]; intros Hi Hn; [constructor|].
    inversion Hi as [|d' l' Hd Hl]; subst. cbn [map] in *. inversion Hn as [|x l' Hx Hn']; subst. constructor.
    - intro Hin. apply in_map_iff in Hin as (d2 & E & Hd2). apply Hx. apply in_map_iff. exists d2. split; [|exact Hd2].
      rewrite Forall_forall in Hl. apply (fd_key HD); [apply (Hl d2 Hd2) | apply Hd | exact E].
    - apply IH; assumption.
  Qed.

  Theorem patch_flat ord o n : incl o U -> incl n U -> NoDup o -> NoDup n ->
    make_patch rmatch rsrc rrev block_exit rreverse (make_pre (make_diff rmatch rs (leaves o) (leaves n))) ord =
    POk (PT (sort_items (flat_map (items ord) (D0 o n)))).
  Proof.
    intros Ho Hn Hndo Hndn. unfold make_diff. rewrite (raw_diff_flat o n Ho Hn Hndo).
    pose proof (D0_isnd o n Ho Hn) as Hnd. pose proof (D0_rows_nodup o n Hndo Hndn) as Hrows.
    rewrite make_pre_groups. unfold mark_unchanged. rewrite map_map.
    rewrite (map_ext_in _ pe_of) by (intros d Hd; apply make_pre_nd; rewrite Forall_forall in Hnd; auto).
    destruct (D0 o n) as [|d0 dl] eqn:ED.
    - reflexivity.
    - set (r0 := d_row d0). assert (Hr0 : In r0 U) by (inversion Hnd as [|x y Hx Hy]; subst; apply Hx).
      cbn [map]. rewrite (group_all_one (mi_raw (mi_of r0))).
      + rewrite make_patch_unfold. unfold flat_groups. cbn [flat_map]. rewrite app_nil_r. rewrite !map_map.
        rewrite <- (map_cons pe_of d0 dl), map_map.
        rewrite (all_some_map_total _ (items ord)).
        * rewrite flat_map_concat_map. reflexivity.
        * intros d Hd. rewrite Forall_forall in Hnd. destruct (Hnd d Hd) as [_ Hu].
          unfold conv_flat, pe_of. cbn [fst snd pe_key pe_item pe_attrs map conv_item pgroups].
          destruct (fd_one HD r0 (d_row d) Hr0 Hu) as [E1 E2]. destruct (fd_ord HD (d_row d) Hu) as (_ & Hl & Hf).
          fold r0. rewrite E1, E2. rewrite slot_items_one by assumption. reflexivity.
      + intros x Hx. rewrite <- (map_cons pe_of d0 dl) in Hx. apply in_map_iff in Hx as (d & E & Hd). subst x.
        rewrite Forall_forall in Hnd. destruct (Hnd d Hd) as [_ Hu]. unfold pe_of, pe_raw. cbn [fst].
        symmetry. apply (fd_one HD r0 (d_row d) Hr0 Hu).
      + rewrite <- (map_cons pe_of d0 dl), map_map. unfold pe_of, pe_key. cbn [fst snd].
        apply map_key_nodup; assumption.
  Qed.

  (* ------------------------------------------------------------------ E. the sorted patch, executed *)
  Definition tc (ord : list orule) (d : dnode) : list (item * cmd) :=
    let r := d_row d in
    let m := mi_of r in
    let di := (ord_ditem ord (mi_attrs m) (mi_raw m) r, (true, r)) in
    let ui := (ord_uitem ord (mi_raw m) (rev r), (false, r)) in
    match mop (d_op d) with Unchanged => [] | Added | Affected => [di] | Moved => [ui; di] | Removed => [ui] end.

  Lemma tc_fst ord d : map fst (tc ord d) = items ord d.
  Proof. unfold tc, items. destruct (d_op d); reflexivity. Qed.

  Lemma map_flat_map' {A B C} (g : B -> C) (h : A -> list B) l : map g (flat_map h l) = flat_map (fun x => map g (h x)) l.
  Proof. induction l as [|x l IH]; [reflexivity|]. cbn. rewrite map_app, IH. reflexivity. Qed.

  Definition tleb : item * cmd -> item * cmd -> bool := leb_on ileb fst.
  Definition tout (ord : list orule) (o n : list string) := flat_map (tc ord) (D0 o n).
  Definition tsorted (ord : list orule) (o n : list string) := stable_sort tleb (tout ord o n).

  Lemma tsorted_fst ord o n : map fst (tsorted ord o n) = sort_items (flat_map (items ord) (D0 o n)).
  Proof.
    unfold tsorted, tleb. rewrite sort_map_key.
    transitivity (stable_sort ileb (flat_map (items ord) (D0 o n))); [|reflexivity].
    f_equal. unfold tout. rewrite map_flat_map'.
    apply flat_map_ext. intro d. apply tc_fst.
  Qed.

  Lemma tleb_total a b : tleb a b = true \/ tleb b a = true.
  Proof. apply leb_on_total. exact ileb_total. Qed.
  Lemma tleb_trans a b c : tleb a b = true -> tleb b c = true -> tleb a c = true.
  Proof. apply leb_on_trans. exact ileb_trans. Qed.

  Definition tagged (x : item * cmd) : Prop := tag_ok (fst x) (snd x).

  Lemma tc_tagged ord d : isnd d -> Forall tagged (tc ord d).
  Proof.
    intros [_ Hu]. unfold tc.
    assert (Hd : tagged (ord_ditem ord (mi_attrs (mi_of (d_row d))) (mi_raw (mi_of (d_row d))) (d_row d), (true, d_row d))).
    { split; [exact Hu|]. cbn [fst snd]. split; [reflexivity|]. unfold ichild, ord_ditem. cbn [fst snd].
      destruct (a_parent _); auto. }
    assert (Hv : tagged (ord_uitem ord (mi_raw (mi_of (d_row d))) (rev (d_row d)), (false, d_row d))).
    { split; [exact Hu|]. cbn [fst snd]. split; reflexivity. }
    destruct (mop (d_op d)); repeat (first [apply Forall_nil | apply Forall_cons; [assumption|]]).
  Qed.

  Lemma tout_tagged ord o n : incl o U -> incl n U -> Forall tagged (tout ord o n).
  Proof.
    intros Ho Hn. pose proof (D0_isnd o n Ho Hn) as H. unfold tout. induction H as [|d l Hd Hl IH]; [constructor|].
    cbn [flat_map]. apply Forall_app. split; [apply tc_tagged; exact Hd | exact IH].
  Qed.

  Lemma tsorted_tagged ord o n : incl o U -> incl n U -> Forall tagged (tsorted ord o n).
  Proof. intros Ho Hn. apply sort_Forall. apply tout_tagged; assumption. Qed.

  Lemma tagged_forall2 l : Forall tagged l -> Forall2 tag_ok (map fst l) (map snd l).
  Proof. induction 1 as [|x l Hx Hl IH]; cbn [map]; constructor; assumption. Qed.

  (* stability, for a class of mutually equivalent elements *)
  Lemma stable_class {A} (leb : A -> A -> bool) (p : A -> bool) l :
    (forall a b, leb a b = true \/ leb b a = true) ->
    (forall a b c, leb a b = true -> leb b c = true -> leb a c = true) ->
    (forall x y, In x l -> In y l -> p x = true -> p y = true -> eqv leb x y = true) ->
    filter p (stable_sort leb l) = filter p l.
  Proof.
    intros Ht Htr Hc. destruct (filter p l) as [|x fl] eqn:Ef.
    - pose proof (Permutation_filter p _ _ (sort_perm leb l)) as Hp. rewrite Ef in Hp.
      apply Permutation_sym, Permutation_nil in Hp. exact Hp.
    - rewrite <- Ef. assert (Hx : In x l /\ p x = true) by (apply filter_In; rewrite Ef; now left).
      destruct Hx as [Hxl Hxp].
      assert (E : forall l', (forall y, In y l' -> In y l) -> filter p l' = filter p (filter (eqv leb x) l')).
      { intros l' Hl'. rewrite filter_filter_and. apply filter_ext_in. intros y Hy.
        destruct (p y) eqn:Py; [|symmetry; apply andb_false_r]. rewrite (Hc x y Hxl (Hl' y Hy) Hxp Py). reflexivity. }
      rewrite (E (stable_sort leb l)) by (intros y Hy; apply (proj1 (sort_in leb y l)); exact Hy).
      rewrite (sort_stable leb Htr). symmetry. apply E. auto.
  Qed.

  Lemma flat_map_filter_skip {A B} (q : A -> bool) (g : A -> list B) l :
    (forall x, q x = false -> g x = []) -> flat_map g l = flat_map g (filter q l).
  Proof.
    intro H. induction l as [|x l IH]; [reflexivity|]. cbn [flat_map filter]. destruct (q x) eqn:E.
    - cbn [flat_map]. rewrite IH. reflexivity.
    - rewrite (H x E). exact IH.
  Qed.
  Lemma filter_flat_map {A B} (p : B -> bool) (g : A -> list B) l : filter p (flat_map g l) = flat_map (fun x => filter p (g x)) l.
  Proof. induction l as [|x l IH]; [reflexivity|]. cbn. rewrite filter_app, IH. reflexivity. Qed.

  Definition isd (x : item * cmd) : bool := fst (snd x).

  Lemma news_filter o n : filter notrem (D0 o n) = news_of o n.
  Proof.
    unfold D0. apply interleave_filter; [|apply removed_rows_op].
    unfold news_of. apply Forall_app. split; apply Forall_forall; intros d Hd; apply in_map_iff in Hd as (r & E & _); subst d.
    - reflexivity.
    - unfold notrem, am. cbn [nd d_op]. destruct (memb r o); reflexivity.
  Qed.

  Lemma flat_map_map {A B C} (h : A -> B) (g : B -> list C) l : flat_map g (map h l) = flat_map (fun x => g (h x)) l.
  Proof. induction l as [|x l IH]; [reflexivity|]. cbn. rewrite IH. reflexivity. Qed.
  Lemma flat_map_nil_all {A B} (g : A -> list B) l : (forall x, g x = []) -> flat_map g l = [].
  Proof. intro H. induction l as [|x l IH]; [reflexivity|]. cbn. rewrite H, IH. reflexivity. Qed.

  Lemma tout_dirs ord o n : map (fun x => snd (snd x)) (filter isd (tout ord o n)) = skipn (cpl n o) n.
  Proof.
    unfold tout. rewrite filter_flat_map.
    rewrite (flat_map_filter_skip notrem).
    - rewrite news_filter. unfold news_of. rewrite flat_map_app, map_app, !flat_map_map.
      rewrite flat_map_nil_all by reflexivity. cbn [map app].
      induction (skipn (cpl n o) n) as [|r l IH]; [reflexivity|].
      cbn [map flat_map]. rewrite map_app. rewrite IH. unfold tc, am. cbn [nd d_op d_row].
      destruct (memb r o); reflexivity.
    - intros d Hd. unfold notrem in Hd. apply negb_false_iff in Hd. apply op_eqb_eq in Hd. unfold tc. rewrite Hd. reflexivity.
  Qed.

  Lemma cpl_firstn : forall a b, firstn (cpl a b) a = firstn (cpl a b) b.
  Proof.
    induction a as [|x a IH]; intros [|y b]; try reflexivity. cbn [cpl].
    destruct (String.eqb_spec x y) as [E|E]; [|reflexivity]. subst. cbn [firstn]. f_equal. apply IH.
  Qed.

  Lemma skipn_in_iff k (l : list string) r : NoDup l -> (In r (skipn k l) <-> In r l /\ ~ In r (firstn k l)).
  Proof.
    intro H. rewrite <- (firstn_skipn k l) in H. split.
    - intro Hs. split.
      + rewrite <- (firstn_skipn k l). apply in_or_app. now right.
      + intro Hf. exact (NoDup_app_disj _ _ r H Hf Hs).
    - intros [Hl Hf]. rewrite <- (firstn_skipn k l) in Hl. apply in_app_or in Hl as [Hl|Hl]; [contradiction | exact Hl].
  Qed.

  Lemma tc_undo ord d it r : In (it, (false, r)) (tc ord d) -> d_row d = r /\ (mop (d_op d) = Moved \/ mop (d_op d) = Removed).
  Proof.
    unfold tc. destruct (mop (d_op d)); cbn [In]; intro H.
    - destruct H as [H|[]]. discriminate.
    - destruct H as [H|[]]. injection H as _ E. auto.
    - destruct H as [H|[H|[]]]; [injection H as _ E; auto | discriminate].
    - destruct H as [H|[]]. discriminate.
    - destruct H.
  Qed.

  Lemma tout_undo ord o n r : NoDup o -> NoDup n ->
    ((exists it, In (it, (false, r)) (tout ord o n)) <-> In r (skipn (cpl n o) o)).
  Proof.
    intros Hndo Hndn. rewrite (skipn_in_iff _ o r Hndo). rewrite <- cpl_firstn. split.
    - intros (it & Hin). unfold tout in Hin. apply in_flat_map in Hin as (d & Hd & Hit).
      apply tc_undo in Hit as [Er Hop]. unfold D0 in Hd. apply interleave_In in Hd as [Hd|Hd].
      + unfold news_of in Hd. apply in_app_or in Hd as [Hd|Hd]; apply in_map_iff in Hd as (x & E & Hx); subst d;
          cbn [nd d_op d_row] in *; subst x.
        * destruct Hop; discriminate.
        * unfold am in Hop. destruct (memb r o) eqn:Em; [|destruct Hop; discriminate].
          apply memb_In in Em. split; [exact Em|]. apply (skipn_in_iff _ n r Hndn). exact Hx.
      + rewrite removed_flat in Hd. apply in_map_iff in Hd as (x & E & Hx). subst d. cbn [nd d_row] in Er. subst x.
        apply filter_In in Hx as [Hx Hm]. split; [exact Hx|]. apply negb_true_iff, memb_false in Hm.
        intro Hf. apply Hm. rewrite <- (firstn_skipn (cpl n o) n). apply in_or_app. now left.
    - intros [Ho Hf]. destruct (memb r n) eqn:Em.
      + apply memb_In in Em. assert (Hs : In r (skipn (cpl n o) n)) by (apply skipn_in_iff; auto).
        exists (ord_uitem ord (mi_raw (mi_of r)) (rev r)). unfold tout. apply in_flat_map. exists (nd (am o r) r). split.
        * unfold D0. apply interleave_In. left. unfold news_of. apply in_or_app. right. apply in_map_iff. exists r. auto.
        * unfold tc, am. apply memb_In in Ho. rewrite Ho. cbn [nd d_op d_row mop]. now left.
      + exists (ord_uitem ord (mi_raw (mi_of r)) (rev r)). unfold tout. apply in_flat_map. exists (nd Removed r). split.
        * unfold D0. apply interleave_In. right. rewrite removed_flat. apply in_map_iff. exists r. split; [reflexivity|].
          apply filter_In. split; [exact Ho|]. rewrite Em. reflexivity.
        * unfold tc. cbn [nd d_op d_row mop]. now left.
  Qed.

  (* the ordering hypotheses, on the sorted patch *)
  Lemma undo_first_split' l1 (i : item) l2 s crs :
    undo_first_b rmatch rreverse (PT (l1 ++ i :: l2)) rs = true ->
    match_row rmatch (irow i) rs = Some (s, crs) ->
    ~ In (reverse_of rreverse s) (map irow l2).
  Proof.
    induction l1 as [|[[r c] k] l1 IH]; intros H Hm.
    - destruct i as [[row child] sk]. cbn [app] in H. unfold irow in Hm. cbn [fst] in Hm.
      cbn [undo_first_b] in H. rewrite Hm in H.
      apply andb_true_iff in H as [H _]. apply andb_true_iff in H as [H1 _].
      apply negb_true_iff in H1. intro Hin. apply in_map_iff in Hin as (j & Ej & Hj).
      assert (E : existsb (fun i : string * option ptree * skey => String.eqb (fst (fst i)) (reverse_of rreverse s)) l2 = true).
      { apply existsb_exists. exists j. split; [exact Hj|]. unfold irow in Ej. rewrite Ej. apply String.eqb_refl. }
      congruence.
    - cbn [app] in H. cbn [undo_first_b] in H. apply andb_true_iff in H as [_ H]. apply IH; assumption.
  Qed.

  Lemma skof_raw ord raw row b : snd (fst (skof ord raw row b)) = raw.
  Proof. unfold skof. destruct (get_order rmatch rsrc rrev block_exit ord row b (Some "patch")) as [[x y] z]. reflexivity. Qed.

  Lemma tc_dir ord d x : In x (tc ord d) -> isd x = true ->
    x = (ord_ditem ord (mi_attrs (mi_of (d_row d))) (mi_raw (mi_of (d_row d))) (d_row d), (true, d_row d)).
  Proof.
    unfold tc. destruct (mop (d_op d)); cbn [In]; intros H Hi.
    - destruct H as [H|[]]. subst x. reflexivity.
    - destruct H as [H|[]]. subst x. discriminate.
    - destruct H as [H|[H|[]]]; subst x; [discriminate | reflexivity].
    - destruct H as [H|[]]. subst x. reflexivity.
    - destruct H.
  Qed.

  Lemma tout_dir ord o n x : incl o U -> incl n U -> In x (tout ord o n) -> isd x = true ->
    exists r, In r U /\ x = (ord_ditem ord (mi_attrs (mi_of r)) (mi_raw (mi_of r)) r, (true, r)).
  Proof.
    intros Ho Hn Hx Hi. unfold tout in Hx. apply in_flat_map in Hx as (d & Hd & Hx).
    pose proof (D0_isnd o n Ho Hn) as Hnd. rewrite Forall_forall in Hnd. destruct (Hnd d Hd) as [_ Hu].
    exists (d_row d). split; [exact Hu | apply tc_dir; assumption].
  Qed.

  (* what ord_keys_ok_b says about two items whose rows are governed by an %ordered rule *)
  Lemma ord_keys_pair (its : list item) i j :
    ord_keys_ok_b rmatch (PT its) rs = true -> In i its -> In j its ->
    (exists s c, match_row rmatch (irow i) rs = Some (s, c) /\ is_ordered s = true) ->
    (exists s c, match_row rmatch (irow j) rs = Some (s, c) /\ is_ordered s = true) ->
    fst (fst (snd i)) = fst (fst (snd j)) /\ snd (snd i) = snd (snd j).
  Proof.
    intros H Hi Hj (si & ci & Mi & Oi) (sj & cj & Mj & Oj). cbn [ord_keys_ok_b] in H. apply andb_true_iff in H as [H _].
    set (g := fun i0 : string * option ptree * skey =>
                match match_row rmatch (fst (fst i0)) rs with
                | Some (s, _) => if is_ordered s then [snd i0] else []
                | None => []
                end) in H.
    assert (Ii : In (snd i) (flat_map g its)).
    { apply in_flat_map. exists i. split; [exact Hi|]. unfold g. unfold irow in Mi. rewrite Mi, Oi. now left. }
    assert (Ij : In (snd j) (flat_map g its)).
    { apply in_flat_map. exists j. split; [exact Hj|]. unfold g. unfold irow in Mj. rewrite Mj, Oj. now left. }
    destruct (flat_map g its) as [|k r]; [destruct Ii|].
    assert (Q : forall a, In a (k :: r) -> fst (fst a) = fst (fst k) /\ snd a = snd k).
    { intros a [E|Ha]; [subst; auto|]. rewrite forallb_forall in H. specialize (H a Ha). unfold sk_ord_eqb in H.
      destruct (znum_compare (fst (fst k)) (fst (fst a))) eqn:Ec; try discriminate.
      apply znum_compare_eq in Ec. apply Bool.eqb_prop in H. split; congruence. }
    destruct (Q _ Ii) as [A1 A2]. destruct (Q _ Ij) as [B1 B2]. split; congruence.
  Qed.

  Lemma snd_filter_dirs (l : list (item * cmd)) :
    dirs (map snd l) = map (fun x => snd (snd x)) (filter isd l).
  Proof.
    unfold dirs. induction l as [|x l IH]; [reflexivity|]. cbn [map filter]. unfold isd at 1.
    destruct (fst (snd x)); cbn [map]; rewrite IH; reflexivity.
  Qed.

  Lemma rev_not_row r r' : In r U -> In r' U -> rev r <> r'.
  Proof. intros Hr Hr' E. destruct (fd_rev HD r Hr) as [Hm _]. rewrite E, (fd_known HD r' Hr') in Hm. discriminate. Qed.

  Lemma items_rows ord d x : In x (map irow (items ord d)) -> x = d_row d \/ x = rev (d_row d).
  Proof.
    unfold items, its_of. destruct (mop (d_op d)); cbn [map In irow ord_uitem ord_ditem fst]; intro H; fold (rev (d_row d)) in *; intuition.
  Qed.

  Lemma items_rows_nodup1 ord d : In (d_row d) U -> NoDup (map irow (items ord d)).
  Proof.
    intro Hu. unfold items, its_of. destruct (mop (d_op d)); cbn [map irow ord_uitem ord_ditem fst]; repeat constructor; cbn [In]; try tauto.
    intros [E|[]]. apply (rev_not_row (d_row d) (d_row d) Hu Hu). symmetry. exact E.
  Qed.

  Lemma items_rows_nodup ord l : Forall isnd l -> NoDup (map d_row l) -> NoDup (map irow (flat_map (items ord) l)).
  Proof.
    induction l as [|d l IH]; intros Hi Hn; [constructor|].
    inversion Hi as [|d' l' [_ Hd] Hl]; subst. cbn [map] in Hn. inversion Hn as [|x l' Hx Hn']; subst.
    cbn [flat_map]. rewrite map_app. apply NoDup_app_intro; [apply items_rows_nodup1; exact Hd | apply IH; assumption|].
    intros x Hx1 Hx2. rewrite map_flat_map' in Hx2. apply in_flat_map in Hx2 as (d2 & Hd2 & Hx2).
    rewrite Forall_forall in Hl. destruct (Hl d2 Hd2) as [_ Hu2].
    assert (Hne : d_row d <> d_row d2) by (intro E; apply Hx; rewrite E; apply in_map; exact Hd2).
    apply items_rows in Hx1. apply items_rows in Hx2. destruct Hx1 as [E1|E1], Hx2 as [E2|E2]; subst x.
    - congruence.
    - apply (rev_not_row (d_row d2) (d_row d) Hu2 Hd). symmetry. exact E2.
    - apply (rev_not_row (d_row d) (d_row d2) Hd Hu2). exact E2.
    - apply Hne. apply (fd_revinj HD); assumption.
  Qed.

  Lemma prows_ok_intro' (its : list item) : NoDup (map irow its) ->
    (forall it, In it its -> is_exit (irow it) = false /\ (ichild it = None \/ ichild it = Some (PT []))) ->
    prows_ok is_exit (PT its).
  Proof.
    intros Hn H. cbn [prows_ok]. split; [exact Hn|]. clear Hn. induction its as [|[[row child] sk] l IH]; [exact I|].
    destruct (H (row, child, sk) (or_introl eq_refl)) as [He Hc]. unfold irow, ichild in *. cbn [fst snd] in *.
    split; [exact He|]. split.
    - destruct Hc as [Hc|Hc]; subst child; [exact I|]. cbn. split; [constructor | exact I].
    - apply IH. intros it Hit. apply H. now right.
  Qed.

  Theorem flat_converges fam ord o n :
    block_family fam = true -> (forall ex, In ex (family_exits fam) -> is_exit ex = true) ->
    incl o U -> incl n U -> NoDup o -> NoDup n ->
    let pt := PT (sort_items (flat_map (items ord) (D0 o n))) in
    undo_first_b rmatch rreverse pt rs = true -> ord_keys_ok_b rmatch pt rs = true ->
    exec rmatch rreverse is_exit rs (cmd_paths fam pt) (leaves o) = leaves n.
  Proof.
    intros Hf Hex Ho Hn Hndo Hndn pt Hu Hk. unfold pt in *. clear pt.
    rewrite <- (tsorted_fst ord o n) in *. set (ts := tsorted ord o n) in *.
    pose proof (tsorted_tagged ord o n Ho Hn) as Htag. fold ts in Htag.
    assert (Hin : forall x, In x ts <-> In x (tout ord o n)) by (intro x; apply sort_in).
    (* 1. the command paths are the patch items *)
    rewrite exec_cmd_paths; [|exact Hf|exact Hex|].
    2:{ apply prows_ok_intro'.
        - eapply Permutation_NoDup; [apply Permutation_sym, Permutation_map, Permutation_map, (sort_perm tleb)|].
          unfold tout. rewrite map_flat_map'. rewrite (flat_map_ext _ (items ord)) by (intro d; apply tc_fst).
          apply items_rows_nodup; [apply D0_isnd | apply D0_rows_nodup]; assumption.
        - intros it Hit. apply in_map_iff in Hit as (x & E & Hx). subst it. rewrite Forall_forall in Htag.
          destruct (Htag x Hx) as [Hxu Hxt]. destruct (fst (snd x)).
          + destruct Hxt as [Er Hc]. rewrite Er. split; [apply (fd_noexit HD); exact Hxu | exact Hc].
          + destruct Hxt as [Er Hc]. rewrite Er. split; [apply (fd_rev HD); exact Hxu | left; exact Hc]. }
    rewrite run_pt_fold. rewrite (run_items_leaf (map fst ts) (map snd ts) o (tagged_forall2 ts Htag) Ho). f_equal.
    (* 2. the list machine *)
    set (k := cpl n o).
    assert (Eo : firstn k n ++ skipn k o = o) by (unfold k; rewrite (cpl_firstn n o); apply firstn_skipn).
    assert (En : firstn k n ++ skipn k n = n) by apply firstn_skipn.
    assert (M : fold_left lstep (map snd ts) (firstn k n ++ skipn k o) = firstn k n ++ skipn k n);
      [|rewrite Eo, En in M; exact M].
    apply machine_converges.
    - rewrite Eo. exact Hndo.
    - rewrite En. exact Hndn.
    - rewrite snd_filter_dirs. unfold ts, tsorted. rewrite (stable_class tleb isd _ tleb_total tleb_trans).
      + apply tout_dirs.
      + intros x y Hx Hy Ix Iy.
        destruct (tout_dir ord o n x Ho Hn Hx Ix) as (rx & Hrx & Ex).
        destruct (tout_dir ord o n y Ho Hn Hy Iy) as (ry & Hry & Ey).
        assert (Hp : fst (fst (snd (fst x))) = fst (fst (snd (fst y))) /\ snd (snd (fst x)) = snd (snd (fst y))).
        { apply (ord_keys_pair (map fst ts)); [exact Hk | apply in_map, Hin, Hx | apply in_map, Hin, Hy | |].
          - exists (mi_of rx), (crs_of rx). rewrite Ex. unfold irow, ord_ditem. cbn [fst]. split; [apply (fd_known HD) | apply (fd_ord HD)]; exact Hrx.
          - exists (mi_of ry), (crs_of ry). rewrite Ey. unfold irow, ord_ditem. cbn [fst]. split; [apply (fd_known HD) | apply (fd_ord HD)]; exact Hry. }
        assert (Hraw : snd (fst (snd (fst x))) = snd (fst (snd (fst y)))).
        { rewrite Ex, Ey. unfold ord_ditem. cbn [fst snd]. rewrite !skof_raw. apply (fd_one HD); assumption. }
        assert (Ek : snd (fst x) = snd (fst y)).
        { destruct Hp as [H1 H2]. destruct (snd (fst x)) as [[a b] c], (snd (fst y)) as [[a' b'] c']. cbn [fst snd] in *. congruence. }
        cbv [eqv tleb leb_on ileb].
        assert (Hr : skey_leb (snd (fst y)) (snd (fst y)) = true)
          by (destruct (skey_leb_total (snd (fst y)) (snd (fst y))); assumption).
        apply andb_true_iff. split; (etransitivity; [|exact Hr]); f_equal; exact Ek.
    - intros r Hr. apply in_map_iff in Hr as (x & E & Hx). apply (tout_undo ord o n r Hndo Hndn).
      exists (fst x). apply Hin. destruct x as [it c]. cbn [fst snd] in *. subst c. exact Hx.
    - intros r Hr. apply (tout_undo ord o n r Hndo Hndn) in Hr as (it & Hit). apply in_map_iff. exists (it, (false, r)).
      split; [reflexivity | apply Hin; exact Hit].
    - intros l1 r l2 E Hin2. apply map_eq_app in E as (t1 & t2' & Et & E1 & E2).
      apply map_eq_cons in E2 as (x & t2 & Et2 & Ex & E2). subst t2'.
      apply in_split in Hin2 as (la & lb & El2). rewrite El2 in E2. apply map_eq_app in E2 as (ta & tb' & Etb & _ & E3).
      apply map_eq_cons in E3 as (y & tb & Etb' & Ey & _). subst tb' t2.
      rewrite Forall_forall in Htag.
      assert (Hxin : In x ts) by (rewrite Et; apply in_or_app; right; now left).
      assert (Hyin : In y ts) by (rewrite Et; apply in_or_app; right; right; apply in_or_app; right; now left).
      destruct (Htag x Hxin) as [Hxu Hxt]. destruct (Htag y Hyin) as [Hyu Hyt]. rewrite Ex in *. rewrite Ey in *. cbn [fst snd] in *.
      destruct Hxt as [Erx _]. destruct Hyt as [Ery _].
      rewrite Et in Hu. rewrite map_app in Hu. cbn [map] in Hu.
      apply (undo_first_split' (map fst t1) (fst x) (map fst (ta ++ y :: tb)) (mi_of r) (crs_of r) Hu).
      + rewrite Erx. apply (fd_known HD). exact Hxu.
      + fold (rev r). rewrite <- Ery. rewrite map_map. apply in_map_iff. exists y. split; [reflexivity|]. apply in_or_app. right. now left.
  Qed.
End Flat.

(* ------------------------------------------------------------------ F. instantiated *)
From Annet Require Import Spec.P_C01ord Proofs.ConvergeWf Proofs.ConvergeTop.

Lemma nodupb_NoDup l : nodupb l = true -> NoDup l.
Proof.
  induction l as [|x l IH]; intro H; [constructor|]. cbn [nodupb] in H. apply andb_true_iff in H as [H1 H2].
  constructor; [|apply IH; exact H2]. apply negb_true_iff in H1. apply (memb_false x l). exact H1.
Qed.

Lemma leaf_level_leaves f : leaf_level f = true -> f = leaves (keys f).
Proof.
  induction f as [|[r [k]] f IH]; intro H; [reflexivity|]. cbn [leaf_level forallb snd] in H.
  destruct k; [|discriminate]. cbn [andb] in H. cbn [keys map fst leaves]. f_equal. apply IH. exact H.
Qed.

Lemma ord_flat_dom_fdom v rs U : ord_flat_dom v rs U = true -> fdom pm (prreverse v) (v_is_exit v) rs U.
Proof.
  intro H. unfold ord_flat_dom in H. rewrite forallb_forall in H.
  assert (K : forall r, In r U -> match_row pm r rs = Some (mi_of pm rs r, crs_of pm rs r)).
  { intros r Hr. specialize (H r Hr). unfold mi_of, crs_of. destruct (match_row pm r rs) as [[s c]|]; [reflexivity | discriminate]. }
  assert (P1 : forall r, In r U ->
            let s := mi_of pm rs r in let rv := reverse_of (prreverse v) s in
            (is_ordered s = true /\ a_logic (mi_attrs s) = LOrdered /\ a_force_commit (mi_attrs s) = false) /\
            v_is_exit v r = false /\ match_row pm rv rs = None /\ v_is_exit v rv = false /\
            forall r', In r' U -> let s' := mi_of pm rs r' in
              mi_raw s = mi_raw s' /\ mi_attrs s = mi_attrs s' /\
              (rv = reverse_of (prreverse v) s' -> r = r') /\ (mi_key s = mi_key s' -> r = r')).
  { intros r Hr. pose proof (H r Hr) as Hr1. rewrite (K r Hr) in Hr1. cbv zeta in *.
    repeat (apply andb_true_iff in Hr1 as [Hr1 ?]).
    rewrite forallb_forall in H0.
    split; [split; [exact Hr1 | split; [apply logic_eqb_eq; assumption | apply negb_true_iff; assumption]]|].
    split; [apply negb_true_iff; assumption|].
    split; [destruct (match_row pm (reverse_of (prreverse v) (mi_of pm rs r)) rs); [discriminate | reflexivity]|].
    split; [apply negb_true_iff; assumption|].
    intros r' Hr'. specialize (H0 r' Hr'). rewrite (K r' Hr') in H0.
    repeat (apply andb_true_iff in H0 as [H0 ?]).
    split; [apply String.eqb_eq; exact H0|]. split; [apply attrs_eqb_eq; assumption|]. split.
    - intro E. apply orb_true_iff in H7 as [H7|H7]; [|apply String.eqb_eq; exact H7].
      apply negb_true_iff in H7. apply String.eqb_neq in H7. contradiction.
    - intro E. apply orb_true_iff in H6 as [H6|H6]; [|apply String.eqb_eq; exact H6].
      apply negb_true_iff in H6. exfalso. apply list_str_eqb_eq in E. congruence. }
  constructor.
  - exact K.
  - intros r Hr. apply (P1 r Hr).
  - intros r Hr. apply (P1 r Hr).
  - intros r Hr. destruct (P1 r Hr) as (_ & _ & A & B & _). split; assumption.
  - intros r r' Hr Hr'. destruct (P1 r Hr) as (_ & _ & _ & _ & A). destruct (A r' Hr') as (A1 & A2 & _). split; assumption.
  - intros r r' Hr Hr' E. destruct (P1 r Hr) as (_ & _ & _ & _ & A). destruct (A r' Hr') as (_ & _ & A3 & _). apply A3. exact E.
  - intros r r' Hr Hr' E. destruct (P1 r Hr) as (_ & _ & _ & _ & A). destruct (A r' Hr') as (_ & _ & _ & A4). apply A4. exact E.
Qed.

Lemma ordered_flat_rows v rs ordering o n :
  block_family (v_family v) = true -> NoDup o -> NoDup n ->
  fdom pm (prreverse v) (v_is_exit v) rs (o ++ n) ->
  order_ok_o v rs ordering (leaves o) (leaves n) = true ->
  exists pt, snd (diff_and_patch v rs ordering (leaves o) (leaves n)) = POk pt /\
             p_exec v rs (cmd_paths (v_family v) pt) (leaves o) = leaves n.
Proof.
  intros Hfam Hno Hnn HD Hord.
  assert (Ho : incl o (o ++ n)) by (intros x Hx; apply in_or_app; now left).
  assert (Hn : incl n (o ++ n)) by (intros x Hx; apply in_or_app; now right).
  pose proof (patch_flat pm psrc (prev v) (v_exit v) (prreverse v) (v_is_exit v) rs (o ++ n) HD ordering o n Ho Hn Hno Hnn) as Hp.
  unfold order_ok_o in Hord. unfold diff_and_patch in *. cbn [snd] in *. unfold p_make_patch, p_make_diff in *.
  rewrite Hp in *. apply andb_true_iff in Hord as [Hu Hk].
  eexists. split; [reflexivity|]. unfold p_exec.
  apply (flat_converges pm psrc (prev v) (v_exit v) (prreverse v) (v_is_exit v) rs (o ++ n) HD (v_family v) ordering o n
           Hfam (v_exits_family v) Ho Hn Hno Hnn Hu Hk).
Qed.

(* On a level all of whose rows are leaves of one %ordered rule, executing the model's command paths on old
   yields new - the same rows in the same sequence; lists of any length. *)
Theorem ordered_flat_model v rs ordering old new : wf_ord_flat v rs ordering old new = true ->
  exists pt, snd (diff_and_patch v rs ordering old new) = POk pt /\
             p_exec v rs (cmd_paths (v_family v) pt) old = new.
Proof.
  unfold wf_ord_flat. intro H. repeat (apply andb_true_iff in H as [H ?]).
  rename H into Hfam, H0 into Hord, H1 into Hdom, H2 into Hnn, H3 into Hno, H4 into Hln, H5 into Hlo.
  pose proof (leaf_level_leaves old Hlo) as Eo. pose proof (leaf_level_leaves new Hln) as En.
  destruct (ordered_flat_rows v rs ordering (keys old) (keys new) Hfam (nodupb_NoDup _ Hno) (nodupb_NoDup _ Hnn)
              (ord_flat_dom_fdom v rs _ Hdom)) as (pt & Hp & He).
  - rewrite <- Eo, <- En. exact Hord.
  - rewrite <- Eo, <- En in Hp. rewrite <- Eo, <- En in He. exists pt. split; assumption.
Qed.
