(* C01 for shipped rulebooks: Proofs/ConvergeMain.v re-run with the hypothesis "the ordering rulebook has no
   %order_reverse rule" replaced by an abstract invariant Q of (rule set of the level, ordering rules of the level):
     Q_child  Q is handed down to the block of a known direct command (with the rules get_order hands down),
     Q_keys   under Q the removal command of an undo_redo slot sorts before a direct command of the slot.
   The domain predicates uok / good, ldiff and every lemma of ConvergeMain.v that does not depend on the ordering
   hypothesis are the ones of ConvergeMain.v (imported, not copied); the slot-by-slot analysis of one level and
   the induction are repeated verbatim with Q in place of no_orev (generated from ConvergeMain.v once, then kept
   as a source file).  Conclusion as in ConvergeMain.converge_run. *)
From Coq Require Import List String Bool Arith ZArith Lia Permutation.
From Annet Require Import Base.Str Base.Tree Model.Rulebook Model.Diff Model.Order Model.Patch Model.Blocks
     Model.Device Spec.P_C03 Spec.P_C01
     Proofs.DiffBasics Proofs.DiffProofsLib Proofs.DiffProofsAnnot Proofs.DiffProofsLossless Proofs.SortProofs
     Proofs.OrderProofs Proofs.ConvergeOrder
     Proofs.ConvergeDevice Proofs.ConvergeRun Proofs.ConvergeBlocks Proofs.ConvergePre Proofs.ConvergeDiff
     Proofs.ConvergeSlot Proofs.ConvergeExpected Proofs.ConvergeSim Proofs.ConvergeNodes Proofs.ConvergeMain.
Import ListNotations.
Open Scope string_scope.
Open Scope list_scope.

Section MainQ.
  Variable rmatch : string -> string -> option (list string).
  Variable rsrc : string -> string.
  Variable rrev : string -> string.
  Variable block_exit : string.
  Variable rreverse : string -> list string -> string.
  Variable is_exit : string -> bool.
  (* the orderer's exit word is one of the device's exit words (or there is none) *)
  Hypothesis Hbx : is_empty block_exit = true \/ is_exit block_exit = true.

  Notation mkpatch := (make_patch rmatch rsrc rrev block_exit rreverse).
  Notation run_pt := (run_pt rmatch rreverse is_exit).
  Notation run_item := (run_item rmatch rreverse is_exit).
  Notation annot_f := (annot_f rmatch).
  Notation annot := (annot rmatch).
  Notation rev_of := (reverse_of rreverse).
  Notation expected_t := (expected_t rmatch).


  Notation uok := (ConvergeMain.uok rmatch rreverse is_exit).
  Notation good := (ConvergeMain.good rmatch).
  Notation good_nil := (ConvergeMain.good_nil rmatch).
  Notation good_wf := (ConvergeMain.good_wf rmatch).
  Notation uok_inv := (ConvergeMain.uok_inv rmatch rreverse is_exit).
  Notation good_inv := (ConvergeMain.good_inv rmatch).
  Notation undo_first_b := (undo_first_b rmatch rreverse).
  Notation undo_first_cons := (ConvergeMain.undo_first_cons rmatch rreverse).
  Notation undo_first_split := (ConvergeMain.undo_first_split rmatch rreverse).
  Notation ldiff := (ConvergeMain.ldiff rmatch).
  Notation minfo_eq := (ConvergeMain.minfo_eq rmatch rreverse is_exit).
  Notation enter_id := (ConvergeMain.enter_id rmatch).
  Notation annot_tier := (ConvergeMain.annot_tier rmatch rreverse is_exit).
  Notation annot_AT := (ConvergeMain.annot_AT rmatch).
  Notation kids_added := (ConvergeMain.kids_added rmatch).
  Notation kids_removed := (ConvergeMain.kids_removed rmatch).
  Notation kids_both := (ConvergeMain.kids_both rmatch).
  Notation both_unchanged := (ConvergeMain.both_unchanged rmatch).
  Notation patch_unchanged := (ConvergeMain.patch_unchanged rmatch rsrc rrev block_exit rreverse).
  Notation expected_nil := (ConvergeMain.expected_nil rmatch).
  Notation erase_annot := (ConvergeMain.erase_annot rmatch).
  Notation expected_rows := (ConvergeMain.expected_rows rmatch).
  Notation prows_ok_intro := (ConvergeMain.prows_ok_intro is_exit).

  (* the invariant that replaces "no %order_reverse rule" *)
  Variable Q : rset -> list orule -> Prop.
  Hypothesis Q_child : forall rs ord row s crs, Q rs ord -> match_row rmatch row rs = Some (s, crs) ->
    (is_empty block_exit = true \/ row <> block_exit) ->
    Q crs (snd (get_order rmatch rsrc rrev block_exit ord row true (Some "patch"))).
  Hypothesis Q_keys : forall rs ord r s row, Q rs ord -> slot_of rmatch rs r = Some s ->
    a_logic (mi_attrs s) = LUndoRedo ->
    (is_empty block_exit = true \/ rev_of s <> block_exit) -> (is_empty block_exit = true \/ row <> block_exit) ->
    skey_leb (key_of_cmd rmatch rsrc rrev block_exit ord (mi_raw s) (rev_of s) false)
             (key_of_cmd rmatch rsrc rrev block_exit ord (mi_raw s) row true) = true.

  Lemma plan_revdirect L A R F x :
    plan L A R F = ORevDirect x -> L = LUndoRedo.
  Proof.
    unfold plan, default_plan. destruct L, A, R, F; try discriminate; try reflexivity;
      try (destruct (ne _); discriminate).
  Qed.


  Definition claim (rs : rset) (U fo fn : forest) (pop : op) (ord : list orule) (pt : ptree) : Prop :=
    uok rs U -> good rs U fo -> good rs U fn -> popc pop fo fn ->
    mkpatch (make_pre (ldiff rs fo fn pop)) ord = POk pt ->
    (undo_first_b pt rs = true \/ Q rs ord) ->
    sim (run_pt pt rs fo) (expected_t (T fo) rs (annot_f rs fn)) /\ good rs U (run_pt pt rs fo) /\
    prows_ok is_exit pt.



  (* ---------- one level ---------- *)
  Section Step.
    Variable n : nat.
    Hypothesis IH : forall rs U fo fn pop ord pt, fsize fo + fsize fn < n -> claim rs U fo fn pop ord pt.

    Variable rs : rset.
    Variable U fo fn : forest.
    Variable pop : op.
    Variable ord : list orule.
    Variable pt : ptree.
    Hypothesis Hsz : fsize fo + fsize fn <= n.
    Hypothesis HUok : uok rs U.
    Hypothesis Hgo : good rs U fo.
    Hypothesis Hgn : good rs U fn.
    Hypothesis Hpop : popc pop fo fn.
    Hypothesis Hpatch : mkpatch (make_pre (ldiff rs fo fn pop)) ord = POk pt.
    Hypothesis Hord : undo_first_b pt rs = true \/ Q rs ord.

    Notation slot := (slot_of rmatch rs).
    Notation ekey := (ekey rmatch rs).
    Notation lkeys := (lkeys rmatch rs).
    Notation unk := (unk rmatch rs).
    Notation lvl_uniq := (lvl_uniq rmatch rs).
    Notation sfind := (sfind rmatch rs).

    Let HU : lvl_ok rmatch rreverse is_exit rs U := proj1 (uok_inv rs U HUok).
    Let HUnd : NoDup (keys U) := proj1 (proj2 (uok_inv rs U HUok)).
    Let HUkids := proj2 (proj2 (uok_inv rs U HUok)).
    Let Hko : NoDup (keys fo) := proj1 (good_inv rs U fo Hgo).
    Let Huo : lvl_uniq fo := proj1 (proj2 (good_inv rs U fo Hgo)).
    Let Hio : forall e, In e fo -> In (fst e) (keys U) := proj1 (proj2 (proj2 (good_inv rs U fo Hgo))).
    Let Hkn : NoDup (keys fn) := proj1 (good_inv rs U fn Hgn).
    Let Hun : lvl_uniq fn := proj1 (proj2 (good_inv rs U fn Hgn)).
    Let Hin : forall e, In e fn -> In (fst e) (keys U) := proj1 (proj2 (proj2 (good_inv rs U fn Hgn))).

    Let ao := annot_f rs fo.
    Let an := annot_f rs fn.
    Let d := ldiff rs fo fn pop.

    (* a slot of the universe *)
    Definition uslot (s : minfo) : Prop := exists r, In r (keys U) /\ slot r = Some s.

    Lemma uslot_allow s : uslot s -> allow_A s = true.
    Proof.
      intros (r & Hr & Hs). destruct (in_keys_tfind r U Hr) as (tu & Htu).
      unfold slot_of in Hs. destruct (match_row rmatch r rs) as [[s0 crs]|] eqn:E; [|discriminate].
      cbn in Hs. injection Hs as <-. apply (HUkids r tu s0 crs Htu E).
    Qed.

    Lemma uslot_eq s s' : uslot s -> uslot s' -> key_of s' = key_of s -> s' = s.
    Proof. intros (r & Hr & Hs) (r' & Hr' & Hs') Hk. exact (minfo_eq rs U r s r' s' HU Hr Hs Hr' Hs' Hk). Qed.

    Lemma annot_default f : rows_in U f -> all_default (annot_f rs f).
    Proof.
      intros Hi [[r m] sub] Hk. apply annot_in in Hk as (t & crs & Hin' & Hm & _). cbn [ami fst snd].
      assert (Hs : uslot m).
      { exists r. split; [apply (Hi (r, t) Hin') | unfold slot_of; rewrite Hm; reflexivity]. }
      apply allow_A_default. apply uslot_allow. exact Hs.
    Qed.

    Lemma entry_uslot f r t m crs : rows_in U f -> In (r, t) f -> match_row rmatch r rs = Some (m, crs) -> uslot m.
    Proof. intros Hi Hin' Hm. exists r. split; [apply (Hi (r, t) Hin') | unfold slot_of; rewrite Hm; reflexivity]. Qed.

    (* every diff entry of the level is the entry of a known row of old or new *)
    Lemma node_univ nd : In nd d ->
      uslot (d_mi nd) /\ slot (d_row nd) = Some (d_mi nd) /\ In (d_row nd) (keys U).
    Proof.
      intro Hnd. unfold d, ldiff in Hnd.
      eapply Permutation_in in Hnd; [|apply lvl_diff_perm; apply annot_default; assumption].
      apply in_app_or in Hnd as [Hnd|Hnd]; apply in_map_iff in Hnd as ([[r m] sub] & <- & Hk).
      - unfold nn. rewrite mark_mi, newnode_mi, mark_row.
        assert (Er : d_row (newnode (annot_f rs fo) pop false (r, m, sub)) = r).
        { unfold newnode. destruct (alookup _ _) as [[? ?]|]; reflexivity. }
        rewrite Er. cbn [ami fst snd]. apply annot_in in Hk as (t & crs & Hin' & Hm & _).
        split; [exact (entry_uslot fn r t m crs Hin Hin' Hm)|]. split; [unfold slot_of; rewrite Hm; reflexivity | apply (Hin (r, t) Hin')].
      - apply filter_In in Hk as [Hk _]. unfold mkrem. cbn [d_mi d_row ami arow fst snd].
        apply annot_in in Hk as (t & crs & Hin' & Hm & _).
        split; [exact (entry_uslot fo r t m crs Hio Hin' Hm)|]. split; [unfold slot_of; rewrite Hm; reflexivity | apply (Hio (r, t) Hin')].
    Qed.

    (* ---------- the patch of the level, slot by slot ---------- *)
    Notation slot_items := (slot_items rmatch rsrc rrev block_exit rreverse).
    Notation conv_flat := (conv_flat rmatch rsrc rrev block_exit rreverse).
    Notation cn := (cn rmatch rsrc rrev block_exit rreverse).
    Notation items_match := (items_match rmatch rsrc rrev block_exit rreverse).
    Notation dir_item := (dir_item rmatch rsrc rrev block_exit rreverse).
    Notation rev_item := (rev_item rreverse).
    Notation belongs := (belongs rmatch rreverse rs).
    Notation uitem := (uitem rmatch rreverse rs U).

    Let es := map make_pre_n d.
    Let flat := flat_groups (group_all es).
    Definition esk (e : string * attrs * list string * list pitem) : string * list string :=
      (fst (fst (fst e)), snd (fst e)).
    Definition eR (e : string * attrs * list string * list pitem) (its : list item) : Prop :=
      slot_items ord (conv_flat e) = Some its.

    Lemma Forall2_map_l {A B C} (g : A -> B) (P : B -> C -> Prop) l l' :
      Forall2 P (map g l) l' -> Forall2 (fun a c => P (g a) c) l l'.
    Proof.
      revert l'. induction l as [|a l IHl]; intros l' H; inversion H; subst; constructor; auto.
    Qed.

    Lemma patch_decomp : exists ll, pt = PT (sort_items (List.concat ll)) /\ Forall2 eR flat ll.
    Proof.
      pose proof Hpatch as H. fold d in H. rewrite make_pre_groups in H. fold es in H.
      rewrite make_patch_unfold in H. fold flat in H.
      destruct (all_some (map (slot_items ord) (map conv_flat flat))) as [ll|] eqn:E; [|discriminate].
      injection H as <-. exists ll. split; [reflexivity|].
      apply all_some_map in E. apply Forall2_map_l in E. exact E.
    Qed.

    Lemma make_pre_n_fields nd :
      pe_raw (make_pre_n nd) = mi_raw (d_mi nd) /\ pe_attrs (make_pre_n nd) = mi_attrs (d_mi nd) /\
      pe_key (make_pre_n nd) = mi_key (d_mi nd).
    Proof. destruct nd as [o row m k]. repeat split. Qed.

    Lemma in_slot_e_nslot s nd : in_slot_e (mi_raw s) (mi_key s) (make_pre_n nd) = nslot s nd.
    Proof.
      unfold in_slot_e, nslot, same_slot. destruct (make_pre_n_fields nd) as (-> & _ & ->). reflexivity.
    Qed.

    (* an element of the flattened grouping is the slot of a universe minfo *)
    Lemma entry_slot e : In e flat ->
      exists s, uslot s /\ esk e = key_of s /\
                conv_flat e = (mi_raw s, mi_attrs s, mi_key s, map cn (filter (nslot s) d)) /\
                filter (nslot s) d <> [].
    Proof.
      destruct e as [[[raw a] key] its0]. intro He.
      destruct (flat_group_all es raw a key its0 He) as (Hits & Hne & e0 & He0 & Hr0 & Ha0).
      unfold es in Hits, He0. rewrite filter_map_comm in Hits.
      apply in_map_iff in He0 as (n0 & <- & Hn0).
      destruct (filter (fun x => in_slot_e raw key (make_pre_n x)) d) as [|n1 rest] eqn:Ef.
      { subst its0. cbn in Hne. congruence. }
      assert (Hn1 : In n1 d /\ in_slot_e raw key (make_pre_n n1) = true).
      { apply (filter_In (fun x => in_slot_e raw key (make_pre_n x))). rewrite Ef. now left. }
      destruct Hn1 as [Hn1 Hs1]. unfold in_slot_e in Hs1. apply andb_true_iff in Hs1 as [Hs1 Hs2].
      apply String.eqb_eq in Hs1. apply list_str_eqb_eq in Hs2.
      destruct (make_pre_n_fields n1) as (F1 & _ & F3). rewrite F1 in Hs1. rewrite F3 in Hs2.
      destruct (make_pre_n_fields n0) as (G1 & G2 & _). rewrite G1 in Hr0. rewrite G2 in Ha0.
      destruct (node_univ n1 Hn1) as ((r1 & Hr1 & Hsl1) & _ & _).
      destruct (node_univ n0 Hn0) as ((r0 & Hr0' & Hsl0) & _ & _).
      exists (d_mi n1). split; [exists r1; auto|]. split; [unfold esk, key_of; cbn; congruence|].
      assert (Ha : a = mi_attrs (d_mi n1)).
      { rewrite <- Ha0. apply (lo_attrs _ _ _ _ _ HU r1 (d_mi n1) r0 (d_mi n0) Hr1 Hsl1 Hr0' Hsl0). congruence. }
      split.
      - unfold ConvergePre.conv_flat. cbn [fst snd]. rewrite <- Hs1, <- Hs2, <- Ha. f_equal.
        subst its0. rewrite <- Ef. rewrite !map_map.
        replace (filter (nslot (d_mi n1)) d) with (filter (fun x => in_slot_e raw key (make_pre_n x)) d).
        + reflexivity.
        + apply filter_ext. intro x. rewrite <- in_slot_e_nslot. rewrite Hs1, Hs2. reflexivity.
      - replace (filter (nslot (d_mi n1)) d) with (filter (fun x => in_slot_e raw key (make_pre_n x)) d).
        + rewrite Ef. discriminate.
        + apply filter_ext. intro x. rewrite <- in_slot_e_nslot. rewrite Hs1, Hs2. reflexivity.
    Qed.

    (* a slot with entries appears in the flattened grouping *)
    Lemma slot_entry s : filter (nslot s) d <> [] -> exists e, In e flat /\ esk e = key_of s.
    Proof.
      intro Hne. destruct (filter (nslot s) d) as [|n1 rest] eqn:Ef; [congruence|].
      assert (Hn1 : In n1 d /\ nslot s n1 = true) by (apply (filter_In (nslot s)); rewrite Ef; now left).
      destruct Hn1 as [Hn1 Hs1].
      destruct (flat_group_all_complete es (make_pre_n n1) ltac:(unfold es; apply in_map; exact Hn1)) as (a & its & Hin').
      exists (pe_raw (make_pre_n n1), a, pe_key (make_pre_n n1), its). split; [exact Hin'|].
      unfold esk. cbn [fst snd]. destruct (make_pre_n_fields n1) as (-> & _ & ->).
      apply same_slot_iff in Hs1. exact Hs1.
    Qed.

    Lemma flat_nodup : NoDup (map esk flat).
    Proof. apply group_all_slots_NoDup. Qed.

    (* ---------- the diff entries of a universe slot ---------- *)
    Notation added_node := (added_node rmatch).
    Notation removed_node := (removed_node rmatch).
    Notation both_node := (both_node rmatch pop).

    Definition slot_shape (s : minfo) (ns : list dnode) (A R F : option dnode) : Prop :=
      match sfind s fo, sfind s fn with
      | None, None => A = None /\ R = None /\ F = None /\ ns = []
      | None, Some (r', t') =>
        exists crs', match_row rmatch r' rs = Some (s, crs') /\
                     A = Some (added_node r' s crs' t') /\ R = None /\ F = None
      | Some (r, t), None =>
        exists crs, match_row rmatch r rs = Some (s, crs) /\
                    R = Some (removed_node r s crs t) /\ A = None /\ F = None
      | Some (r, t), Some (r', t') =>
        exists crs crs', match_row rmatch r rs = Some (s, crs) /\ match_row rmatch r' rs = Some (s, crs') /\
          if String.eqb r r'
          then A = None /\ R = None /\ pop = Affected /\
               ((d_op (both_node r s crs crs' t t') = Affected /\ F = Some (both_node r s crs crs' t t')) \/
                (d_op (both_node r s crs crs' t t') = Unchanged /\ F = None))
          else A = Some (added_node r' s crs' t') /\ R = Some (removed_node r s crs t) /\ F = None
      end.

    Lemma pick_one o x : pick o [x] = if op_eqb (d_op x) o then [x] else [].
    Proof. reflexivity. Qed.

    Lemma sfind_uslot f s0 r t : (forall e, In e f -> In (fst e) (keys U)) -> sfind s0 f = Some (r, t) ->
      exists m crs, match_row rmatch r rs = Some (m, crs) /\ key_of m = key_of s0 /\ uslot m /\ In (r, t) f.
    Proof.
      intros Hi Hs. destruct (sfind_match rmatch rs s0 f r t Hs) as (m & crs & Hm & Hk & Hin').
      exists m, crs. repeat split; auto. exists r. split; [apply (Hi (r, t) Hin') | unfold slot_of; rewrite Hm; reflexivity].
    Qed.

    Lemma slot_picks s : uslot s ->
      let ns := filter (nslot s) d in
      exists A R F, pick Added ns = optl A /\ pick Removed ns = optl R /\ pick Affected ns = optl F /\
                    pick Moved ns = [] /\ (F <> None -> R = None /\ A = None) /\ slot_shape s ns A R F.
    Proof.
      intros Hs ns.
      pose proof (slot_case rmatch rs fo fn pop Huo Hun Hko (annot_default fo Hio) (annot_default fn Hin) s) as Hc.
      cbv zeta in Hc. fold (ldiff rs fo fn pop) in Hc. fold d in Hc. fold ns in Hc. unfold slot_shape.
      destruct (sfind s fo) as [[r t]|] eqn:Eo; destruct (sfind s fn) as [[r' t']|] eqn:En.
      - destruct Hc as (m & crs & m' & crs' & Hm & Hm' & Hc).
        destruct (sfind_uslot fo s r t Hio Eo) as (m1 & crs1 & Hm1 & Hk1 & Hu1 & _).
        destruct (sfind_uslot fn s r' t' Hin En) as (m2 & crs2 & Hm2 & Hk2 & Hu2 & _).
        rewrite Hm in Hm1. injection Hm1 as <- <-. rewrite Hm' in Hm2. injection Hm2 as <- <-.
        pose proof (uslot_eq s m Hs Hu1 Hk1) as E1. pose proof (uslot_eq s m' Hs Hu2 Hk2) as E2. subst m m'.
        assert (Hp : pop = Affected).
        { destruct Hpop as [Hp|[[_ Hp]|[_ Hp]]]; [exact Hp | |]; subst; discriminate. }
        destruct (String.eqb r r') eqn:Err.
        + rewrite Hc. rewrite !pick_one.
          assert (Hop : d_op (both_node r s crs crs' t t') = Affected \/ d_op (both_node r s crs crs' t t') = Unchanged).
          { unfold ConvergeNodes.both_node. rewrite Hp. cbn [mark_unchanged_n op_eqb d_op].
            destruct (forallb _ _); auto. }
          destruct Hop as [Hop|Hop]; rewrite Hop; cbn [op_eqb].
          * exists None, None, (Some (both_node r s crs crs' t t')). repeat split; auto.
            exists crs, crs'. repeat split; auto.
          * exists None, None, None. repeat split; auto; try congruence.
            exists crs, crs'. repeat split; auto.
        + exists (Some (added_node r' s crs' t')), (Some (removed_node r s crs t)), None.
          assert (HP : forall o, Permutation (pick o ns) (pick o [added_node r' s crs' t'; removed_node r s crs t])).
          { intro o. apply Permutation_filter. exact Hc. }
          repeat split; try (apply (perm_short _ (Some _)); apply HP); try (apply (perm_short _ None); apply HP);
            try congruence.
          exists crs, crs'. repeat split; auto.
      - destruct Hc as (m & crs & Hm & Hc).
        destruct (sfind_uslot fo s r t Hio Eo) as (m1 & crs1 & Hm1 & Hk1 & Hu1 & _).
        rewrite Hm in Hm1. injection Hm1 as <- <-. pose proof (uslot_eq s m Hs Hu1 Hk1) as E1. subst m.
        rewrite Hc. exists None, (Some (removed_node r s crs t)), None. repeat split; auto; try congruence.
        exists crs. repeat split; auto.
      - destruct Hc as (m' & crs' & Hm' & Hc).
        destruct (sfind_uslot fn s r' t' Hin En) as (m2 & crs2 & Hm2 & Hk2 & Hu2 & _).
        rewrite Hm' in Hm2. injection Hm2 as <- <-. pose proof (uslot_eq s m' Hs Hu2 Hk2) as E2. subst m'.
        rewrite Hc. exists (Some (added_node r' s crs' t')), None, None. repeat split; auto; try congruence.
        exists crs'. repeat split; auto.
      - rewrite Hc. exists None, None, None. repeat split; auto; congruence.
    Qed.

    (* ---------- the items of a slot belong to the slot ---------- *)
    Definition onode (o : outcome) : option dnode :=
      match o with ODirect x | ORevDirect x => Some x | _ => None end.


    Lemma plan_node L A R F x : onode (plan L A R F) = Some x -> A = Some x \/ R = Some x \/ F = Some x.
    Proof.
      assert (D : forall A R F, onode (default_plan A R F) = Some x -> A = Some x \/ R = Some x \/ F = Some x).
      { intros [a|] [r|] [f|]; cbn; intro H; try discriminate; injection H as <-; auto. }
      destruct L; cbn [ConvergeSlot.plan]; try apply D.
      - destruct R as [r|]; [|apply D]. destruct (ne r); cbn; intro H; [injection H as <-; auto | discriminate].
      - destruct A as [a|], R as [r|]; try apply D. cbn. discriminate.
      - destruct A as [a|], R as [r|], F as [f|]; try apply D. cbn. intro H. injection H as <-. auto.
    Qed.

    Lemma optl_in {A} (o : option A) x : o = Some x -> In x (optl o).
    Proof. intros ->. now left. Qed.

    Definition item_of_slot (s : minfo) (it : item) : Prop :=
      (irow it = rev_of s /\ ichild it = None) \/
      (exists x, In x d /\ nslot s x = true /\ dir_item ord x it).

    Lemma items_match_of_slot s ns A R F its :
      ns = filter (nslot s) d ->
      pick Added ns = optl A -> pick Removed ns = optl R -> pick Affected ns = optl F ->
      items_match ord (a_pat (mi_attrs s)) (mi_key s) (plan (a_logic (mi_attrs s)) A R F) its ->
      forall it, In it its -> item_of_slot s it.
    Proof.
      intros Hns HA HR HF Hm it Hit.
      assert (Hnode : forall x, onode (plan (a_logic (mi_attrs s)) A R F) = Some x -> In x d /\ nslot s x = true).
      { intros x Hx. apply plan_node in Hx. apply (filter_In (nslot s)). rewrite <- Hns.
        destruct Hx as [Hx|[Hx|Hx]]; apply optl_in in Hx;
          [rewrite <- HA in Hx | rewrite <- HR in Hx | rewrite <- HF in Hx]; apply filter_In in Hx; tauto. }
      destruct (plan (a_logic (mi_attrs s)) A R F) as [|x| |x]; cbn [ConvergeSlot.items_match] in Hm.
      - subst its. destruct Hit.
      - destruct Hm as (i & -> & Hd). destruct Hit as [<-|[]]. right. exists x.
        destruct (Hnode x eq_refl). auto.
      - destruct Hm as (i & -> & Hr). destruct Hit as [<-|[]]. left. exact Hr.
      - destruct Hm as (i & j & -> & Hr & Hd). destruct Hit as [<-|[<-|[]]]; [left; exact Hr|].
        right. exists x. destruct (Hnode x eq_refl). auto.
    Qed.

    Lemma item_own s it : uslot s -> item_of_slot s it ->
      belongs s it = true /\
      (forall s', uslot s' -> key_of s' <> key_of s -> belongs s' it = false) /\
      uitem it /\ is_exit (irow it) = false.
    Proof.
      intros (r0 & Hr0 & Hs0) [[Hrow Hch]|(x & Hx & Hsx & Hd)].
      - assert (Hnm : slot (irow it) = None).
        { rewrite Hrow. unfold slot_of. rewrite (lo_rev_unmatched _ _ _ _ _ HU r0 s Hr0 Hs0). reflexivity. }
        repeat split.
        + unfold ConvergeRun.belongs. rewrite Hnm, Hrow. apply String.eqb_refl.
        + intros s' (r' & Hr' & Hs') Hne. unfold ConvergeRun.belongs. rewrite Hnm, Hrow.
          destruct (String.eqb_spec (rev_of s) (rev_of s')) as [E|E]; [|reflexivity].
          exfalso. apply Hne. exact (lo_rev_inj _ _ _ _ _ HU r0 s r' s' Hr0 Hs0 Hr' Hs' (eq_sym E)).
        + eapply ui_reverse; eauto.
        + rewrite Hrow. exact (lo_rev_not_exit _ _ _ _ _ HU r0 s Hr0 Hs0).
      - destruct (node_univ x Hx) as (Hux & Hsl & HrU). destruct Hd as (Hrow & _).
        assert (Ex : d_mi x = s).
        { apply (uslot_eq s (d_mi x)); [exists r0; auto | exact Hux | apply same_slot_iff; exact Hsx]. }
        assert (Hsl' : slot (irow it) = Some s) by (unfold irow; rewrite Hrow, Hsl, Ex; reflexivity).
        repeat split.
        + unfold ConvergeRun.belongs. rewrite Hsl'. apply same_slot_refl.
        + intros s' _ Hne. unfold ConvergeRun.belongs. rewrite Hsl'. apply same_slot_false_iff. congruence.
        + eapply ui_direct; [|exact Hsl']. unfold irow. rewrite Hrow. exact HrU.
        + unfold irow. rewrite Hrow. exact (lo_row_not_exit _ _ _ _ _ HU (d_row x) (d_mi x) HrU Hsl).
    Qed.

    (* what the patch holds for an element of the flattened grouping *)
    Lemma entry_items e its : In e flat -> eR e its ->
      exists s A R F, uslot s /\ esk e = key_of s /\ filter (nslot s) d <> [] /\
        pick Added (filter (nslot s) d) = optl A /\ pick Removed (filter (nslot s) d) = optl R /\
        pick Affected (filter (nslot s) d) = optl F /\
        slot_shape s (filter (nslot s) d) A R F /\
        items_match ord (a_pat (mi_attrs s)) (mi_key s) (plan (a_logic (mi_attrs s)) A R F) its /\
        (forall x, plan (a_logic (mi_attrs s)) A R F = ORevDirect x ->
                   exists i j, its = [i; j] /\
                     snd i = key_of_cmd rmatch rsrc rrev block_exit ord (mi_raw s) (rev_of s) false /\
                     snd j = key_of_cmd rmatch rsrc rrev block_exit ord (mi_raw s) (d_row x) true).
    Proof.
      intros He HR. destruct (entry_slot e He) as (s & Hs & Hk & Hconv & Hne).
      destruct (slot_picks s Hs) as (A & R & F & HA & HRm & HF & HM & HFx & Hshape).
      exists s, A, R, F.
      unfold eR in HR. rewrite Hconv in HR.
      destruct (allow_A_default s (uslot_allow s Hs)) as (_ & Hfc & HL).
      split; [exact Hs|]. split; [exact Hk|]. split; [exact Hne|]. split; [exact HA|]. split; [exact HRm|].
      split; [exact HF|]. split; [exact Hshape|]. split.
      - eapply slot_items_plan; eauto.
      - intros x Hx. exact (slot_items_keys rmatch rsrc rrev block_exit rreverse ord (mi_raw s) (mi_attrs s) (mi_key s)
                              (a_logic (mi_attrs s)) _ A R F its x eq_refl Hfc HA HRm HF HM HFx HL HR Hx).
    Qed.

    Lemma entry_items_own e its : In e flat -> eR e its ->
      exists s, uslot s /\ esk e = key_of s /\ forall it, In it its -> item_of_slot s it.
    Proof.
      intros He HR. destruct (entry_items e its He HR) as (s & A & R & F & Hs & Hk & _ & HA & HRm & HF & _ & Hm & _).
      exists s. split; [exact Hs|]. split; [exact Hk|].
      eapply items_match_of_slot; eauto.
    Qed.

    (* the items of the unsorted patch that act on a universe slot *)
    Theorem slot_filter ll s : Forall2 eR flat ll -> uslot s ->
      (filter (nslot s) d = [] /\ filter (belongs s) (List.concat ll) = []) \/
      (exists e its, In e flat /\ esk e = key_of s /\ eR e its /\ filter (belongs s) (List.concat ll) = its).
    Proof.
      intros HF Hs.
      assert (Hown : forall e its, In e flat -> eR e its -> esk e = key_of s -> filter (belongs s) its = its).
      { intros e its He HR Hk. destruct (entry_items_own e its He HR) as (s' & Hs' & Hk' & Hall).
        assert (E : s' = s) by (apply (uslot_eq s s' Hs Hs'); congruence). subst s'.
        apply filter_all. intros it Hit. apply (item_own s it Hs (Hall it Hit)). }
      assert (Hother : forall e its, In e flat -> eR e its -> esk e <> key_of s -> filter (belongs s) its = []).
      { intros e its He HR Hk. destruct (entry_items_own e its He HR) as (s' & Hs' & Hk' & Hall).
        apply filter_none. intros it Hit. destruct (item_own s' it Hs' (Hall it Hit)) as (_ & Ho & _).
        apply Ho; [exact Hs | congruence]. }
      destruct (filter (nslot s) d) as [|x rest] eqn:Ens.
      - left. split; [reflexivity|].
        apply (owned_none eR esk (belongs s) (key_of s) flat Hother flat ll HF (incl_refl _)).
        intros e He Hk. destruct (entry_slot e He) as (s' & Hs' & Hk' & _ & Hne).
        assert (E : s' = s) by (apply (uslot_eq s s' Hs Hs'); congruence). subst s'. congruence.
      - right. destruct (slot_entry s ltac:(rewrite Ens; discriminate)) as (e & He & Hk).
        destruct (owned_hit eR esk (belongs s) (key_of s) flat Hown Hother flat ll HF (incl_refl _) flat_nodup e He Hk)
          as (its & HR & Hfil).
        exists e, its. auto.
    Qed.

    (* ---------- the sorted patch of the level ---------- *)
    Lemma filter_two {A} (p : A -> bool) l a b : filter p l = [a; b] -> exists l1 l2, l = l1 ++ a :: l2 /\ In b l2.
    Proof.
      induction l as [|x l IHl]; cbn; intro H; [discriminate|].
      destruct (p x) eqn:E.
      - injection H as -> H. exists [], l. split; [reflexivity|].
        assert (Hb : In b (filter p l)) by (rewrite H; now left). apply filter_In in Hb. tauto.
      - destruct (IHl H) as (l1 & l2 & -> & Hb). exists (x :: l1), l2. auto.
    Qed.

    Lemma forall2_concat_in {A B} (R : A -> list B -> Prop) l ll x :
      Forall2 R l ll -> In x (List.concat ll) -> exists a its, In a l /\ R a its /\ In x its.
    Proof.
      induction 1 as [|e its fl l0 HR HF IHF]; intro H; [destruct H|].
      cbn [List.concat] in H. apply in_app_or in H as [H|H].
      - exists e, its. split; [now left | auto].
      - destruct (IHF H) as (e' & its' & He' & HR' & Hit). exists e', its'. split; [now right | auto].
    Qed.

    Section WithLL.
      Variable ll : list (list item).
      Hypothesis Hll : Forall2 eR flat ll.
      Hypothesis Hpt : pt = PT (sort_items (List.concat ll)).
      Let out := List.concat ll.
      Let items := sort_items out.

      Lemma items_perm : Permutation items out.
      Proof. unfold items, sort_items. apply sort_perm. Qed.

      Lemma out_item it : In it out -> exists e its, In e flat /\ eR e its /\ In it its.
      Proof. apply (forall2_concat_in eR flat ll it Hll). Qed.

      Lemma out_own it : In it out -> exists s, uslot s /\ item_of_slot s it.
      Proof.
        intro H. destruct (out_item it H) as (e & its & He & HR & Hit).
        destruct (entry_items_own e its He HR) as (s & Hs & _ & Hall). exists s. auto.
      Qed.

      Lemma items_in it : In it items <-> In it out.
      Proof. split; apply Permutation_in; [apply items_perm | apply Permutation_sym, items_perm]. Qed.

      Lemma items_uitem : Forall uitem items.
      Proof.
        apply Forall_forall. intros it Hit. apply items_in in Hit. destruct (out_own it Hit) as (s & Hs & Ho).
        apply (item_own s it Hs Ho).
      Qed.

      Lemma items_not_exit it : In it items -> is_exit (irow it) = false.
      Proof.
        intro Hit. apply items_in in Hit. destruct (out_own it Hit) as (s & Hs & Ho). apply (item_own s it Hs Ho).
      Qed.

      (* the run of the level, slot by slot *)
      Lemma run_level s : uslot s ->
        lgood rmatch rs U (run_pt pt rs fo) /\ unk (run_pt pt rs fo) = unk fo /\
        sfind s (run_pt pt rs fo) =
        fold_left (fun o i => step rmatch rreverse is_exit rs i o) (filter (belongs s) items) (sfind s fo).
      Proof.
        intros (r & Hr & Hs). rewrite Hpt, run_pt_fold. fold out items.
        apply (run_items_slot rmatch rreverse is_exit rs U HU r s Hr Hs items fo items_uitem).
        split; [exact Huo | exact Hio].
      Qed.

      Lemma irow_belongs s i j : irow i = irow j -> belongs s i = belongs s j.
      Proof. intro E. unfold ConvergeRun.belongs. rewrite E. reflexivity. Qed.

      (* the items of a slot in the sorted patch: those of the unsorted one, the removal first *)
      Lemma slot_sorted s its o : uslot s -> filter (belongs s) out = its ->
        items_match ord (a_pat (mi_attrs s)) (mi_key s) o its ->
        (forall x, onode o = Some x -> slot (d_row x) = Some s) ->
        (Q rs ord -> forall i j, its = [i; j] -> ileb i j = true) ->
        filter (belongs s) items = its.
      Proof.
        intros Hs Hf Hm Hnode Hkeys.
        assert (Hp : Permutation (filter (belongs s) items) its).
        { rewrite <- Hf. apply Permutation_filter. apply items_perm. }
        destruct o as [|x| |x]; cbn [ConvergeSlot.items_match] in Hm.
        - rewrite Hm in Hp |- *. apply Permutation_nil. apply Permutation_sym. exact Hp.
        - destruct Hm as (i & Ei & _). rewrite Ei in Hp |- *. apply Permutation_length_1_inv. apply Permutation_sym. exact Hp.
        - destruct Hm as (i & Ei & _). rewrite Ei in Hp |- *. apply Permutation_length_1_inv. apply Permutation_sym. exact Hp.
        - destruct Hm as (i & j & Eij & Hi & Hj). rewrite Eij in Hp |- *.
          destruct Hord as [Hundo|Hno].
          2: { (* no %order_reverse: the stable sort keeps the removal first *)
               unfold items. rewrite sort_items_ileb.
               pose proof (sort_filter_commute ileb ileb_total ileb_trans (belongs s) out) as Ec.
               assert (E2 : stable_sort ileb (filter (belongs s) out) = stable_sort ileb [i; j])
                 by (f_equal; rewrite <- Eij; exact Hf).
               etransitivity; [symmetry; exact Ec|]. etransitivity; [exact E2|].
               cbn [stable_sort fold_right insert_by]. rewrite (Hkeys Hno i j Eij). reflexivity. }
          apply Permutation_sym, Permutation_length_2_inv in Hp as [Hp|Hp]; [exact Hp|]. exfalso.
          destruct (filter_two _ _ _ _ Hp) as (l1 & l2 & El & Hin2).
          destruct Hj as (Hrowj & _). specialize (Hnode x eq_refl).
          unfold slot_of in Hnode. destruct (match_row rmatch (d_row x) rs) as [[s0 crs]|] eqn:Em; [|discriminate].
          cbn in Hnode. injection Hnode as ->.
          pose proof Hundo as Hu'. rewrite Hpt in Hu'. fold out items in Hu'. rewrite El in Hu'.
          assert (Em' : match_row rmatch (irow j) rs = Some (s, crs)) by (unfold irow; rewrite Hrowj; exact Em).
          destruct (undo_first_split l1 j l2 rs s crs Hu' Em') as [Hno _].
          apply Hno. destruct Hi as (Hrowi & _). apply in_map_iff. exists i. split; [exact Hrowi | exact Hin2].
      Qed.

      (* ---------- children, through the induction hypothesis ---------- *)
      Lemma fsize_pos f : 1 <= fsize f.
      Proof. unfold fsize. cbn. lia. Qed.

      Lemma step_direct it x crs o : dir_item ord x it -> match_row rmatch (d_row x) rs = Some (d_mi x, crs) ->
        exists ct, mkpatch (make_pre (d_kids x)) (snd (get_order rmatch rsrc rrev block_exit ord (d_row x) true (Some "patch"))) = POk ct /\
                   (ichild it = Some ct \/ ichild it = None) /\
                   step rmatch rreverse is_exit rs it o =
                   Some (d_row x, T (run_pt ct crs (direct_sub rmatch (d_row x) crs o))).
      Proof.
        intros (Hrow & ct & Hct & Hch) Hm. exists ct. split; [exact Hct|].
        unfold ConvergeRun.step, irow, ichild. rewrite Hrow, Hm.
        destruct Hch as [Hch|[Hch Hp]]; rewrite Hch.
        - split; [now left | reflexivity].
        - split; [now right|]. destruct ct as [its]. cbn in Hp. subst its. reflexivity.
      Qed.

      Lemma child_undo it ct s crs : In it items -> ichild it = Some ct -> match_row rmatch (irow it) rs = Some (s, crs) ->
        undo_first_b ct crs = true \/
        Q crs (snd (get_order rmatch rsrc rrev block_exit ord (irow it) true (Some "patch"))).
      Proof.
        intros Hit Hch Hm. destruct Hord as [Hundo|Hno].
        - left. apply in_split in Hit as (l1 & l2 & El).
          pose proof Hundo as Hu'. rewrite Hpt in Hu'. fold out items in Hu'. rewrite El in Hu'.
          destruct (undo_first_split l1 it l2 rs s crs Hu' Hm) as [_ H]. rewrite Hch in H. exact H.
        - right.
          assert (Hx : is_empty block_exit = true \/ irow it <> block_exit).
          { destruct Hbx as [Hb|Hb]; [now left|]. right. intro E. pose proof (items_not_exit it Hit) as Hne. congruence. }
          exact (Q_child rs ord (irow it) s crs Hno Hm Hx).
      Qed.

      (* enter does nothing on a Tier-A block *)
      Lemma enter_tierA r tu s crs sub : In (r, tu) U -> match_row rmatch r rs = Some (s, crs) ->
        rows_in (kids tu) sub -> enter rmatch crs sub = sub.
      Proof.
        intros Htu Hm Hsub. destruct (HUkids r tu s crs Htu Hm) as (_ & Huc).
        destruct (uok_inv crs (kids tu) Huc) as (_ & _ & Hk).
        apply enter_id. intros e m He Hs. destruct e as [r0 t0]. cbn [fst] in Hs.
        destruct (in_keys_tfind r0 (kids tu) (Hsub (r0, t0) He)) as (tu0 & Htu0).
        unfold slot_of in Hs. destruct (match_row rmatch r0 crs) as [[m0 crs0]|] eqn:E; [|discriminate].
        cbn in Hs. injection Hs as <-. destruct (Hk r0 tu0 m0 crs0 Htu0 E) as (Hal & _).
        apply allow_A_default in Hal as (Hd & _). unfold is_rewrite. unfold mi_dlogic in Hd. rewrite Hd. reflexivity.
      Qed.

      Let Hsubo := proj2 (proj2 (proj2 (proj2 (good_inv rs U fo Hgo)))).
      Let Hsubn := proj2 (proj2 (proj2 (proj2 (good_inv rs U fn Hgn)))).
      Let Hwfo := proj1 (proj2 (proj2 (proj2 (good_inv rs U fo Hgo)))).

      Lemma child_prows it ct : ichild it = Some ct \/ ichild it = None -> prows_ok is_exit ct ->
        match ichild it with Some c => c = ct | None => True end ->
        match ichild it with Some c => prows_ok is_exit c | None => True end.
      Proof. intros [H|H] Hp Hc; rewrite H in *; [subst; exact Hp | exact I]. Qed.

      (* a direct item whose entry is the ADDED entry of a row of new *)
      Lemma run_added s r' crs' t' tu it o :
        In (r', t') fn -> match_row rmatch r' rs = Some (s, crs') -> In (r', tu) U ->
        dir_item ord (added_node r' s crs' t') it -> In it items ->
        direct_sub rmatch r' crs' o = [] ->
        exists t1, step rmatch rreverse is_exit rs it o = Some (r', t1) /\
                   sim (kids t1) (kids (erase (annot crs' t'))) /\ wf (kids t1) /\
                   good crs' (kids tu) (kids t1) /\
                   match ichild it with Some c => prows_ok is_exit c | None => True end.
      Proof.
        intros Hin' Hm Htu Hd Hit Hsub.
        destruct (HUkids r' tu s crs' Htu Hm) as (_ & Huc).
        pose proof (Hsubn r' t' tu s crs' Hin' Htu Hm) as Hgc.
        pose proof (annot_tier (kids t') crs' (kids tu) Huc Hgc) as Htier.
        destruct (step_direct it (added_node r' s crs' t') crs' o Hd Hm) as (ct & Hct & Hch & Hstep).
        cbn [d_row ConvergeNodes.added_node] in Hstep. rewrite Hsub in Hstep.
        rewrite kids_added in Hct by exact Htier.
        assert (Hund : undo_first_b ct crs' = true \/
                       Q crs' (snd (get_order rmatch rsrc rrev block_exit ord (d_row (added_node r' s crs' t')) true (Some "patch")))).
        { destruct Hch as [Hch|Hch].
          - assert (Hrow : irow it = d_row (added_node r' s crs' t')) by (destruct Hd as (Hrow & _); exact Hrow).
            assert (Hm' : match_row rmatch (irow it) rs = Some (s, crs')) by (rewrite Hrow; exact Hm).
            destruct (child_undo it ct s crs' Hit Hch Hm') as [H|H]; [now left | right; rewrite <- Hrow; exact H].
          - left. destruct Hd as (_ & ct' & Hct' & [Hc'|[_ Hp]]); [unfold ichild in *; congruence|].
            rewrite kids_added in Hct' by exact Htier. rewrite Hct in Hct'. injection Hct' as <-.
            destruct ct as [l]. cbn in Hp. subst l. reflexivity. }
        assert (Hsz' : fsize [] + fsize (kids t') < n).
        { pose proof (fsize_in r' t' fn Hin'). pose proof (fsize_pos fo). change (fsize []) with 1. lia. }
        destruct (IH crs' (kids tu) [] (kids t') Added _ ct Hsz' Huc (good_nil crs' (kids tu)) Hgc
                     (or_intror (or_introl (conj eq_refl eq_refl))) Hct Hund) as (Hsim & Hgood & Hprows).
        exists (T (run_pt ct crs' [])). split; [exact Hstep|]. cbn [kids].
        rewrite erase_annot, <- (expected_nil crs'). split; [exact Hsim|]. split; [apply (good_wf _ _ _ Hgood)|].
        split; [exact Hgood|].
        destruct Hd as (_ & ct' & Hct' & Hc'). rewrite kids_added in Hct' by exact Htier.
        rewrite Hct in Hct'. injection Hct' as <-.
        unfold ichild. destruct Hc' as [Hc'|[Hc' _]]; rewrite Hc'; [exact Hprows | exact I].
      Qed.

      (* ... the REMOVED entry of a row of old (permanent logic: the block is emptied) *)
      Lemma run_removed s r crs t tu it :
        In (r, t) fo -> match_row rmatch r rs = Some (s, crs) -> In (r, tu) U ->
        dir_item ord (removed_node r s crs t) it -> In it items ->
        exists t1, step rmatch rreverse is_exit rs it (Some (r, t)) = Some (r, t1) /\
                   sim (kids t1) (expected_t t crs []) /\ wf (kids t1) /\
                   good crs (kids tu) (kids t1) /\
                   match ichild it with Some c => prows_ok is_exit c | None => True end.
      Proof.
        intros Hin' Hm Htu Hd Hit.
        destruct (HUkids r tu s crs Htu Hm) as (_ & Huc).
        pose proof (Hsubo r t tu s crs Hin' Htu Hm) as Hgc.
        pose proof (annot_tier (kids t) crs (kids tu) Huc Hgc) as Htier.
        destruct (step_direct it (removed_node r s crs t) crs (Some (r, t)) Hd Hm) as (ct & Hct & Hch & Hstep).
        cbn [d_row ConvergeNodes.removed_node mkrem arow fst] in Hstep.
        unfold direct_sub in Hstep. cbn [fst snd] in Hstep. rewrite String.eqb_refl in Hstep.
        rewrite (enter_tierA r tu s crs (kids t) Htu Hm) in Hstep by (apply (good_inv _ _ _ Hgc)).
        rewrite kids_removed in Hct by exact Htier.
        assert (Hund : undo_first_b ct crs = true \/
                       Q crs (snd (get_order rmatch rsrc rrev block_exit ord (d_row (removed_node r s crs t)) true (Some "patch")))).
        { destruct Hch as [Hch|Hch].
          - assert (Hrow : irow it = d_row (removed_node r s crs t)) by (destruct Hd as (Hrow & _); exact Hrow).
            assert (Hm' : match_row rmatch (irow it) rs = Some (s, crs)) by (rewrite Hrow; exact Hm).
            destruct (child_undo it ct s crs Hit Hch Hm') as [H|H]; [now left | right; rewrite <- Hrow; exact H].
          - left. destruct Hd as (_ & ct' & Hct' & [Hc'|[_ Hp]]); [unfold ichild in *; congruence|].
            rewrite kids_removed in Hct' by exact Htier. rewrite Hct in Hct'. injection Hct' as <-.
            destruct ct as [l]. cbn in Hp. subst l. reflexivity. }
        assert (Hsz' : fsize (kids t) + fsize [] < n).
        { pose proof (fsize_in r t fo Hin'). pose proof (fsize_pos fn). change (fsize []) with 1. lia. }
        destruct (IH crs (kids tu) (kids t) [] Removed _ ct Hsz' Huc Hgc (good_nil crs (kids tu))
                     (or_intror (or_intror (conj eq_refl eq_refl))) Hct Hund) as (Hsim & Hgood & Hprows).
        exists (T (run_pt ct crs (kids t))). split; [exact Hstep|]. cbn [kids].
        rewrite tree_eta, annot_f_nil in Hsim. split; [exact Hsim|]. split; [apply (good_wf _ _ _ Hgood)|].
        split; [exact Hgood|].
        destruct Hd as (_ & ct' & Hct' & Hc'). rewrite kids_removed in Hct' by exact Htier.
        rewrite Hct in Hct'. injection Hct' as <-.
        unfold ichild. destruct Hc' as [Hc'|[Hc' _]]; rewrite Hc'; [exact Hprows | exact I].
      Qed.

      (* ... the AFFECTED entry of a row on both sides *)
      Lemma run_both s r crs t t' tu it :
        In (r, t) fo -> In (r, t') fn -> match_row rmatch r rs = Some (s, crs) -> In (r, tu) U ->
        dir_item ord (ConvergeNodes.both_node rmatch Affected r s crs crs t t') it -> In it items ->
        exists t1, step rmatch rreverse is_exit rs it (Some (r, t)) = Some (r, t1) /\
                   sim (kids t1) (expected_t t crs (annot_f crs (kids t'))) /\ wf (kids t1) /\
                   good crs (kids tu) (kids t1) /\
                   match ichild it with Some c => prows_ok is_exit c | None => True end.
      Proof.
        intros Hino Hinn Hm Htu Hd Hit.
        destruct (HUkids r tu s crs Htu Hm) as (_ & Huc).
        pose proof (Hsubo r t tu s crs Hino Htu Hm) as Hgco.
        pose proof (Hsubn r t' tu s crs Hinn Htu Hm) as Hgcn.
        assert (Hrowb : d_row (ConvergeNodes.both_node rmatch Affected r s crs crs t t') = r).
        { unfold ConvergeNodes.both_node. rewrite mark_row. reflexivity. }
        assert (Hmib : d_mi (ConvergeNodes.both_node rmatch Affected r s crs crs t t') = s).
        { unfold ConvergeNodes.both_node. rewrite mark_mi. reflexivity. }
        assert (Hm' : match_row rmatch (d_row (ConvergeNodes.both_node rmatch Affected r s crs crs t t')) rs = Some (d_mi (ConvergeNodes.both_node rmatch Affected r s crs crs t t'), crs))
          by (rewrite Hrowb, Hmib; exact Hm).
        destruct (step_direct it (ConvergeNodes.both_node rmatch Affected r s crs crs t t') crs (Some (r, t)) Hd Hm') as (ct & Hct & Hch & Hstep).
        rewrite Hrowb in Hstep. unfold direct_sub in Hstep. cbn [fst snd] in Hstep. rewrite String.eqb_refl in Hstep.
        rewrite (enter_tierA r tu s crs (kids t) Htu Hm) in Hstep by (apply (good_inv _ _ _ Hgco)).
        rewrite kids_both, Hrowb in Hct.
        assert (Hund : undo_first_b ct crs = true \/
                       Q crs (snd (get_order rmatch rsrc rrev block_exit ord r true (Some "patch")))).
        { destruct Hch as [Hch|Hch].
          - assert (Hrow : irow it = r) by (destruct Hd as (Hrow & _); unfold irow; rewrite Hrow, Hrowb; reflexivity).
            assert (Hm2 : match_row rmatch (irow it) rs = Some (s, crs)) by (rewrite Hrow; exact Hm).
            destruct (child_undo it ct s crs Hit Hch Hm2) as [H|H]; [now left | right; rewrite <- Hrow; exact H].
          - left. destruct Hd as (_ & ct' & Hct' & [Hc'|[_ Hpp]]); [unfold ichild in *; congruence|].
            rewrite kids_both, Hrowb in Hct'. rewrite Hct in Hct'. injection Hct' as <-.
            destruct ct as [l]. cbn in Hpp. subst l. reflexivity. }
        assert (Hsz' : fsize (kids t) + fsize (kids t') < n).
        { pose proof (fsize_in r t fo Hino). pose proof (fsize_in r t' fn Hinn). lia. }
        destruct (IH crs (kids tu) (kids t) (kids t') Affected _ ct Hsz' Huc Hgco Hgcn (or_introl eq_refl) Hct Hund)
          as (Hsim & Hgood & Hprows).
        exists (T (run_pt ct crs (kids t))). split; [exact Hstep|]. cbn [kids].
        rewrite tree_eta in Hsim. split; [exact Hsim|]. split; [apply (good_wf _ _ _ Hgood)|].
        split; [exact Hgood|].
        destruct Hd as (_ & ct' & Hct' & Hc'). rewrite kids_both, Hrowb in Hct'.
        rewrite Hct in Hct'. injection Hct' as <-.
        unfold ichild. destruct Hc' as [Hc'|[Hc' _]]; rewrite Hc'; [exact Hprows | exact I].
      Qed.

      (* nothing emitted: the block is already what is expected *)
      Lemma still_both s r crs t t' tu :
        In (r, t) fo -> In (r, t') fn -> match_row rmatch r rs = Some (s, crs) -> In (r, tu) U ->
        d_op (ConvergeNodes.both_node rmatch Affected r s crs crs t t') = Unchanged ->
        sim (kids t) (expected_t t crs (annot_f crs (kids t'))).
      Proof.
        intros Hino Hinn Hm Htu Hop.
        destruct (HUkids r tu s crs Htu Hm) as (_ & Huc).
        pose proof (Hsubo r t tu s crs Hino Htu Hm) as Hgco.
        pose proof (Hsubn r t' tu s crs Hinn Htu Hm) as Hgcn.
        assert (Hsz' : fsize (kids t) + fsize (kids t') < n).
        { pose proof (fsize_in r t fo Hino). pose proof (fsize_in r t' fn Hinn). lia. }
        pose proof (patch_unchanged _ [] (both_unchanged r s crs t t' Hop)) as Hct.
        destruct (IH crs (kids tu) (kids t) (kids t') Affected [] (PT []) Hsz' Huc Hgco Hgcn (or_introl eq_refl) Hct (or_introl eq_refl))
          as (Hsim & _ & _).
        rewrite tree_eta in Hsim. exact Hsim.
      Qed.

      Lemma still_removed s r crs t tu :
        In (r, t) fo -> match_row rmatch r rs = Some (s, crs) -> In (r, tu) U ->
        ne (removed_node r s crs t) = false -> sim (kids t) (expected_t t crs []).
      Proof.
        intros Hin' Hm Htu Hne.
        destruct (HUkids r tu s crs Htu Hm) as (_ & Huc).
        pose proof (Hsubo r t tu s crs Hin' Htu Hm) as Hgc.
        pose proof (annot_tier (kids t) crs (kids tu) Huc Hgc) as Htier.
        assert (Hk : ldiff crs (kids t) [] Removed = []).
        { rewrite <- (kids_removed r s crs t Htier). unfold ne in Hne.
          destruct (pgroups (make_pre (d_kids (removed_node r s crs t)))) eqn:E; [|discriminate].
          apply make_pre_nil in E. exact E. }
        assert (Hsz' : fsize (kids t) + fsize [] < n).
        { pose proof (fsize_in r t fo Hin'). pose proof (fsize_pos fn). change (fsize []) with 1. lia. }
        assert (Hct : mkpatch (make_pre (ldiff crs (kids t) [] Removed)) [] = POk (PT [])) by (rewrite Hk; reflexivity).
        destruct (IH crs (kids tu) (kids t) [] Removed [] (PT []) Hsz' Huc Hgc (good_nil crs (kids tu))
                     (or_intror (or_intror (conj eq_refl eq_refl))) Hct (or_introl eq_refl)) as (Hsim & _ & _).
        rewrite tree_eta, annot_f_nil in Hsim. exact Hsim.
      Qed.

      (* ---------- one slot: the run reaches what is expected ---------- *)
      Notation stepf := (fun o i => step rmatch rreverse is_exit rs i o).

      Definition slot_concl (s : minfo) (its : list item) : Prop :=
        let res := fold_left stepf its (sfind s fo) in
        osim res (exp_slot rmatch rs fn fo s) /\
        (forall r t1, res = Some (r, t1) ->
                      In r (keys U) /\ wf (kids t1) /\
                      forall tu crs, In (r, tu) U -> match_row rmatch r rs = Some (s, crs) -> good crs (kids tu) (kids t1)) /\
        (forall it, In it its -> match ichild it with Some c => prows_ok is_exit c | None => True end).

      Lemma univ_entry r tu tu' : In (r, tu) U -> In (r, tu') U -> tu' = tu.
      Proof. intros H1 H2. exact (nodup_entry U r tu' tu HUnd H2 H1). Qed.

      (* an entry of old that the run leaves alone *)
      Lemma keep_old s r t crs t2 : sfind s fo = Some (r, t) -> match_row rmatch r rs = Some (s, crs) ->
        In (r, t) fo -> exp_slot rmatch rs fn fo s = Some (r, t2) -> sim (kids t) (kids t2) ->
        slot_concl s [].
      Proof.
        intros Eo Hm Hin' Hexp Hsim. unfold slot_concl. cbn [fold_left]. rewrite Eo, Hexp. split; [split; [reflexivity | exact Hsim]|].
        split; [|intros it []]. intros r0 t1 E. injection E as <- <-.
        split; [apply (Hio (r, t) Hin')|]. split; [apply (Hwfo r t Hin')|].
        intros tu crs0 Htu Hm0. rewrite Hm in Hm0. injection Hm0 as <-. eapply Hsubo; eauto.
      Qed.

      Lemma exp_slot_new s r' t' crs' : sfind s fo = None -> sfind s fn = Some (r', t') ->
        match_row rmatch r' rs = Some (s, crs') ->
        exp_slot rmatch rs fn fo s = Some (r', erase (annot crs' t')).
      Proof.
        intros Eo En Hm. unfold exp_slot. rewrite Eo, afind_slot_annot, En, Hm. reflexivity.
      Qed.

      Lemma exp_slot_old s r t crs : sfind s fo = Some (r, t) -> match_row rmatch r rs = Some (s, crs) ->
        exp_slot rmatch rs fn fo s =
        hd_error
          match sfind s fn with
          | Some (r', t') =>
            match match_row rmatch r' rs with
            | Some (_, crs') =>
              if String.eqb r r' then [(r, T (expected_t t crs (annot_f crs' (kids t'))))]
              else match a_logic (mi_attrs s) with
                   | LIgnoreChanges => [(r, t)]
                   | LPermanent => [(r, T (expected_t t crs []))]
                   | _ => [(r', erase (annot crs' t'))]
                   end
            | None => match a_logic (mi_attrs s) with LPermanent => [(r, T (expected_t t crs []))] | _ => [] end
            end
          | None => match a_logic (mi_attrs s) with LPermanent => [(r, T (expected_t t crs []))] | _ => [] end
          end.
      Proof.
        intros Eo Hm. unfold exp_slot, exp_entry. rewrite Eo, Hm, afind_slot_annot.
        destruct (sfind s fn) as [[r' t']|]; [|reflexivity].
        destruct (match_row rmatch r' rs) as [[m' crs']|]; [|reflexivity].
        rewrite annot_akids. reflexivity.
      Qed.

      Lemma good_at s r tu crs t1 : In (r, tu) U -> match_row rmatch r rs = Some (s, crs) -> good crs (kids tu) (kids t1) ->
        forall tu0 crs0, In (r, tu0) U -> match_row rmatch r rs = Some (s, crs0) -> good crs0 (kids tu0) (kids t1).
      Proof.
        intros Htu Hm Hg tu0 crs0 Htu0 Hm0. rewrite Hm in Hm0. injection Hm0 as <-.
        rewrite (univ_entry r tu tu0 Htu Htu0). exact Hg.
      Qed.

      Theorem slot_core s A R F its : uslot s -> slot_shape s (filter (nslot s) d) A R F ->
        items_match ord (a_pat (mi_attrs s)) (mi_key s) (plan (a_logic (mi_attrs s)) A R F) its ->
        (forall it, In it its -> In it items) -> slot_concl s its.
      Proof.
        intros Hs Hshape Hm Hitems.
        destruct (allow_A_default s (uslot_allow s Hs)) as (_ & _ & HL).
        destruct Hs as (r0 & Hr0 & Hs0).
        assert (Hrevm : match_row rmatch (rev_of s) rs = None) by exact (lo_rev_unmatched _ _ _ _ _ HU r0 s Hr0 Hs0).
        unfold slot_shape in Hshape.
        destruct (sfind s fo) as [[r t]|] eqn:Eo; destruct (sfind s fn) as [[r' t']|] eqn:En.
        - (* the slot is occupied on both sides *)
          destruct Hshape as (crs & crs' & Hmo & Hmn & Hshape).
          destruct (sfind_in rmatch rs s fo _ Eo) as [Hino _]. destruct (sfind_in rmatch rs s fn _ En) as [Hinn _].
          destruct (in_keys_tfind r U (Hio (r, t) Hino)) as (tu & Htu).
          destruct (String.eqb r r') eqn:Err.
          + apply String.eqb_eq in Err. subst r'. rewrite Hmo in Hmn. injection Hmn as <-.
            destruct Hshape as (-> & -> & Hp & [[Hop ->]|[Hop ->]]).
            * (* changed below: the block is entered *)
              assert (Hpl : plan (a_logic (mi_attrs s)) None None (Some (both_node r s crs crs t t')) = ODirect (both_node r s crs crs t t')).
              { destruct HL as [HL|[HL|[HL|HL]]]; rewrite HL; reflexivity. }
              rewrite Hpl in Hm. destruct Hm as (i & -> & Hd).
              rewrite Hp in Hd.
              destruct (run_both s r crs t t' tu i Hino Hinn Hmo Htu Hd (Hitems i (or_introl eq_refl)))
                as (t1 & Hstep & Hsim & Hwf & Hgood & Hpr).
              unfold slot_concl. cbn [fold_left]. rewrite Eo, Hstep.
              rewrite (exp_slot_old s r t crs Eo Hmo), En, Hmo, String.eqb_refl. cbn [hd_error osim kids].
              split; [split; [reflexivity | exact Hsim]|]. split.
              -- intros r1 t2 E. injection E as <- <-. split; [apply (Hio (r, t) Hino)|]. split; [exact Hwf|].
                 apply (good_at s r tu crs t1 Htu Hmo Hgood).
              -- intros it [<-|[]]. exact Hpr.
            * (* nothing changed below *)
              assert (Hpl : plan (a_logic (mi_attrs s)) None None None = ONone).
              { destruct HL as [HL|[HL|[HL|HL]]]; rewrite HL; reflexivity. }
              rewrite Hpl in Hm. cbn in Hm. subst its.
              rewrite Hp in Hop.
              apply (keep_old s r t crs (T (expected_t t crs (annot_f crs (kids t')))) Eo Hmo Hino).
              -- rewrite (exp_slot_old s r t crs Eo Hmo), En, Hmo, String.eqb_refl. reflexivity.
              -- cbn [kids]. apply (still_both s r crs t t' tu Hino Hinn Hmo Htu Hop).
          + (* the row of the slot is replaced *)
            destruct Hshape as (-> & -> & ->).
            destruct (in_keys_tfind r' U (Hin (r', t') Hinn)) as (tu' & Htu').
            assert (Hexp : exp_slot rmatch rs fn fo s =
                           hd_error match a_logic (mi_attrs s) with
                                    | LIgnoreChanges => [(r, t)]
                                    | LPermanent => [(r, T (expected_t t crs []))]
                                    | _ => [(r', erase (annot crs' t'))]
                                    end).
            { rewrite (exp_slot_old s r t crs Eo Hmo), En, Hmn, Err. reflexivity. }
            assert (Hds : direct_sub rmatch r' crs' (Some (r, t)) = []).
            { unfold direct_sub. cbn [fst]. rewrite Err. reflexivity. }
            destruct HL as [HL|[HL|[HL|HL]]]; rewrite HL in Hm, Hexp; cbn [ConvergeSlot.plan default_plan] in Hm.
            * (* default: overwritten *)
              destruct Hm as (i & -> & Hd).
              destruct (run_added s r' crs' t' tu' i (Some (r, t)) Hinn Hmn Htu' Hd (Hitems i (or_introl eq_refl)) Hds)
                as (t1 & Hstep & Hsim & Hwf & Hgood & Hpr).
              unfold slot_concl. cbn [fold_left]. rewrite Eo, Hstep, Hexp. cbn [hd_error osim].
              split; [split; [reflexivity | exact Hsim]|]. split.
              -- intros r1 t2 E. injection E as <- <-. split; [apply (Hin (r', t') Hinn)|]. split; [exact Hwf|].
                 apply (good_at s r' tu' crs' t1 Htu' Hmn Hgood).
              -- intros it [<-|[]]. exact Hpr.
            * (* undo_redo: removed, then created *)
              destruct Hm as (i & j & -> & (Hri & Hci) & Hd).
              destruct (run_added s r' crs' t' tu' j None Hinn Hmn Htu' Hd (Hitems j (or_intror (or_introl eq_refl))) eq_refl)
                as (t1 & Hstep & Hsim & Hwf & Hgood & Hpr).
              assert (Hsi : step rmatch rreverse is_exit rs i (Some (r, t)) = None).
              { apply step_none. unfold irow. rewrite Hri. exact Hrevm. }
              unfold slot_concl. cbn [fold_left]. rewrite Eo, Hsi, Hstep, Hexp. cbn [hd_error osim].
              split; [split; [reflexivity | exact Hsim]|]. split.
              -- intros r1 t2 E. injection E as <- <-. split; [apply (Hin (r', t') Hinn)|]. split; [exact Hwf|].
                 apply (good_at s r' tu' crs' t1 Htu' Hmn Hgood).
              -- intros it [<-|[<-|[]]]; [unfold ichild; rewrite Hci; exact I | exact Hpr].
            * (* permanent: the old row stays, its block is emptied *)
              destruct (ne (removed_node r s crs t)) eqn:Ene.
              -- destruct Hm as (i & -> & Hd).
                 destruct (run_removed s r crs t tu i Hino Hmo Htu Hd (Hitems i (or_introl eq_refl)))
                   as (t1 & Hstep & Hsim & Hwf & Hgood & Hpr).
                 unfold slot_concl. cbn [fold_left]. rewrite Eo, Hstep, Hexp. cbn [hd_error osim kids].
                 split; [split; [reflexivity | exact Hsim]|]. split.
                 ++ intros r1 t2 E. injection E as <- <-. split; [apply (Hio (r, t) Hino)|]. split; [exact Hwf|].
                    apply (good_at s r tu crs t1 Htu Hmo Hgood).
                 ++ intros it [<-|[]]. exact Hpr.
              -- cbn in Hm. subst its.
                 apply (keep_old s r t crs (T (expected_t t crs [])) Eo Hmo Hino Hexp).
                 cbn [kids]. apply (still_removed s r crs t tu Hino Hmo Htu Ene).
            * (* ignore_changes: declined *)
              cbn in Hm. subst its.
              apply (keep_old s r t crs t Eo Hmo Hino Hexp). apply sim_refl.
        - (* the slot is emptied *)
          destruct Hshape as (crs & Hmo & -> & -> & ->).
          destruct (sfind_in rmatch rs s fo _ Eo) as [Hino _].
          destruct (in_keys_tfind r U (Hio (r, t) Hino)) as (tu & Htu).
          assert (Hexp : exp_slot rmatch rs fn fo s =
                         hd_error match a_logic (mi_attrs s) with LPermanent => [(r, T (expected_t t crs []))] | _ => [] end).
          { rewrite (exp_slot_old s r t crs Eo Hmo), En. reflexivity. }
          assert (Hrev : forall i, rev_item (a_pat (mi_attrs s)) (mi_key s) i ->
                                   a_logic (mi_attrs s) <> LPermanent -> slot_concl s [i]).
          { intros i (Hri & Hci) Hnp. unfold slot_concl. cbn [fold_left]. rewrite Eo.
            rewrite step_none by (unfold irow; rewrite Hri; exact Hrevm). rewrite Hexp.
            destruct (a_logic (mi_attrs s)); try congruence; cbn [hd_error osim];
              (split; [exact I|]); (split; [intros ? ? E; discriminate|]);
              intros it [<-|[]]; unfold ichild; rewrite Hci; exact I. }
          destruct HL as [HL|[HL|[HL|HL]]]; rewrite HL in Hm, Hexp; cbn [ConvergeSlot.plan default_plan] in Hm.
          + destruct Hm as (i & -> & Hri). apply (Hrev i Hri). congruence.
          + destruct Hm as (i & -> & Hri). apply (Hrev i Hri). congruence.
          + destruct (ne (removed_node r s crs t)) eqn:Ene.
            * destruct Hm as (i & -> & Hd).
              destruct (run_removed s r crs t tu i Hino Hmo Htu Hd (Hitems i (or_introl eq_refl)))
                as (t1 & Hstep & Hsim & Hwf & Hgood & Hpr).
              unfold slot_concl. cbn [fold_left]. rewrite Eo, Hstep, Hexp. cbn [hd_error osim kids].
              split; [split; [reflexivity | exact Hsim]|]. split.
              -- intros r1 t2 E. injection E as <- <-. split; [apply (Hio (r, t) Hino)|]. split; [exact Hwf|].
                 apply (good_at s r tu crs t1 Htu Hmo Hgood).
              -- intros it [<-|[]]. exact Hpr.
            * cbn in Hm. subst its.
              apply (keep_old s r t crs (T (expected_t t crs [])) Eo Hmo Hino Hexp).
              cbn [kids]. apply (still_removed s r crs t tu Hino Hmo Htu Ene).
          + destruct Hm as (i & -> & Hri). apply (Hrev i Hri). congruence.
        - (* the slot is created *)
          destruct Hshape as (crs' & Hmn & -> & -> & ->).
          destruct (sfind_in rmatch rs s fn _ En) as [Hinn _].
          destruct (in_keys_tfind r' U (Hin (r', t') Hinn)) as (tu' & Htu').
          assert (Hpl : plan (a_logic (mi_attrs s)) (Some (added_node r' s crs' t')) None None = ODirect (added_node r' s crs' t')).
          { destruct HL as [HL|[HL|[HL|HL]]]; rewrite HL; reflexivity. }
          rewrite Hpl in Hm. destruct Hm as (i & -> & Hd).
          destruct (run_added s r' crs' t' tu' i None Hinn Hmn Htu' Hd (Hitems i (or_introl eq_refl)) eq_refl)
            as (t1 & Hstep & Hsim & Hwf & Hgood & Hpr).
          unfold slot_concl. cbn [fold_left]. rewrite Eo, Hstep, (exp_slot_new s r' t' crs' Eo En Hmn). cbn [osim].
          split; [split; [reflexivity | exact Hsim]|]. split.
          + intros r1 t2 E. injection E as <- <-. split; [apply (Hin (r', t') Hinn)|]. split; [exact Hwf|].
            apply (good_at s r' tu' crs' t1 Htu' Hmn Hgood).
          + intros it [<-|[]]. exact Hpr.
        - (* the slot is free on both sides *)
          destruct Hshape as (-> & -> & -> & _).
          assert (Hpl : plan (a_logic (mi_attrs s)) None None None = ONone).
          { destruct HL as [HL|[HL|[HL|HL]]]; rewrite HL; reflexivity. }
          rewrite Hpl in Hm. cbn in Hm. subst its. unfold slot_concl. cbn [fold_left]. rewrite Eo.
          unfold exp_slot. rewrite Eo, afind_slot_annot, En. cbn [option_map osim].
          split; [exact I|]. split; [intros ? ? E; discriminate | intros it []].
      Qed.

      (* ---------- all slots ---------- *)
      Lemma plan_none L : plan L None None None = ONone.
      Proof. destruct L; reflexivity. Qed.

      Lemma optl_nil {A} (o : option A) : [] = optl o -> o = None.
      Proof. destruct o; [discriminate | reflexivity]. Qed.

      Lemma onode_slot s A R F x : uslot s ->
        pick Added (filter (nslot s) d) = optl A -> pick Removed (filter (nslot s) d) = optl R ->
        pick Affected (filter (nslot s) d) = optl F ->
        onode (plan (a_logic (mi_attrs s)) A R F) = Some x -> slot (d_row x) = Some s.
      Proof.
        intros Hs HA HR HF Hx. apply plan_node in Hx.
        assert (Hin' : In x (filter (nslot s) d)).
        { destruct Hx as [Hx|[Hx|Hx]]; apply optl_in in Hx;
            [rewrite <- HA in Hx | rewrite <- HR in Hx | rewrite <- HF in Hx]; apply filter_In in Hx; tauto. }
        apply filter_In in Hin' as [Hxd Hxs]. destruct (node_univ x Hxd) as (Hux & Hsl & _).
        rewrite Hsl. f_equal. apply (uslot_eq s (d_mi x) Hs Hux). apply same_slot_iff. exact Hxs.
      Qed.

      Theorem slot_all s : uslot s ->
        exists its, filter (belongs s) items = its /\ slot_concl s its /\ NoDup (map irow its).
      Proof.
        intro Hs.
        assert (Hrevn : slot (rev_of s) = None).
        { destruct Hs as (r0 & Hr0 & Hs0). unfold slot_of. rewrite (lo_rev_unmatched _ _ _ _ _ HU r0 s Hr0 Hs0). reflexivity. }
        assert (Hnd : forall o its, items_match ord (a_pat (mi_attrs s)) (mi_key s) o its ->
                                    (forall x, onode o = Some x -> slot (d_row x) = Some s) -> NoDup (map irow its)).
        { intros o its Hm Hnode. destruct o as [|x| |x]; cbn [ConvergeSlot.items_match] in Hm.
          - subst its. constructor.
          - destruct Hm as (i & -> & _). repeat constructor. intros [].
          - destruct Hm as (i & -> & _). repeat constructor. intros [].
          - destruct Hm as (i & j & -> & (Hri & _) & (Hrj & _)). cbn [map]. constructor; [|repeat constructor; intros []].
            intros [E|[]]. specialize (Hnode x eq_refl). unfold irow in E. rewrite Hri, Hrj in E.
            change (rreverse (a_pat (mi_attrs s)) (mi_key s)) with (rev_of s) in E. rewrite E in Hnode. congruence. }
        destruct (slot_filter ll s Hll Hs) as [[Hns Hout]|(e & its & He & Hk & HRe & Hout)].
        - destruct (slot_picks s Hs) as (A & R & F & HA & HR & HF & _ & _ & Hshape). cbv zeta in *.
          rewrite Hns in HA, HR, HF. cbn in HA, HR, HF.
          apply optl_nil in HA, HR, HF. subst A R F.
          assert (Hm : items_match ord (a_pat (mi_attrs s)) (mi_key s) (plan (a_logic (mi_attrs s)) None None None) [])
            by (rewrite plan_none; reflexivity).
          assert (Hnode : forall x, onode (plan (a_logic (mi_attrs s)) None None None) = Some x -> slot (d_row x) = Some s)
            by (rewrite plan_none; discriminate).
          exists []. split; [apply (slot_sorted s [] _ Hs Hout Hm Hnode); intros _ i j E; discriminate|]. split; [|constructor].
          apply (slot_core s None None None [] Hs Hshape Hm). intros it [].
        - destruct (entry_items e its He HRe) as (s' & A & R & F & Hs' & Hk' & _ & HA & HR & HF & Hshape & Hm & Hkeys).
          assert (E : s' = s) by (apply (uslot_eq s s' Hs Hs'); congruence). subst s'.
          pose proof (onode_slot s A R F) as Hnode.
          assert (Hsorted : filter (belongs s) items = its).
          { apply (slot_sorted s its _ Hs Hout Hm); [intros x Hx; apply (Hnode x Hs HA HR HF Hx)|].
            intros Hno i j Eij.
            destruct (plan (a_logic (mi_attrs s)) A R F) as [|x|  |x] eqn:Epl; cbn [ConvergeSlot.items_match] in Hm.
            - rewrite Hm in Eij. discriminate.
            - destruct Hm as (i0 & E0 & _). rewrite E0 in Eij. discriminate.
            - destruct Hm as (i0 & E0 & _). rewrite E0 in Eij. discriminate.
            - destruct (Hkeys x eq_refl) as (i' & j' & E' & Ki & Kj). rewrite E' in Eij. injection Eij as <- <-.
              unfold ileb. rewrite Ki, Kj. unfold key_of_cmd.
              assert (Hsx : slot (d_row x) = Some s) by (apply (Hnode x Hs HA HR HF); reflexivity).
              destruct Hs as (r0 & Hr0 & Hs0).
              assert (Hx1 : is_empty block_exit = true \/ rev_of s <> block_exit).
              { destruct Hbx as [Hb|Hb]; [now left|]. right. intro Eb.
                pose proof (lo_rev_not_exit _ _ _ _ _ HU r0 s Hr0 Hs0) as Hne. congruence. }
              assert (Hx2 : is_empty block_exit = true \/ d_row x <> block_exit).
              { destruct Hbx as [Hb|Hb]; [now left|]. right. intro Eb.
                assert (Hxd : In x d).
                { assert (Hp : onode (plan (a_logic (mi_attrs s)) A R F) = Some x) by (rewrite Epl; reflexivity).
                  apply plan_node in Hp. destruct Hp as [Hp|[Hp|Hp]]; apply optl_in in Hp;
                    [rewrite <- HA in Hp | rewrite <- HR in Hp | rewrite <- HF in Hp]; apply filter_In in Hp as [Hp _];
                    apply filter_In in Hp; tauto. }
                destruct (node_univ x Hxd) as (_ & Hsl & HrU).
                pose proof (lo_row_not_exit _ _ _ _ _ HU (d_row x) (d_mi x) HrU Hsl) as Hne. congruence. }
              apply (Q_keys rs ord r0 s (d_row x) Hno Hs0 (plan_revdirect _ _ _ _ _ Epl) Hx1 Hx2). }
          exists its. split; [exact Hsorted|]. split.
          + apply (slot_core s A R F its Hs Hshape Hm). intros it Hit. rewrite <- Hsorted in Hit.
            apply filter_In in Hit. tauto.
          + apply (Hnd _ its Hm). intros x Hx. apply (Hnode x Hs HA HR HF Hx).
      Qed.
    End WithLL.

    (* ---------- the level ---------- *)
    Theorem step_claim :
      sim (run_pt pt rs fo) (expected_t (T fo) rs (annot_f rs fn)) /\ good rs U (run_pt pt rs fo) /\
      prows_ok is_exit pt.
    Proof.
      destruct patch_decomp as (ll & Hpt & Hll).
      set (items := sort_items (List.concat ll)).
      set (run := run_pt pt rs fo). set (exp := expected_t (T fo) rs (annot_f rs fn)).
      assert (Hlg : lgood rmatch rs U run /\ unk run = unk fo).
      { unfold run. rewrite Hpt, run_pt_fold.
        apply (run_items_good rmatch rreverse is_exit rs U HU _ fo (items_uitem ll Hll)). split; [exact Huo | exact Hio]. }
      destruct Hlg as ((Hur & Hir) & Hunkr).
      assert (Hue : lvl_uniq exp) by (apply expected_uniq; assumption).
      assert (Hunke : unk exp = unk fo) by (apply expected_unk; assumption).
      assert (Hie : rows_in U exp).
      { intros e He. destruct (expected_rows rs fo fn e Hun He) as [H|H];
          apply in_map_iff in H as ([r t] & E & Hin'); cbn in E; rewrite <- E;
          [apply (Hio (r, t) Hin') | apply (Hin (r, t) Hin')]. }
      (* per slot *)
      assert (Hslot : forall s, uslot s ->
                osim (sfind s run) (sfind s exp) /\
                (forall r t1, sfind s run = Some (r, t1) ->
                              wf (kids t1) /\
                              forall tu crs, In (r, tu) U -> match_row rmatch r rs = Some (s, crs) -> good crs (kids tu) (kids t1))).
      { intros s Hs. destruct (slot_all ll Hll Hpt s Hs) as (its & Hfil & (Hos & Hres & _) & _).
        destruct (run_level ll Hll Hpt s Hs) as (_ & _ & Hrun). fold run in Hrun. fold items in Hrun.
        unfold items in Hrun. rewrite Hfil in Hrun.
        unfold exp. rewrite expected_sfind by assumption. rewrite Hrun. split; [exact Hos|].
        intros r t1 E. destruct (Hres r t1 E) as (_ & Hwf & Hg). auto. }
      (* any slot occupied on either side is a slot of the universe *)
      assert (Hocc : forall s f r t, rows_in U f -> sfind s f = Some (r, t) ->
                                     exists s', uslot s' /\ key_of s' = key_of s).
      { intros s f r t Hi Hs. destruct (sfind_uslot f s r t Hi Hs) as (m & crs & _ & Hk & Hu & _). exists m. auto. }
      split; [|split].
      - apply (sim_by_slots rmatch rs run exp Hur Hue); [congruence|]. intro s.
        destruct (sfind s run) as [[r t]|] eqn:Er.
        + destruct (Hocc s run r t Hir Er) as (s' & Hs' & Hk).
          rewrite <- Er. rewrite <- !(sfind_key rmatch rreverse is_exit rs s' s _ Hk). apply (Hslot s' Hs').
        + destruct (sfind s exp) as [[r t]|] eqn:Ee; [|exact I].
          destruct (Hocc s exp r t Hie Ee) as (s' & Hs' & Hk).
          rewrite <- Er, <- Ee. rewrite <- !(sfind_key rmatch rreverse is_exit rs s' s _ Hk). apply (Hslot s' Hs').
      - (* the result is in good shape *)
        assert (Hknown : forall r t1, In (r, t1) run -> forall s crs, match_row rmatch r rs = Some (s, crs) ->
                                      uslot s /\ sfind s run = Some (r, t1)).
        { intros r t1 Hin' s crs Hm. split; [exact (entry_uslot run r t1 s crs Hir Hin' Hm)|].
          apply uniq_sfind; [exact Hur | exact Hin' | eapply match_ekey; eauto]. }
        constructor.
        + apply (uniq_nodup_keys rmatch rs run Hur). rewrite Hunkr. apply nodup_keys_filter. exact Hko.
        + exact Hur.
        + exact Hir.
        + intros r t1 Hin'. destruct (match_row rmatch r rs) as [[s crs]|] eqn:Hm.
          * destruct (Hknown r t1 Hin' s crs Hm) as (Hs & Hf). apply (proj2 (Hslot s Hs) r t1 Hf).
          * assert (Hu : In (r, t1) (unk run)).
            { apply unk_in. split; [exact Hin'|]. unfold ConvergeDevice.ekey, slot_of. cbn [fst]. rewrite Hm. reflexivity. }
            rewrite Hunkr in Hu. apply unk_in in Hu as [Hu _]. apply (proj1 (proj2 (proj2 (proj2 (good_inv rs U fo Hgo)))) r t1 Hu).
        + intros r t1 tu s crs Hin' Htu Hm. destruct (Hknown r t1 Hin' s crs Hm) as (Hs & Hf).
          apply (proj2 (proj2 (Hslot s Hs) r t1 Hf) tu crs Htu Hm).
      - (* rows of the patch *)
        rewrite Hpt. apply prows_ok_intro.
        + apply (nodup_by_filter irow String.eqb); [intros x y; apply String.eqb_eq|].
          intros a Ha. fold items in Ha. apply (items_in ll) in Ha.
          destruct (out_own ll Hll a Ha) as (s & Hs & Ho).
          destruct (slot_all ll Hll Hpt s Hs) as (its & Hfil & _ & Hnd).
          assert (Hba : belongs s a = true) by apply (item_own s a Hs Ho).
          assert (E : filter (fun b => String.eqb (irow b) (irow a)) (sort_items (List.concat ll)) =
                      filter (fun b => String.eqb (irow b) (irow a)) its).
          { rewrite <- Hfil. rewrite filter_filter. apply filter_ext. intro b.
            destruct (String.eqb_spec (irow b) (irow a)) as [Eb|Eb]; [|symmetry; apply andb_false_r].
            rewrite (irow_belongs s b a Eb), Hba. reflexivity. }
          rewrite E. assert (Hain : In a its).
          { rewrite <- Hfil. apply filter_In. split; [apply (items_in ll); exact Ha | exact Hba]. }
          clear - Hnd Hain. induction its as [|b its IHi]; [destruct Hain|]. cbn [map] in Hnd. inversion Hnd; subst. cbn [filter].
          destruct Hain as [->|Hain].
          * rewrite String.eqb_refl. f_equal. apply filter_none. intros c Hc.
            apply String.eqb_neq. intro Ec. apply H1. rewrite <- Ec. apply in_map. exact Hc.
          * destruct (String.eqb_spec (irow b) (irow a)) as [Eb|Eb]; [|auto].
            exfalso. apply H1. rewrite Eb. apply in_map. exact Hain.
        + intros it Hit. split; [apply (items_not_exit ll Hll it Hit)|].
          apply (items_in ll) in Hit. destruct (out_own ll Hll it Hit) as (s & Hs & Ho).
          destruct (slot_all ll Hll Hpt s Hs) as (its & Hfil & (_ & _ & Hpr) & _).
          apply Hpr. rewrite <- Hfil. apply filter_In. split; [apply (items_in ll); exact Hit | apply (item_own s it Hs Ho)].
    Qed.
  End Step.

  (* ---------- the induction ---------- *)
  Theorem main_claim : forall n rs U fo fn pop ord pt, fsize fo + fsize fn < n -> claim rs U fo fn pop ord pt.
  Proof.
    induction n as [|n IHn]; intros rs U fo fn pop ord pt Hsz; [lia|].
    intros HUok Hgo Hgn Hpop Hpatch Hord.
    apply (step_claim n IHn rs U fo fn pop ord pt); auto. lia.
  Qed.

  Corollary converge_run rs U fo fn ord pt :
    uok rs U -> good rs U fo -> good rs U fn ->
    mkpatch (make_pre (ldiff rs fo fn Affected)) ord = POk pt ->
    (undo_first_b pt rs = true \/ Q rs ord) ->
    sim (run_pt pt rs fo) (expected_t (T fo) rs (annot_f rs fn)) /\ good rs U (run_pt pt rs fo) /\
    prows_ok is_exit pt.
  Proof.
    intros. apply (main_claim (S (fsize fo + fsize fn)) rs U fo fn Affected ord pt); auto. left. reflexivity.
  Qed.
End MainQ.
