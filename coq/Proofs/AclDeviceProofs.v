(* C02 proof library, device side: which commands can empty a (rule, key) slot of the top level
   of the reference device (Model/Device.v), and that the ACL-aware pipeline never emits one
   for the slot of a cant_delete row. *)
From Coq Require Import List String Ascii Bool Arith ZArith Lia Permutation.
From Annet Require Import Base.Str Base.Tree Model.Pattern Model.Rulebook Model.Diff Model.Order
     Model.Patch Model.Blocks Model.Pipeline Model.Device Model.Acl Model.AclPipeline
     Spec.PipelineCase Spec.P_C01 Spec.P_C03 Spec.C09Blocks Spec.P_C02
     Proofs.DiffBasics Proofs.DiffProofsLib Proofs.DiffProofsAnnot Proofs.DiffProofsLossless
     Proofs.SortProofs Proofs.BlocksProofs Proofs.AclProofs Proofs.AclPipelineProofs.
Import ListNotations.
Open Scope string_scope.
Open Scope list_scope.

Lemma same_slot_refl a : same_slot a a = true.
Proof. unfold same_slot. rewrite String.eqb_refl, list_str_eqb_refl. reflexivity. Qed.
Lemma same_slot_eq a b : same_slot a b = true <-> mi_raw a = mi_raw b /\ mi_key a = mi_key b.
Proof.
  unfold same_slot. rewrite andb_true_iff, String.eqb_eq. split; intros [H1 H2]; split; try exact H1; apply list_str_eqb_eq; exact H2.
Qed.
Lemma same_slot_sym a b : same_slot a b = same_slot b a.
Proof.
  destruct (same_slot a b) eqn:E1, (same_slot b a) eqn:E2; try reflexivity.
  - apply same_slot_eq in E1 as [H1 H2]. assert (same_slot b a = true) by (apply same_slot_eq; split; congruence). congruence.
  - apply same_slot_eq in E2 as [H1 H2]. assert (same_slot a b = true) by (apply same_slot_eq; split; congruence). congruence.
Qed.
Lemma same_slot_trans a b c : same_slot a b = true -> same_slot b c = true -> same_slot a c = true.
Proof. rewrite !same_slot_eq. intros [H1 H2] [H3 H4]. split; congruence. Qed.

Section DeviceSlots.
  Variable rmatch : string -> string -> option (list string).
  Variable rreverse : string -> list string -> string.
  Variable is_exit : string -> bool.
  Variable rs : rset.

  Notation slot_of := (slot_of rmatch rs).
  Notation in_slot := (in_slot rmatch rs).
  Notation reverse_of := (reverse_of rreverse).

  Definition occupied (s : minfo) (f : forest) : bool := existsb (in_slot s) f.

  Lemma occupied_app s f g : occupied s (f ++ g) = occupied s f || occupied s g.
  Proof. unfold occupied. apply existsb_app. Qed.

  Lemma in_slot_trans s s' e : in_slot s' e = true -> same_slot s' s = true -> in_slot s e = true.
  Proof.
    unfold Device.in_slot. destruct (slot_of (fst e)) as [m|]; [|discriminate].
    intros H1 H2. eapply same_slot_trans; eassumption.
  Qed.

  (* replacing the first entry of slot s' by an entry of slot s' keeps every slot occupied *)
  Lemma replace_slot_occupied s s' e' : in_slot s' e' = true ->
    forall f, occupied s f = true -> occupied s (replace_slot rmatch rs s' e' f) = true.
  Proof.
    intros He'. induction f as [|e f IH]; intros H; [discriminate|]. cbn [replace_slot].
    unfold occupied in *. cbn [existsb] in H.
    destruct (in_slot s' e) eqn:E.
    - cbn [existsb]. destruct (in_slot s e) eqn:E2.
      + (* the occupant of s is replaced: s and s' are the same slot *)
        assert (same_slot s' s = true).
        { unfold Device.in_slot in E, E2. destruct (slot_of (fst e)) as [m|]; [|discriminate].
          rewrite same_slot_sym in E. eapply same_slot_trans; eassumption. }
        rewrite (in_slot_trans _ _ _ He' H0). reflexivity.
      + cbn [orb] in H. rewrite H. apply orb_true_r.
    - cbn [existsb]. destruct (in_slot s e); [reflexivity|]. cbn [orb] in *. apply IH. exact H.
  Qed.

  Lemma remove_slot_occupied s s' : forall f, occupied s f = true -> same_slot s' s = false ->
    occupied s (remove_slot rmatch rs s' f) = true.
  Proof.
    induction f as [|e f IH]; intros H Hd; [discriminate|]. cbn [remove_slot]. unfold occupied in *. cbn [existsb] in H.
    destruct (in_slot s' e) eqn:E.
    - destruct (in_slot s e) eqn:E2; [|exact H].
      exfalso. unfold Device.in_slot in E, E2. destruct (slot_of (fst e)) as [m|]; [|discriminate].
      rewrite same_slot_sym in E. rewrite (same_slot_trans _ _ _ E E2) in Hd. discriminate.
    - cbn [existsb]. destruct (in_slot s e); [reflexivity|]. cbn [orb] in *. apply IH; assumption.
  Qed.

  (* a direct command never empties a slot *)
  Lemma exec_direct_occupied s c s' crs f :
    slot_of c = Some s' -> occupied s f = true -> occupied s (exec_direct rmatch rs c s' crs f) = true.
  Proof.
    intros Hc H. unfold exec_direct.
    assert (Hnew : forall t, in_slot s' (c, t) = true).
    { intro t. unfold Device.in_slot. cbn [fst]. rewrite Hc. apply same_slot_refl. }
    destruct (find (Device.in_slot rmatch rs s') f) as [e|] eqn:Ef.
    - destruct (String.eqb (fst e) c).
      + apply replace_slot_occupied; [apply Hnew | exact H].
      + destruct (is_ordered s').
        * rewrite occupied_app. destruct (same_slot s' s) eqn:Ess.
          -- unfold occupied at 2. cbn [existsb]. rewrite (in_slot_trans _ _ _ (Hnew (T [])) Ess). cbn. apply orb_true_r.
          -- rewrite (remove_slot_occupied _ _ _ H Ess). reflexivity.
        * apply replace_slot_occupied; [apply Hnew | exact H].
    - rewrite occupied_app, H. reflexivity.
  Qed.

  (* a removal command empties only the slots whose entries it hits *)
  Lemma removal_occupied s c f :
    occupied s f = true ->
    (forall e, In e f -> in_slot s e = true -> reverse_hits rmatch rreverse rs c e = false) ->
    occupied s (filter (fun e => negb (reverse_hits rmatch rreverse rs c e)) f) = true.
  Proof.
    intros H Hs. unfold occupied in *. apply existsb_exists in H as (e & He & Hin).
    apply existsb_exists. exists e. split; [|exact Hin]. apply filter_In. split; [exact He|].
    rewrite (Hs e He Hin). reflexivity.
  Qed.

  (* the removal command of every entry of slot s is the removal command of s *)
  Definition slot_det (s : minfo) : Prop :=
    forall row m, slot_of row = Some m -> same_slot m s = true -> reverse_of m = reverse_of s.

  Lemma exec_cmd_occupied s c f :
    slot_det s -> occupied s f = true ->
    (is_exit c = false -> match_row rmatch c rs = None -> c <> reverse_of s) ->
    occupied s (exec_cmd rmatch rreverse is_exit rs c f) = true.
  Proof.
    intros Hdet H Hc. unfold exec_cmd. destruct (is_exit c) eqn:Ee; [exact H|].
    destruct (match_row rmatch c rs) as [[s' crs]|] eqn:Em.
    - apply exec_direct_occupied; [unfold Device.slot_of; rewrite Em; reflexivity | exact H].
    - apply removal_occupied; [exact H|]. intros e He Hin. unfold reverse_hits.
      unfold Device.in_slot in Hin. destruct (slot_of (fst e)) as [m|] eqn:Es; [|reflexivity].
      rewrite (Hdet _ _ Es Hin). apply String.eqb_neq. intro E. apply (Hc eq_refl eq_refl). symmetry. exact E.
  Qed.

  (* a longer path works inside a block: the rows of the level stay *)
  Lemma exec_path_rows c c2 rest f :
    map fst (exec_path rmatch rreverse is_exit rs (c :: c2 :: rest) f) = map fst f.
  Proof.
    cbn [exec_path]. destruct (match_row rmatch c rs) as [[m crs]|]; [|reflexivity].
    induction f as [|[r t] f IH]; [reflexivity|]. destruct (String.eqb r c); cbn [map fst]; [reflexivity|].
    f_equal. exact IH.
  Qed.

  Lemma occupied_rows s f g : map fst f = map fst g -> occupied s f = occupied s g.
  Proof.
    revert g. induction f as [|e f IH]; intros [|e' g] H; try discriminate; [reflexivity|].
    cbn [map] in H. injection H as H1 H2. unfold occupied. cbn [existsb].
    unfold Device.in_slot at 1 3. rewrite H1. f_equal. apply IH. exact H2.
  Qed.

  Lemma exec_path_occupied s p f :
    slot_det s -> occupied s f = true ->
    (forall c, p = [c] -> is_exit c = false -> match_row rmatch c rs = None -> c <> reverse_of s) ->
    occupied s (exec_path rmatch rreverse is_exit rs p f) = true.
  Proof.
    intros Hdet H Hp. destruct p as [|c [|c2 rest]].
    - exact H.
    - cbn [exec_path]. apply exec_cmd_occupied; [exact Hdet | exact H | apply Hp; reflexivity].
    - rewrite (occupied_rows s _ f (exec_path_rows c c2 rest f)). exact H.
  Qed.

  (* the slot stays occupied through a command stream none of whose top-level removal commands
     is the removal command of the slot *)
  Theorem exec_occupied s : slot_det s ->
    forall ps f, occupied s f = true ->
    (forall c, In [c] ps -> is_exit c = false -> match_row rmatch c rs = None -> c <> reverse_of s) ->
    occupied s (exec rmatch rreverse is_exit rs ps f) = true.
  Proof.
    intros Hdet. unfold exec. induction ps as [|p ps IH]; intros f H Hps; [exact H|].
    cbn [fold_left]. apply IH.
    - apply exec_path_occupied; [exact Hdet | exact H|]. intros c E. subst p. apply Hps. now left.
    - intros c Hc. apply Hps. now right.
  Qed.
End DeviceSlots.

(* ------------------------------------------------------------------------------------ *)
(* where REMOVED / MOVED entries of the top level come from                               *)

Lemma diff_t_origin : forall nt ao pop inrw d,
  In d (diff_t nt ao pop inrw) -> d_op d <> Added -> In (d_row d) (arows ao).
Proof.
  intros [nk] ao pop inrw d H Hop. rewrite diff_t_unfold, diff_level_unfold in H.
  apply in_flat_map in H as (L & _ & H).
  assert (HB : forall pop' inrw' mta x, In x (base_diff (filter (inL L) ao) pop' inrw' mta (cks (filter (inL L) nk))) ->
                                        d_op x <> Added -> In (d_row x) (arows ao)).
  { intros pop' inrw' mta x Hx Hox. apply base_diff_In in Hx as [(k & _ & Hrel)|(k & Hk & _ & E)].
    - unfold scan_rel in Hrel. destruct (alookup (arow k) (filter (inL L) ao)) as [[mo so]|] eqn:El.
      + destruct Hrel as (o & _ & E). subst x. cbn [d_row]. apply alookup_Some_In in El.
        apply filter_In in El as [El _]. eapply In_arows. exact El.
      + subst x. cbn [d_op] in Hox. congruence.
    - subst x. unfold mkrem. cbn [d_row]. apply filter_In in Hk as [Hk _]. destruct k as [[r m] c]. eapply In_arows. exact Hk. }
  unfold run_dlogic in H. destruct L; try (eapply HB; eassumption).
  destruct inrw; [eapply HB; eassumption|].
  destruct (all_affected _); [destruct H|].
  unfold aff_to_moved in H. apply in_map_iff in H as (y & Ey & Hy). subst d.
  rewrite aff_to_moved_row. eapply HB; [exact Hy|]. rewrite aff_to_moved_op in Hop.
  intro E. rewrite E in Hop. cbn in Hop. congruence.
Qed.

Section Origin.
  Variable amatch_ : string -> string -> option (list string).
  Variable asrc : string -> string.
  Variable arev : string -> string.
  Variable anorm : string -> string.
  Variable rmatch : string -> string -> option (list string).

  Lemma acl_filter_keys ars : forall f, incl (keys (acl_filter amatch_ asrc arev anorm ars f)) (keys f).
  Proof.
    assert (H : forall l rs path res, apply_acl amatch_ asrc arev anorm rs false false path l = inl res -> incl (keys res) (keys l)).
    { induction l as [|[row c] l IH]; intros rs path res E.
      - rewrite apply_nil in E. injection E as E. subst. apply incl_refl.
      - rewrite apply_cons in E. destruct (match_row_to_acl amatch_ asrc arev anorm row rs false) as [|g|m crs]; try discriminate.
        + intros x Hx. right. eapply IH; eassumption.
        + destruct (drops m).
          * intros x Hx. right. eapply IH; eassumption.
          * destruct (apply_acl amatch_ asrc arev anorm crs false false (path ++ [row]) (kids c)) as [c'|]; [|discriminate].
            destruct (apply_acl amatch_ asrc arev anorm rs false false path l) as [r|] eqn:El; [|discriminate].
            injection E as E. subst res. intros x [Hx|Hx]; [left; exact Hx | right; eapply IH; eassumption]. }
    intros f. unfold acl_filter. destruct (apply_acl amatch_ asrc arev anorm ars false false [] f) as [r|] eqn:E.
    - eapply H. exact E.
    - intros x [].
  Qed.

  (* a REMOVED or MOVED entry of the top level of the diff the patch is made from is a row of the
     filtered old, hence of old *)
  Lemma full_diff_origin_f ars rs old new n :
    In n (acl_make_diff amatch_ asrc arev anorm rmatch ars rs
            (acl_filter amatch_ asrc arev anorm ars old) (acl_filter amatch_ asrc arev anorm ars new)) ->
    is_rm (d_op n) = true -> In (d_row n) (keys (acl_filter amatch_ asrc arev anorm ars old)).
  Proof.
    intros H Hrm. unfold acl_make_diff, mark_unchanged in H.
    apply in_map_iff in H as (n1 & E1 & H). unfold AclPipeline.apply_acl_diff in H.
    apply in_flat_map in H as (n0 & H0 & H).
    assert (Hrow : d_row n = d_row n0 /\ d_op n0 = d_op n).
    { destruct n0 as [o0 r0 m0 k0]. cbn [AclPipeline.apply_acl_diff_n] in H.
      destruct (acl_match amatch_ asrc arev anorm r0 ars) as [|g|m crs]; [destruct H | destruct H |].
      destruct H as [H|[]]. subst n1. cbn [mark_unchanged_n] in E1.
      destruct (op_eqb (if op_eqb o0 Removed && all_cd m then Affected else o0) Affected) eqn:Ea.
      - subst n. cbn [d_op] in Hrm. destruct (forallb _ _); discriminate.
      - subst n. cbn [d_row d_op] in *. split; [reflexivity|].
        destruct (op_eqb o0 Removed && all_cd m); [discriminate Hrm | reflexivity]. }
    destruct Hrow as [Er Eo]. rewrite Er. eapply annot_rows_incl.
    unfold raw_diff in H0. eapply diff_t_origin; [exact H0|]. rewrite Eo. intro E. rewrite E in Hrm. discriminate.
  Qed.

  Lemma full_diff_origin ars rs old new n :
    In n (acl_make_diff amatch_ asrc arev anorm rmatch ars rs
            (acl_filter amatch_ asrc arev anorm ars old) (acl_filter amatch_ asrc arev anorm ars new)) ->
    is_rm (d_op n) = true -> In (d_row n) (keys old).
  Proof. intros H Hrm. apply (acl_filter_keys ars old). eapply full_diff_origin_f; eassumption. Qed.
End Origin.

(* a path of length one is a top-level item or an exit word *)
Lemma rpaths_single f : forall t parent c, In [c] (rpaths f parent t) ->
  (exists child sk, In (c, child, sk) (pitems t)) \/ In c (family_exits f).
Proof.
  intros [items] parent c H. rewrite rpaths_unfold in H. cbn [pitems].
  induction items as [|[[row child] sk] l IH]; [destruct H|]. cbn [rpaths_items] in H.
  destruct H as [H|H].
  - injection H as H. subst. left. exists child, sk. now left.
  - apply in_app_iff in H as [H|H].
    + destruct child as [ct|]; [|destruct H]. apply in_app_iff in H as [H|H].
      * exfalso. apply in_map_iff in H as (q & Eq & Hq). injection Eq as E1 E2. subst.
        apply in_app_iff in Hq as [Hq|Hq].
        -- eapply rpaths_nonempty; [exact Hq | reflexivity].
        -- apply in_map_iff in Hq as (e & Ee & _). discriminate.
      * right. apply in_map_iff in H as (e & Ee & He). injection Ee as Ee. subst e.
        eapply exit_words. apply exit_inline_in. exact He.
    + destruct (IH H) as [(ch & sk' & G)|G]; [left; exists ch, sk'; now right | right; exact G].
Qed.

(* ------------------------------------------------------------------------------------ *)
(* (c) on the device, top level                                                           *)

Section KeptTop.
  Variable amatch_ : string -> string -> option (list string).
  Variable asrc : string -> string.
  Variable arev : string -> string.
  Variable anorm : string -> string.
  Variable rmatch : string -> string -> option (list string).
  Variable rsrc : string -> string.
  Variable rrev : string -> string.
  Variable block_exit : string.
  Variable rreverse : string -> list string -> string.
  Variable is_exit : string -> bool.

  Notation pipeline := (acl_diff_and_patch amatch_ asrc arev anorm rmatch rsrc rrev block_exit rreverse).
  Notation full_diff ars rs old new :=
    (acl_make_diff amatch_ asrc arev anorm rmatch ars rs
                   (acl_filter amatch_ asrc arev anorm ars old) (acl_filter amatch_ asrc arev anorm ars new)).

  (* The (rule, key) slot of a top-level row of old that is governed by a cant_delete ACL rule is
     still occupied after the whole patch has been executed on the device holding old:
     for every block formatter, every ordering, every old / new, given that
     - the row's rule is not %ordered (an %ordered row that moved is undone and redone),
     - the removal command of the slot is that of no other row of old (C01's domain),
     - entries of the slot share the rule attributes ([slot_det]) and the diff is regular. *)
  Theorem cant_delete_kept_top f ars rs ordering old new p r s :
    is_block_family f = true ->
    (forall e, In e (family_exits f) -> is_exit e = true) ->
    diff_regular (full_diff ars rs old new) = true ->
    snd (pipeline ars rs ordering old new) = POk p ->
    In r (keys old) ->
    acl_cant_delete amatch_ asrc arev anorm ars r = true ->
    slot_of rmatch rs r = Some s ->
    a_logic (mi_attrs s) <> LOrdered ->
    slot_det rmatch rreverse rs s ->
    (forall r' s', In r' (keys old) -> slot_of rmatch rs r' = Some s' ->
                   reverse_of rreverse s' = reverse_of rreverse s -> r' = r) ->
    occupied rmatch rs s (exec rmatch rreverse is_exit rs (cmd_paths f p) old) = true.
  Proof.
    intros Hf Hexit Hreg Hp Hr Hcd Hs Hlog Hdet Hone.
    apply exec_occupied; [exact Hdet | |].
    { (* r occupies its slot in old *)
      unfold occupied. apply existsb_exists. unfold keys in Hr. apply in_map_iff in Hr as (e & Ee & He).
      exists e. split; [exact He|]. unfold in_slot. rewrite Ee, Hs. apply same_slot_refl. }
    intros c Hc Hne Hnm Heq.
    apply (cmd_paths_rpaths f p [c] Hf) in Hc.
    destruct (rpaths_single f p "" c Hc) as [(child & sk & Hit)|Hx]; [|rewrite (Hexit c Hx) in Hne; discriminate].
    unfold acl_diff_and_patch in Hp. cbn [snd] in Hp.
    set (D := full_diff ars rs old new) in *.
    pose proof (make_patch_rel rmatch rsrc rrev block_exit rreverse D ordering p Hp) as Hrel.
    destruct p as [items]. apply pt_rel_items in Hrel. cbn [pitems] in Hit.
    rewrite Forall_forall in Hrel. specialize (Hrel _ Hit).
    pose proof (acl_make_diff_good amatch_ asrc arev anorm rmatch ars rs old new) as HD.
    fold D in HD. rewrite Forall_forall in HD.
    pose proof (diff_regular_spec D Hreg) as Hspec.
    destruct Hrel as [(n & Hn & Er & _)|[(_ & n & n0 & Hn & Hn0 & Eraw & Erow & Hop)|(_ & _ & n0 & Hn0 & Efc)]].
    - (* a row of the diff is known to the rulebook *)
      destruct (dgood_facts _ _ _ _ _ _ _ _ (HD n Hn)) as (m & acrs & prs & _ & Em & _). rewrite Er in Em. congruence.
    - destruct (dgood_facts _ _ _ _ _ _ _ _ (HD n Hn)) as (m & acrs & prs & Ea & Em & Hrm & _).
      destruct (Hspec n Hn) as (_ & _ & Hattr). specialize (Hattr n0 Hn0 (eq_sym Eraw)).
      assert (Hslot : slot_of rmatch rs (d_row n) = Some (d_mi n)) by (unfold slot_of; rewrite Em; reflexivity).
      assert (Hrev : reverse_of rreverse (d_mi n) = reverse_of rreverse s).
      { unfold reverse_of at 1. rewrite Hattr. rewrite <- Erow. exact Heq. }
      assert (Hin : In (d_row n) (keys old)).
      { eapply full_diff_origin; [exact Hn|]. destruct Hop as [Hop|[Hop _]]; rewrite Hop; reflexivity. }
      pose proof (Hone _ _ Hin Hslot Hrev) as Err.
      rewrite Err in Hslot, Ea. rewrite Hs in Hslot. injection Hslot as Es.
      unfold acl_cant_delete in Hcd. change (P_C02.amatch amatch_ asrc arev anorm r ars) with (amatch amatch_ asrc arev anorm r ars) in Hcd.
      rewrite Ea in Hcd. apply andb_true_iff in Hcd as [_ Hcd].
      destruct Hop as [Hop|[_ Hop]].
      + rewrite (Hrm Hop) in Hcd. discriminate.
      + apply Hlog. rewrite Es, Hattr. exact Hop.
    - destruct (Hspec n0 Hn0) as (_ & G & _). congruence.
  Qed.
End KeptTop.

(* ------------------------------------------------------------------------------------ *)
(* instantiated with the shared pattern compiler, in the vocabulary of Spec/P_C02.v        *)

Theorem C02_c_top_model x ordering p r s :
  is_block_family (v_family (i_vendor x)) = true ->
  diff_regular (p_full_diff x) = true ->
  snd (p_acl_diff_and_patch (i_vendor x) (i_av x) (i_ars x) (i_rules x) ordering (i_old x) (i_new x)) = POk p ->
  In r (keys (i_old x)) ->
  acl_cant_delete acl_pm acl_psrc (acl_prev (i_av x)) (acl_norm (i_av x)) (i_ars x) r = true ->
  slot_of pm (i_rules x) r = Some s ->
  a_logic (mi_attrs s) <> LOrdered ->
  slot_det pm (prreverse (i_vendor x)) (i_rules x) s ->
  (forall r' s', In r' (keys (i_old x)) -> slot_of pm (i_rules x) r' = Some s' ->
                 reverse_of (prreverse (i_vendor x)) s' = reverse_of (prreverse (i_vendor x)) s -> r' = r) ->
  slot_occupied pm (i_rules x) r (after x (cmd_paths (v_family (i_vendor x)) p)) = true.
Proof.
  intros Hf Hreg Hp Hr Hcd Hs Hlog Hdet Hone. unfold slot_occupied. rewrite Hs. unfold after, p_exec.
  unfold p_acl_diff_and_patch in Hp.
  exact (cant_delete_kept_top acl_pm acl_psrc (acl_prev (i_av x)) (acl_norm (i_av x)) pm psrc (prev (i_vendor x))
           (v_exit (i_vendor x)) (prreverse (i_vendor x)) (v_is_exit (i_vendor x)) (v_family (i_vendor x))
           (i_ars x) (i_rules x) ordering (i_old x) (i_new x) p r s Hf (v_is_exit_family (i_vendor x)) Hreg Hp Hr Hcd Hs Hlog Hdet Hone).
Qed.

(* ------------------------------------------------------------------------------------ *)
(* the hypotheses of the top-level theorem in computable form                              *)

Definition rules_det (rs : rset) : bool :=
  let l := (fst rs ++ snd rs)%list in
  forallb (fun f => forallb (fun g => negb (String.eqb (r_raw f) (r_raw g)) || attrs_eqb (r_attrs f) (r_attrs g)) l) l.

Section Computable.
  Variable rmatch : string -> string -> option (list string).
  Variable rreverse : string -> list string -> string.

  Definition only_row (rs : rset) (old : forest) (r : string) (s : minfo) : bool :=
    forallb (fun e : string * tree =>
               match slot_of rmatch rs (fst e) with
               | Some s' => negb (String.eqb (reverse_of rreverse s') (reverse_of rreverse s)) || String.eqb (fst e) r
               | None => true
               end) old.

  Lemma find_matches_In row : forall l ms, find_matches rmatch row l = Some ms ->
    forall r cr key, In (r, cr, key) ms -> exists g, In (r, g) l.
  Proof.
    induction l as [|[r0 g0] l IH]; intros ms E r cr key H; cbn [find_matches] in E.
    - injection E as E. subst. destruct H.
    - destruct (rmatch (r_pat r0) row) as [k|].
      + destruct (r_ign r0); [discriminate|].
        destruct (find_matches rmatch row l) as [ms'|] eqn:E'; [|discriminate]. cbn [option_map] in E.
        injection E as E. subst ms. destruct H as [H|H].
        * injection H as E1 E2 E3. subst. exists g0. now left.
        * destruct (IH _ eq_refl _ _ _ H) as (g & Hg). exists g. now right.
      + destruct (IH _ E _ _ _ H) as (g & Hg). exists g. now right.
  Qed.

  Lemma match_row_rule row rs mi crs : match_row rmatch row rs = Some (mi, crs) ->
    exists f, In f (fst rs ++ snd rs) /\ mi_raw mi = r_raw f /\ mi_attrs mi = r_attrs f.
  Proof.
    unfold match_row. destruct (find_matches rmatch row (local_global rs)) as [[|[[f fcr] key] ms]|] eqn:E; try discriminate.
    intros H.
    assert (Hmi : mi = MI (r_raw f) key (r_attrs f)).
    { destruct fcr.
      - match type of H with context [let '(lc, gc) := ?X in _] => destruct X as [lc gc] end.
        injection H as H1 H2. symmetry. exact H1.
      - injection H as H1 H2. symmetry. exact H1. }
    subst mi. exists f. split; [|split; reflexivity].
    destruct (find_matches_In _ _ _ E f fcr key (or_introl eq_refl)) as (g & Hg).
    unfold local_global in Hg. apply in_app_iff in Hg as [Hg|Hg]; apply in_map_iff in Hg as (x & Ex & Hx);
      injection Ex as Ex _; subst x; apply in_or_app; [left | right]; exact Hx.
  Qed.

  Lemma slot_det_of_rules_det rs r s : rules_det rs = true -> slot_of rmatch rs r = Some s -> slot_det rmatch rreverse rs s.
  Proof.
    intros Hd Hs row m Hm Hss. unfold slot_of in Hs, Hm.
    destruct (match_row rmatch r rs) as [[s0 crs]|] eqn:E1; [|discriminate]. cbn in Hs. injection Hs as Hs. subst s0.
    destruct (match_row rmatch row rs) as [[m0 crs']|] eqn:E2; [|discriminate]. cbn in Hm. injection Hm as Hm. subst m0.
    destruct (match_row_rule _ _ _ _ E1) as (f & Hf & Rf & Af). destruct (match_row_rule _ _ _ _ E2) as (g & Hg & Rg & Ag).
    apply same_slot_eq in Hss as [Hraw Hkey].
    unfold rules_det in Hd. cbv zeta in Hd. rewrite forallb_forall in Hd. specialize (Hd g Hg).
    rewrite forallb_forall in Hd. specialize (Hd f Hf).
    assert (Eraw : r_raw g = r_raw f) by congruence. rewrite Eraw, String.eqb_refl in Hd. cbn [negb orb] in Hd.
    apply attrs_eqb_eq in Hd. unfold reverse_of. rewrite Hkey, Ag, Af, Hd. reflexivity.
  Qed.

  Lemma only_row_spec rs old r s : only_row rs old r s = true ->
    forall r' s', In r' (keys old) -> slot_of rmatch rs r' = Some s' ->
                  reverse_of rreverse s' = reverse_of rreverse s -> r' = r.
  Proof.
    intros H r' s' Hr Hs Hrev. unfold only_row in H. rewrite forallb_forall in H.
    unfold keys in Hr. apply in_map_iff in Hr as (e & Ee & He). specialize (H e He). rewrite Ee, Hs, Hrev, String.eqb_refl in H.
    cbn [negb orb] in H. apply String.eqb_eq in H. exact H.
  Qed.
End Computable.

(* the guard of the top-level statement, computable on the instance *)
Definition c_top_guard (x : c02in) (r : string) : bool :=
  is_block_family (v_family (i_vendor x)) && diff_regular (p_full_diff x) && rules_det (i_rules x) &&
  existsb (String.eqb r) (keys (i_old x)) &&
  acl_cant_delete acl_pm acl_psrc (acl_prev (i_av x)) (acl_norm (i_av x)) (i_ars x) r &&
  match slot_of pm (i_rules x) r with
  | Some s => negb (logic_eqb (a_logic (mi_attrs s)) LOrdered) && only_row pm (prreverse (i_vendor x)) (i_rules x) (i_old x) r s
  | None => false
  end.

Theorem C02_c_top_guarded x ordering p r :
  c_top_guard x r = true ->
  snd (p_acl_diff_and_patch (i_vendor x) (i_av x) (i_ars x) (i_rules x) ordering (i_old x) (i_new x)) = POk p ->
  slot_occupied pm (i_rules x) r (after x (cmd_paths (v_family (i_vendor x)) p)) = true.
Proof.
  unfold c_top_guard. rewrite !andb_true_iff. intros [[[[[Hf Hreg] Hdet] Hin] Hcd] Hs] Hp.
  destruct (slot_of pm (i_rules x) r) as [s|] eqn:Es; [|discriminate].
  apply andb_true_iff in Hs as [Hlog Hone].
  eapply C02_c_top_model; [exact Hf | exact Hreg | exact Hp | | exact Hcd | exact Es | | |].
  - apply existsb_exists in Hin as (y & Hy & E). apply String.eqb_eq in E. subst y. exact Hy.
  - intro E. rewrite E in Hlog. discriminate.
  - eapply slot_det_of_rules_det; [exact Hdet | exact Es].
  - apply only_row_spec. exact Hone.
Qed.

(* ------------------------------------------------------------------------------------ *)
(* (b) on the device, top level: which commands can touch an entry of the level            *)

Section DeviceEntries.
  Variable rmatch : string -> string -> option (list string).
  Variable rreverse : string -> list string -> string.
  Variable is_exit : string -> bool.
  Variable rs : rset.

  Notation in_slot := (in_slot rmatch rs).

  Lemma replace_slot_keeps s' e' e : in_slot s' e = false ->
    forall f, In e f -> In e (replace_slot rmatch rs s' e' f).
  Proof.
    intros Hs. induction f as [|x f IH]; intros H; [destruct H|]. cbn [replace_slot].
    destruct H as [H|H].
    - subst x. rewrite Hs. now left.
    - destruct (in_slot s' x); [now right | right; apply IH; exact H].
  Qed.

  Lemma remove_slot_keeps s' e : in_slot s' e = false ->
    forall f, In e f -> In e (remove_slot rmatch rs s' f).
  Proof.
    intros Hs. induction f as [|x f IH]; intros H; [destruct H|]. cbn [remove_slot].
    destruct H as [H|H].
    - subst x. rewrite Hs. now left.
    - destruct (in_slot s' x); [exact H | right; apply IH; exact H].
  Qed.

  (* the command path p leaves the entry e of the level alone *)
  Definition spares (e : string * tree) (p : list string) : Prop :=
    match p with
    | [] => True
    | [c] => is_exit c = true \/
             (exists s' crs, match_row rmatch c rs = Some (s', crs) /\ in_slot s' e = false) \/
             (match_row rmatch c rs = None /\ reverse_hits rmatch rreverse rs c e = false)
    | c :: _ :: _ => c <> fst e
    end.

  Lemma exec_path_keeps e p f : spares e p -> In e f -> In e (exec_path rmatch rreverse is_exit rs p f).
  Proof.
    intros Hp H. destruct p as [|c [|c2 rest]]; [exact H| |].
    - cbn [exec_path]. unfold exec_cmd. cbn [spares] in Hp.
      destruct (is_exit c) eqn:Ee; [exact H|].
      destruct Hp as [Hp|[(s' & crs & Em & Hs)|(Em & Hh)]]; [discriminate| |].
      + rewrite Em. unfold exec_direct. destruct (find (Device.in_slot rmatch rs s') f) as [x|].
        * destruct (String.eqb (fst x) c); [apply replace_slot_keeps; assumption|].
          destruct (is_ordered s'); [apply in_or_app; left; apply remove_slot_keeps; assumption | apply replace_slot_keeps; assumption].
        * apply in_or_app. left. exact H.
      + rewrite Em. apply filter_In. split; [exact H | rewrite Hh; reflexivity].
    - cbn [spares] in Hp. cbn [exec_path]. destruct (match_row rmatch c rs) as [[m crs]|]; [|exact H].
      induction f as [|[r t] f IH]; [destruct H|]. destruct H as [H|H].
      + subst e. cbn [fst] in Hp. destruct (String.eqb_spec r c) as [E|E]; [congruence | now left].
      + destruct (String.eqb r c); [now right | right; apply IH; exact H].
  Qed.

  Theorem exec_keeps e : forall ps f, (forall p, In p ps -> spares e p) -> In e f ->
    In e (exec rmatch rreverse is_exit rs ps f).
  Proof.
    unfold exec. induction ps as [|p ps IH]; intros f Hps H; [exact H|]. cbn [fold_left]. apply IH.
    - intros q Hq. apply Hps. now right.
    - apply exec_path_keeps; [apply Hps; now left | exact H].
  Qed.
End DeviceEntries.

(* every entry of the top level of a diff is a row of old or of new *)
Lemma diff_t_rows : forall nt ao pop inrw d,
  In d (diff_t nt ao pop inrw) -> In (d_row d) (arows ao) \/ In (d_row d) (arows (akids nt)).
Proof.
  intros [nk] ao pop inrw d H. rewrite diff_t_unfold, diff_level_unfold in H. cbn [akids].
  apply in_flat_map in H as (L & _ & H).
  assert (HB : forall pop' inrw' mta x, In x (base_diff (filter (inL L) ao) pop' inrw' mta (cks (filter (inL L) nk))) ->
                                        In (d_row x) (arows ao) \/ In (d_row x) (arows nk)).
  { intros pop' inrw' mta x Hx. apply base_diff_In in Hx as [(k & Hk & Hrel)|(k & Hk & _ & E)].
    - right. rewrite (scan_rel_row _ _ _ _ _ Hrel). apply filter_In in Hk as [Hk _]. destruct k as [[r m] c]. eapply In_arows. exact Hk.
    - left. subst x. unfold mkrem. cbn [d_row]. apply filter_In in Hk as [Hk _]. destruct k as [[r m] c]. eapply In_arows. exact Hk. }
  unfold run_dlogic in H. destruct L; try (eapply HB; eassumption).
  destruct inrw; [eapply HB; eassumption|].
  destruct (all_affected _); [destruct H|].
  unfold aff_to_moved in H. apply in_map_iff in H as (y & Ey & Hy). subst d.
  rewrite aff_to_moved_row. eapply HB. exact Hy.
Qed.

Section Passed.
  Variable amatch_ : string -> string -> option (list string).
  Variable asrc : string -> string.
  Variable arev : string -> string.
  Variable anorm : string -> string.
  Variable rmatch : string -> string -> option (list string).

  (* a row that survives apply_acl is passed by the ACL *)
  Lemma acl_filter_passes ars : forall f r, In r (keys (acl_filter amatch_ asrc arev anorm ars f)) ->
    acl_passes amatch_ asrc arev anorm ars r <> None.
  Proof.
    assert (H : forall l path res, apply_acl amatch_ asrc arev anorm ars false false path l = inl res ->
                                   forall r, In r (keys res) -> acl_passes amatch_ asrc arev anorm ars r <> None).
    { induction l as [|[row c] l IH]; intros path res E r Hr.
      - rewrite apply_nil in E. injection E as E. subst. destruct Hr.
      - rewrite apply_cons in E.
        destruct (match_row_to_acl amatch_ asrc arev anorm row ars false) as [|g|m crs] eqn:Em; try discriminate.
        + eapply IH; eassumption.
        + destruct (drops m) eqn:Ed.
          * eapply IH; eassumption.
          * destruct (apply_acl amatch_ asrc arev anorm crs false false (path ++ [row]) (kids c)) as [c'|]; [|discriminate].
            destruct (apply_acl amatch_ asrc arev anorm ars false false path l) as [r0|] eqn:El; [|discriminate].
            injection E as E. subst res. destruct Hr as [Hr|Hr]; [|eapply IH; eassumption].
            cbn [fst] in Hr. subst r. unfold acl_passes, P_C02.amatch, acl_match. rewrite Em, Ed. discriminate. }
    intros f r Hr. unfold acl_filter in Hr.
    destruct (apply_acl amatch_ asrc arev anorm ars false false [] f) as [res|] eqn:E; [|destruct Hr].
    eapply H; eassumption.
  Qed.

  (* every entry of the top level of the diff the patch is made from is a row of the filtered old or new *)
  Lemma full_diff_rows ars rs old new n :
    In n (acl_make_diff amatch_ asrc arev anorm rmatch ars rs
            (acl_filter amatch_ asrc arev anorm ars old) (acl_filter amatch_ asrc arev anorm ars new)) ->
    In (d_row n) (keys (acl_filter amatch_ asrc arev anorm ars old)) \/
    In (d_row n) (keys (acl_filter amatch_ asrc arev anorm ars new)).
  Proof.
    intros H. unfold acl_make_diff, mark_unchanged in H.
    apply in_map_iff in H as (n1 & E1 & H). unfold AclPipeline.apply_acl_diff in H.
    apply in_flat_map in H as (n0 & H0 & H).
    assert (Hrow : d_row n = d_row n0).
    { rewrite <- E1, mark_row. destruct n0 as [o0 r0 m0 k0]. cbn [AclPipeline.apply_acl_diff_n] in H.
      destruct (acl_match amatch_ asrc arev anorm r0 ars) as [|g|m crs]; [destruct H | destruct H |].
      destruct H as [H|[]]. subst n1. reflexivity. }
    rewrite Hrow. unfold raw_diff in H0. destruct (diff_t_rows _ _ _ _ _ H0) as [G|G].
    - left. eapply annot_rows_incl. exact G.
    - right. eapply annot_rows_incl. exact G.
  Qed.
End Passed.

(* the shape of a command path of a patch tree *)
Lemma rpaths_shape f : forall t parent p, In p (rpaths f parent t) ->
  (exists c, p = [c] /\ ((exists child sk, In (c, child, sk) (pitems t)) \/ In c (family_exits f))) \/
  (exists c c2 rest ct sk, p = c :: c2 :: rest /\ In (c, Some ct, sk) (pitems t)).
Proof.
  intros [items] parent p H. rewrite rpaths_unfold in H. cbn [pitems].
  induction items as [|[[row child] sk] l IH]; [destruct H|]. cbn [rpaths_items] in H.
  destruct H as [H|H].
  - subst p. left. exists row. split; [reflexivity|]. left. exists child, sk. now left.
  - apply in_app_iff in H as [H|H].
    + destruct child as [ct|]; [|destruct H]. apply in_app_iff in H as [H|H].
      * right. apply in_map_iff in H as (q & Eq & Hq). subst p.
        assert (Hq' : q <> []).
        { apply in_app_iff in Hq as [Hq|Hq]; [eapply rpaths_nonempty; exact Hq|].
          apply in_map_iff in Hq as (e & Ee & _). subst q. discriminate. }
        destruct q as [|c2 rest]; [congruence|]. exists row, c2, rest, ct, sk. split; [reflexivity | now left].
      * left. apply in_map_iff in H as (e & Ee & He). subst p. exists e. split; [reflexivity|]. right.
        eapply exit_words. apply exit_inline_in. exact He.
    + destruct (IH H) as [(c & E & [(ch & sk' & G)|G])|(c & c2 & rest & ct & sk' & E & G)].
      * left. exists c. split; [exact E|]. left. exists ch, sk'. now right.
      * left. exists c. split; [exact E|]. right. exact G.
      * right. exists c, c2, rest, ct, sk'. split; [exact E | now right].
Qed.

Section UntouchedTop.
  Variable amatch_ : string -> string -> option (list string).
  Variable asrc : string -> string.
  Variable arev : string -> string.
  Variable anorm : string -> string.
  Variable rmatch : string -> string -> option (list string).
  Variable rsrc : string -> string.
  Variable rrev : string -> string.
  Variable block_exit : string.
  Variable rreverse : string -> list string -> string.
  Variable is_exit : string -> bool.

  Notation pipeline := (acl_diff_and_patch amatch_ asrc arev anorm rmatch rsrc rrev block_exit rreverse).
  Notation filt ars f := (acl_filter amatch_ asrc arev anorm ars f).
  Notation full_diff ars rs old new := (acl_make_diff amatch_ asrc arev anorm rmatch ars rs (filt ars old) (filt ars new)).
  Notation passes ars r := (acl_passes amatch_ asrc arev anorm ars r).

  (* A top-level entry (u, t) of old that the ACL does not pass is still there, with exactly the
     same subtree, after the whole patch has been executed on the device holding old - provided
     the ACL does not split its slot (no passed row of old or of the filtered new is in the slot of
     u) and the removal command of no passed row of old is matched by a rule or hits u. *)
  Theorem uncovered_untouched_top f ars rs ordering old new p u t :
    is_block_family f = true ->
    (forall e, In e (family_exits f) -> is_exit e = true) ->
    diff_regular (full_diff ars rs old new) = true ->
    snd (pipeline ars rs ordering old new) = POk p ->
    In (u, t) old ->
    passes ars u = None ->
    (forall r' s' crs, In r' (keys old) \/ In r' (keys (filt ars new)) -> passes ars r' <> None ->
                       match_row rmatch r' rs = Some (s', crs) -> in_slot rmatch rs s' (u, t) = false) ->
    (forall r' s', In r' (keys old) -> passes ars r' <> None -> slot_of rmatch rs r' = Some s' ->
                   match_row rmatch (reverse_of rreverse s') rs = None /\
                   reverse_hits rmatch rreverse rs (reverse_of rreverse s') (u, t) = false) ->
    In (u, t) (exec rmatch rreverse is_exit rs (cmd_paths f p) old).
  Proof.
    intros Hf Hexit Hreg Hp Hu Hnp Hslot Hrev.
    apply exec_keeps; [|exact Hu]. intros q Hq.
    apply (cmd_paths_rpaths f p q Hf) in Hq.
    unfold acl_diff_and_patch in Hp. cbn [snd] in Hp.
    set (D := full_diff ars rs old new) in *.
    pose proof (make_patch_rel rmatch rsrc rrev block_exit rreverse D ordering p Hp) as Hrel.
    destruct p as [items]. apply pt_rel_items in Hrel. rewrite Forall_forall in Hrel.
    pose proof (acl_make_diff_good amatch_ asrc arev anorm rmatch ars rs old new) as HD.
    fold D in HD. rewrite Forall_forall in HD.
    pose proof (diff_regular_spec D Hreg) as Hspec.
    assert (Hpassed : forall n, In n D -> (In (d_row n) (keys old) \/ In (d_row n) (keys (filt ars new))) /\ passes ars (d_row n) <> None).
    { intros n Hn. destruct (full_diff_rows amatch_ asrc arev anorm rmatch ars rs old new n Hn) as [G|G].
      - split; [left; apply (acl_filter_keys amatch_ asrc arev anorm ars old); exact G | eapply acl_filter_passes; exact G].
      - split; [right; exact G | eapply acl_filter_passes; exact G]. }
    destruct (rpaths_shape f _ _ _ Hq) as [(c & E & [(child & sk & Hit)|Hx])|(c & c2 & rest & ct & sk & E & Hit)]; subst q.
    - cbn [pitems] in Hit. specialize (Hrel _ Hit). cbn [spares].
      destruct Hrel as [(n & Hn & Er & _)|[(_ & n & n0 & Hn & Hn0 & Eraw & Erow & Hop)|(_ & _ & n0 & Hn0 & Efc)]].
      + right. left. destruct (dgood_facts _ _ _ _ _ _ _ _ (HD n Hn)) as (m & acrs & prs & _ & Em & _).
        destruct (Hpassed n Hn) as [G1 G2]. rewrite Er in Em, G1, G2. exists (d_mi n), prs. split; [exact Em|].
        eapply Hslot; eassumption.
      + right. right.
        destruct (dgood_facts _ _ _ _ _ _ _ _ (HD n Hn)) as (m & acrs & prs & _ & Em & _).
        destruct (Hspec n Hn) as (_ & _ & Hattr). specialize (Hattr n0 Hn0 (eq_sym Eraw)).
        assert (Hslot' : slot_of rmatch rs (d_row n) = Some (d_mi n)) by (unfold slot_of; rewrite Em; reflexivity).
        assert (Ec : c = reverse_of rreverse (d_mi n)) by (unfold reverse_of; rewrite Hattr; exact Erow).
        assert (Hrm : is_rm (d_op n) = true) by (destruct Hop as [Hop|[Hop _]]; rewrite Hop; reflexivity).
        pose proof (full_diff_origin_f amatch_ asrc arev anorm rmatch ars rs old new n Hn Hrm) as Hof.
        rewrite Ec. apply (Hrev (d_row n) (d_mi n)); [apply (acl_filter_keys amatch_ asrc arev anorm ars old); exact Hof | | exact Hslot'].
        eapply acl_filter_passes. exact Hof.
      + exfalso. destruct (Hspec n0 Hn0) as (_ & G & _). congruence.
    - cbn [spares]. left. apply Hexit. exact Hx.
    - cbn [pitems] in Hit. specialize (Hrel _ Hit). cbn [spares fst].
      destruct Hrel as [(n & Hn & Er & _)|[(G & _)|(G & _)]]; try discriminate.
      destruct (Hpassed n Hn) as [_ G2]. rewrite Er in G2. intro E. apply G2. rewrite E. exact Hnp.
  Qed.
End UntouchedTop.

(* the hypotheses of the top-level (b) theorem in computable form, instantiated *)
Definition is_none {A} (o : option A) : bool := match o with None => true | Some _ => false end.

Definition b_top_guard (x : c02in) (u : string) (t : tree) : bool :=
  let v := i_vendor x in
  let rs := i_rules x in
  let passes r := is_some (acl_passes acl_pm acl_psrc (acl_prev (i_av x)) (acl_norm (i_av x)) (i_ars x) r) in
  is_block_family (v_family v) && diff_regular (p_full_diff x) &&
  existsb (fun e : string * tree => String.eqb (fst e) u && tree_eqb (snd e) t) (i_old x) &&
  negb (passes u) &&
  forallb (fun r' => negb (passes r') ||
                     match match_row pm r' rs with
                     | Some (s', _) => negb (in_slot pm rs s' (u, t))
                     | None => true
                     end) (keys (i_old x) ++ keys (c02_filtered_new x)) &&
  forallb (fun r' => negb (passes r') ||
                     match slot_of pm rs r' with
                     | Some s' => is_none (match_row pm (reverse_of (prreverse v) s') rs) &&
                                  negb (reverse_hits pm (prreverse v) rs (reverse_of (prreverse v) s') (u, t))
                     | None => true
                     end) (keys (i_old x)).

Theorem C02_b_top_guarded x ordering p u t :
  b_top_guard x u t = true ->
  snd (p_acl_diff_and_patch (i_vendor x) (i_av x) (i_ars x) (i_rules x) ordering (i_old x) (i_new x)) = POk p ->
  In (u, t) (after x (cmd_paths (v_family (i_vendor x)) p)).
Proof.
  unfold b_top_guard. cbv zeta. rewrite !andb_true_iff. intros [[[[[Hf Hreg] Hin] Hnp] Hslot] Hrev] Hp.
  unfold after, p_exec. unfold p_acl_diff_and_patch in Hp.
  assert (Hpass : forall r, acl_passes acl_pm acl_psrc (acl_prev (i_av x)) (acl_norm (i_av x)) (i_ars x) r <> None ->
                            is_some (acl_passes acl_pm acl_psrc (acl_prev (i_av x)) (acl_norm (i_av x)) (i_ars x) r) = true).
  { intros r H. destruct (acl_passes _ _ _ _ _ r); [reflexivity | congruence]. }
  eapply (uncovered_untouched_top acl_pm acl_psrc (acl_prev (i_av x)) (acl_norm (i_av x)) pm psrc (prev (i_vendor x))
            (v_exit (i_vendor x)) (prreverse (i_vendor x)) (v_is_exit (i_vendor x)) (v_family (i_vendor x)));
    [exact Hf | apply v_is_exit_family | exact Hreg | exact Hp | | | |].
  - apply existsb_exists in Hin as ([u' t'] & He & E). cbn [fst snd] in E. apply andb_true_iff in E as [E1 E2].
    apply String.eqb_eq in E1. apply tree_eqb_eq in E2. subst. exact He.
  - apply negb_true_iff in Hnp. destruct (acl_passes _ _ _ _ _ u); [discriminate | reflexivity].
  - intros r' s' crs Hr Hp' Em. rewrite forallb_forall in Hslot.
    assert (Hin' : In r' (keys (i_old x) ++ keys (c02_filtered_new x))).
    { apply in_or_app. destruct Hr as [Hr|Hr]; [left | right]; exact Hr. }
    specialize (Hslot r' Hin'). rewrite (Hpass r' Hp'), Em in Hslot. cbn [negb orb] in Hslot.
    apply negb_true_iff in Hslot. exact Hslot.
  - intros r' s' Hr Hp' Es. rewrite forallb_forall in Hrev. specialize (Hrev r' Hr).
    rewrite (Hpass r' Hp'), Es in Hrev. cbn [negb orb] in Hrev. apply andb_true_iff in Hrev as [H1 H2].
    split; [destruct (match_row pm _ _); [discriminate | reflexivity] | apply negb_true_iff in H2; exact H2].
Qed.
