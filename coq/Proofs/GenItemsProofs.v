(* C10, layer 1: for EVERY generator program the outcome of the run without ACL is the offside
   reference over the program's (column, row) list, or the generator error it raises. *)
From Coq Require Import List String Ascii Bool Arith Lia.
From Annet Require Import Base.Str Base.Tree Model.Offside Spec.P_C05 Proofs.OffsideProofs.
From Annet Require Import Model.GenProg Spec.P_C10 Proofs.GenProgProofs Spec.P_C10b.
Import ListNotations.
Open Scope string_scope.
Open Scope list_scope.
Arguments Nat.ltb : simpl never.
Arguments Nat.leb : simpl never.

Definition render (cr : crow) : string := (spaces (fst cr) ++ snd cr)%string.

(* ---------- emit = render of the structural rows, or EInvalid ---------- *)

Definition emit_as (r : res) (bad : bool) (rows : list crow) : Prop :=
  r = (if bad then inl EInvalid else inr (map render rows)) /\
  Forall (fun cr : crow => has_nl (snd cr) = false) rows.

Lemma map_err_filter_tok toks e : map_err filter_tok toks = inl e -> e = EInvalid.
Proof.
  revert e. induction toks as [|t r IH]; intros e H; cbn in H; [discriminate|].
  destruct t as [s|]; cbn in H.
  - destruct (map_err filter_tok r) as [e'|ys] eqn:E; [|discriminate].
    injection H as <-. apply IH. reflexivity.
  - injection H as <-. reflexivity.
Qed.

Lemma join_toks_err toks e : join_toks toks = inl e -> e = EInvalid.
Proof.
  unfold join_toks. destruct (map_err filter_tok toks) as [e'|ws] eqn:E; [|discriminate].
  intros H. injection H as <-. eapply map_err_filter_tok. exact E.
Qed.

Lemma ytext_err v e : ytext v = inl e -> e = EInvalid.
Proof.
  destruct v as [s| |l|l]; cbn [ytext]; intros H; try discriminate.
  - injection H as <-. reflexivity.
  - eapply join_toks_err. exact H.
  - injection H as <-. reflexivity.
Qed.

Lemma emit_as_text c t : emit_as (inr (append_text (spaces c) t)) false (text_rows c t).
Proof.
  split.
  - unfold append_text, text_rows. rewrite map_map. reflexivity.
  - unfold text_rows. apply Forall_forall. intros cr Hin. apply in_map_iff in Hin as (r & <- & Hr).
    cbn. eapply split_and_strip_no_nl. exact Hr.
Qed.

Lemma emit_as_app r1 r2 b1 b2 rows1 rows2 :
  emit_as r1 b1 rows1 -> emit_as r2 b2 rows2 -> emit_as (res_app r1 r2) (b1 || b2) (rows1 ++ rows2).
Proof.
  intros [-> F1] [-> F2]. split; [|apply Forall_app; auto].
  destruct b1; [reflexivity|]. destruct b2; [reflexivity|]. cbn. rewrite map_app. reflexivity.
Qed.

Lemma with_block_res_app pre toks ind (k : string -> res) :
  with_block pre toks ind k =
  match join_toks toks with
  | inl e => inl e
  | inr b => res_app (inr (append_text pre b)) (k (pre ++ spaces (ind_of ind))%string)
  end.
Proof.
  unfold with_block, ind_of. destruct (join_toks toks) as [e|b]; [reflexivity|].
  destruct (k _) as [e|l]; reflexivity.
Qed.

Lemma emit_as_block c toks ind (kemit : string -> res) (kb : bool) (krows : nat -> list crow) :
  (forall c', emit_as (kemit (spaces c')) kb (krows c')) ->
  emit_as (with_block (spaces c) toks ind kemit) (bad_toks toks || kb) (rows_block c toks (ind_of ind) krows).
Proof.
  intros K. rewrite with_block_res_app. unfold bad_toks, rows_block.
  destruct (join_toks toks) as [e|b] eqn:E.
  - apply join_toks_err in E. subst e. split; [reflexivity|constructor].
  - rewrite spaces_add. change (false || kb) with (false || kb).
    apply (emit_as_app _ _ false kb); [apply emit_as_text|apply K].
Qed.

Lemma emit_as_multiblock blocks : forall c (kemit : string -> res) (kb : bool) (krows : nat -> list crow),
  (forall c', emit_as (kemit (spaces c')) kb (krows c')) ->
  emit_as (with_multiblock (spaces c) blocks kemit)
          (existsb (fun b => bad_toks (mblk_toks b)) blocks || kb) (rows_multiblock c blocks krows).
Proof.
  induction blocks as [|b blocks IH]; intros c kemit kb krows K.
  - cbn. apply K.
  - cbn [with_multiblock rows_multiblock existsb]. rewrite <- orb_assoc.
    change default_indent with (ind_of None). apply emit_as_block.
    intros c'. apply IH. exact K.
Qed.

Theorem emit_srows : forall s c, emit_as (emit_stmt (spaces c) s) (invalid s) (srows c s).
Proof.
  apply (stmt_ind2
    (fun s => forall c, emit_as (emit_stmt (spaces c) s) (invalid s) (srows c s))
    (fun ss => forall c, emit_as (seq_res (emit_stmt (spaces c)) ss) (existsb invalid ss) (flat_map (srows c) ss))).
  - intros v c. cbn [emit_stmt invalid srows]. destruct (ytext v) as [e|t] eqn:E.
    + apply ytext_err in E. subst e. split; [reflexivity|constructor].
    + apply emit_as_text.
  - intros toks ind body IH c. cbn [emit_stmt invalid srows]. apply emit_as_block. exact IH.
  - intros toks cond body IH c. cbn [emit_stmt invalid srows].
    destruct (block_if_cond toks cond); cbn [andb orb].
    + change default_indent with (ind_of None). apply emit_as_block. exact IH.
    + apply IH.
  - intros blocks body IH c. cbn [emit_stmt invalid srows]. apply emit_as_multiblock. exact IH.
  - intros blocks cond body IH c. cbn [emit_stmt invalid srows].
    destruct (multiblock_if_cond blocks cond); cbn [andb orb].
    + apply emit_as_multiblock. exact IH.
    + apply IH.
  - intros c. split; [reflexivity|constructor].
  - intros s ss IHs IHss c. rewrite seq_res_cons. cbn [existsb flat_map]. apply emit_as_app; auto.
Qed.

Lemma emit_body_rows p : emit_as (emit_body EmptyString p) (existsb invalid p) (prog_rows p).
Proof.
  unfold emit_body, prog_rows. change EmptyString with (spaces 0).
  induction p as [|s ss IH].
  - split; [reflexivity|constructor].
  - rewrite seq_res_cons. cbn [existsb flat_map]. apply emit_as_app; [apply emit_srows|exact IH].
Qed.

(* ---------- the text and its lines ---------- *)

Lemma split_lines_text_gen rows :
  Forall (fun l => has_nl l = false) rows ->
  split_lines (text_of_rows rows) = filter (fun l => negb (is_empty l)) rows.
Proof.
  unfold split_lines. destruct rows as [|x0 r0]; [reflexivity|]. revert x0.
  induction r0 as [|y r IH]; intros x F; inversion F as [|? ? Hn F']; subst.
  - rewrite text_of_rows_cons, split_char_line by exact Hn. cbn [filter split_char]. reflexivity.
  - rewrite text_of_rows_cons, split_char_line by exact Hn. cbn [filter].
    rewrite (IH y F'). reflexivity.
Qed.

Lemma is_empty_render cr : is_empty (render cr) = line_empty cr.
Proof.
  destruct cr as [c r]. unfold render, line_empty. cbn [fst snd].
  destruct c as [|c]; [rewrite spaces_0; reflexivity|reflexivity].
Qed.

Lemma filter_render rows :
  filter (fun l => negb (is_empty l)) (map render rows) =
  map render (filter (fun cr => negb (line_empty cr)) rows).
Proof.
  induction rows as [|cr rows IH]; [reflexivity|]. cbn [map filter].
  rewrite is_empty_render. destruct (line_empty cr); cbn [negb]; [exact IH|]. cbn [map]. f_equal. exact IH.
Qed.

Lemma startswith_hash_spaces c r :
  startswith "#" (spaces c ++ r) = Nat.eqb c 0 && startswith "#" r.
Proof. destruct c as [|c]; [rewrite spaces_0; reflexivity|reflexivity]. Qed.

Lemma classify_render cr : classify gen_comments (render cr) = row_item cr.
Proof.
  destruct cr as [c r]. unfold render, classify, row_item, dropped. cbn [fst snd].
  rewrite strip_spaces, startswith_hash_spaces, parse_indent_spaces.
  cbn [existsb gen_comments]. change (String.eqb "#" "!") with false. change (String.eqb "#" "#") with true.
  cbn [orb andb]. rewrite orb_false_r.
  destruct (Nat.eqb c 0 && startswith "#" r); [reflexivity|].
  rewrite <- orb_assoc. reflexivity.
Qed.

Lemma none_word_render rows :
  existsb has_none_word (map render rows) = existsb (fun cr : crow => has_none_word (snd cr)) rows.
Proof.
  induction rows as [|cr rows IH]; [reflexivity|]. cbn [map existsb]. rewrite IH.
  unfold render. rewrite none_word_spaces. reflexivity.
Qed.

(* ---------- the run, for every program ---------- *)

Theorem run_items p : run_noacl p = spec_noacl p.
Proof.
  unfold run_noacl, gen_rows, spec_noacl.
  destruct (emit_body_rows p) as [E F]. rewrite E.
  destruct (existsb invalid p); [reflexivity|].
  rewrite none_word_render.
  destruct (existsb (fun cr : crow => has_none_word (snd cr)) (prog_rows p)); [reflexivity|].
  unfold parse_text. rewrite split_lines_text_gen.
  - rewrite filter_render. unfold parse_lines. rewrite map_map.
    rewrite (map_ext _ _ classify_render).
    rewrite (parse_items_ref _ 1 ps_init [] [] Inv_init). reflexivity.
  - apply Forall_forall. intros l Hl. apply in_map_iff in Hl as (cr & <- & Hcr).
    unfold render. rewrite has_nl_spaces. rewrite Forall_forall in F. apply F. exact Hcr.
Qed.

Theorem items_holds p : P_C10_items p (run_noacl p) = true.
Proof.
  unfold P_C10_items. rewrite run_items.
  destruct (spec_noacl p) as [f| | |n r|q|]; cbn; try reflexivity.
  - apply forest_eqb_refl.
  - rewrite Nat.eqb_refl, String.eqb_refl. reflexivity.
  - apply String.eqb_refl.
Qed.

(* the errors a program raises before parsing, as facts about the program *)
Theorem invalid_iff p : run_noacl p = GInvalid <-> existsb invalid p = true.
Proof.
  rewrite run_items. unfold spec_noacl. destruct (existsb invalid p); [split; reflexivity|].
  destruct (existsb _ (prog_rows p)); [split; discriminate|].
  destruct (ref_items _ _ _ _); split; discriminate.
Qed.

Theorem noneword_iff p :
  run_noacl p = GNoneWord <->
  existsb invalid p = false /\ exists cr, In cr (prog_rows p) /\ has_none_word (snd cr) = true.
Proof.
  rewrite run_items. unfold spec_noacl. destruct (existsb invalid p).
  - split; [discriminate|intros [H _]; discriminate].
  - destruct (existsb _ (prog_rows p)) eqn:E.
    + split; [intros _|reflexivity]. split; [reflexivity|]. apply existsb_exists in E. exact E.
    + split.
      * destruct (ref_items _ _ _ _); discriminate.
      * intros [_ (cr & Hin & Hn)]. assert (X : existsb (fun cr : crow => has_none_word (snd cr)) (prog_rows p) = true).
        { apply existsb_exists. exists cr. auto. }
        congruence.
Qed.
