(* C01, layer 9: after the deployment the second diff is empty and the second patch holds no
   command, when no rule of the universe declines changes (default / undo_redo logics). *)
From Coq Require Import List String Bool Arith ZArith Lia Permutation.
From Annet Require Import Base.Str Base.Tree Model.Rulebook Model.Diff Model.Order Model.Patch Model.Blocks
     Model.Device Spec.P_C03 Spec.P_C01
     Proofs.DiffBasics Proofs.DiffProofsLib Proofs.DiffProofsAnnot Proofs.DiffProofsLossless Proofs.DiffProofsSelf
     Proofs.ConvergeDevice Proofs.ConvergePre Proofs.ConvergeDiff Proofs.ConvergeSlot Proofs.ConvergeExpected
     Proofs.ConvergeSim Proofs.ConvergeNodes Proofs.ConvergeMain Proofs.ConvergeExpWf.
Import ListNotations.
Open Scope string_scope.
Open Scope list_scope.

Section Second.
  Variable rmatch : string -> string -> option (list string).
  Variable rreverse : string -> list string -> string.
  Variable is_exit : string -> bool.

  Notation annot_f := (annot_f rmatch).
  Notation annot := (annot rmatch).
  Notation known := (known rmatch).
  Notation expected_t := (expected_t rmatch).
  Notation uok := (uok rmatch rreverse is_exit).
  Notation good := (good rmatch).

  (* ---------- known ---------- *)
  Lemma known_in rs f r tk : In (r, tk) (known rs f) <->
    exists t s crs, In (r, t) f /\ match_row rmatch r rs = Some (s, crs) /\ tk = T (known crs (kids t)).
  Proof.
    unfold P_C01.known. rewrite erase_f_in. split.
    - intros (m & c & Hin & ->). apply annot_in in Hin as (t & crs & Hin & Hm & ->).
      exists t, m, crs. repeat split; auto. rewrite <- erase_annot. apply (eq_sym (tree_eta _)).
    - intros (t & s & crs & Hin & Hm & ->). exists s, (annot crs t). split.
      + apply annot_in. exists t, crs. auto.
      + rewrite <- erase_annot. apply tree_eta.
  Qed.

  Lemma known_sim : forall a b rs, sim a b -> sim (known rs a) (known rs b).
  Proof.
    apply (forest_sub_ind (fun a => forall b rs, sim a b -> sim (known rs a) (known rs b))).
    intros a IH b rs H. apply sim_inv in H as [H1 H2]. constructor.
    - intros r tk Hin. apply known_in in Hin as (t & s & crs & Hin & Hm & ->).
      destruct (H1 r t Hin) as (t' & Hin' & Hs). exists (T (known crs (kids t'))). split.
      + apply known_in. exists t', s, crs. auto.
      + cbn [kids]. apply (IH r t Hin). exact Hs.
    - intros r tk Hin. apply known_in in Hin as (t' & s & crs & Hin' & Hm & ->).
      destruct (H2 r t' Hin') as (t & Hin & Hs). exists (T (known crs (kids t))). split.
      + apply known_in. exists t, s, crs. auto.
      + cbn [kids]. apply (IH r t Hin). exact Hs.
  Qed.

  (* the known part of a known part is itself *)
  Lemma annot_known : forall f rs, annot_f rs (known rs f) = annot_f rs f.
  Proof.
    apply (forest_sub_ind (fun f => forall rs, annot_f rs (known rs f) = annot_f rs f)). intros f IH rs.
    assert (G : forall l, incl l f -> annot_f rs (known rs l) = annot_f rs l).
    { induction l as [|[r t] l IHl]; intro Hi; [reflexivity|].
      unfold P_C01.known. rewrite (annot_f_cons rmatch rs r t l).
      destruct (match_row rmatch r rs) as [[m crs]|] eqn:Em; [|apply IHl; intros x Hx; apply Hi; now right].
      unfold erase_f. cbn [erase kids]. fold (erase_f (annot_f rs l)). rewrite annot_f_cons, Em. f_equal.
      - f_equal. rewrite <- (tree_eta (erase (annot crs t))), erase_annot.
        change (T (erase_f (annot_f crs (kids t)))) with (T (known crs (kids t))).
        rewrite !annot_AT. cbn [kids]. f_equal. apply (IH r t). apply Hi. now left.
      - apply IHl. intros x Hx. apply Hi. now right. }
    apply G. apply incl_refl.
  Qed.

  Lemma known_known rs f : known rs (known rs f) = known rs f.
  Proof. unfold P_C01.known at 1 3. rewrite annot_known. reflexivity. Qed.

  (* ---------- a diff between configurations with the same known rows ---------- *)
  Lemma good_default rs U f : uok rs U -> good rs U f -> all_default (annot_f rs f).
  Proof.
    intros HU Hg k Hk. exact (proj1 (tier_default_in _ k (annot_tier rmatch rreverse is_exit f rs U HU Hg) Hk)).
  Qed.

  Lemma lvl_uniq_akeys rs f : lvl_uniq rmatch rs f -> NoDup (akeys (annot_f rs f)).
  Proof. intro H. rewrite akeys_annot. exact H. Qed.

  Theorem diff_all_unchanged : forall b a rs U, uok rs U -> good rs U a -> good rs U b ->
    sim (known rs a) (known rs b) ->
    forall x, In x (ldiff rmatch rs a b Affected) -> d_op x = Unchanged.
  Proof.
    apply (forest_sub_ind (fun b => forall a rs U, uok rs U -> good rs U a -> good rs U b ->
             sim (known rs a) (known rs b) -> forall x, In x (ldiff rmatch rs a b Affected) -> d_op x = Unchanged)).
    intros b IH a rs U HU Hga Hgb Hsim x Hx.
    destruct (uok_inv rmatch rreverse is_exit rs U HU) as (HUl & HUnd & HUk).
    destruct (good_inv rmatch rs U a Hga) as (Hka & Hua & Hia & Hwa & Hsa).
    destruct (good_inv rmatch rs U b Hgb) as (Hkb & Hub & Hib & Hwb & Hsb).
    apply sim_inv in Hsim as [S1 S2].
    unfold ldiff in Hx. eapply Permutation_in in Hx;
      [|apply lvl_diff_perm; [apply (good_default rs U a HU Hga) | apply (good_default rs U b HU Hgb)]].
    apply in_app_or in Hx as [Hx|Hx].
    - apply in_map_iff in Hx as ([[r m] sub] & <- & Hk).
      apply annot_in in Hk as (t' & crs & Hinb & Hm & ->).
      assert (Hkb' : In (r, T (known crs (kids t'))) (known rs b)) by (apply known_in; exists t', m, crs; auto).
      destruct (S2 r _ Hkb') as (tk & Hka' & Hs). apply known_in in Hka' as (t & m0 & crs0 & Hina & Hm0 & ->).
      rewrite Hm in Hm0. injection Hm0 as <- <-. cbn [kids] in Hs.
      unfold nn, newnode. cbn [arow ami asub fst snd].
      rewrite (alookup_entry rmatch rs a r t m crs Hka Hina Hm). rewrite annot_akids.
      cbn [mark_unchanged_n op_eqb d_op].
      assert (Hall : forallb (fun x0 => op_eqb (d_op x0) Unchanged)
                             (map mark_unchanged_n (diff_t (annot crs t') (annot_f crs (kids t)) Affected false)) = true).
      { apply forallb_forall. intros y Hy. apply op_eqb_eq.
        destruct (in_keys_tfind r U (Hib (r, t') Hinb)) as (tu & Htu).
        destruct (HUk r tu m crs Htu Hm) as (_ & Huc).
        apply (IH r t' Hinb (kids t) crs (kids tu) Huc (Hsa r t tu m crs Hina Htu Hm) (Hsb r t' tu m crs Hinb Htu Hm) Hs).
        unfold ldiff, lvl_diff. rewrite annot_AT, diff_t_unfold in Hy. exact Hy. }
      rewrite Hall. reflexivity.
    - apply in_map_iff in Hx as ([[r m] sub] & <- & Hk). apply filter_In in Hk as [Hk Hn]. exfalso.
      apply annot_in in Hk as (t & crs & Hina & Hm & ->).
      assert (Hka' : In (r, T (known crs (kids t))) (known rs a)) by (apply known_in; exists t, m, crs; auto).
      destruct (S1 r _ Hka') as (tk & Hkb' & _). apply known_in in Hkb' as (t' & m0 & crs0 & Hinb & Hm0 & _).
      unfold notin in Hn. cbn [arow fst] in Hn. apply negb_true_iff in Hn. apply existsb_eqb_false in Hn. apply Hn.
      apply (in_map arow (annot_f rs b) (r, m0, annot crs0 t')). apply annot_in. exists t', crs0. auto.
  Qed.

  (* ---------- no declining logic: expected shows new's known rows ---------- *)
  Inductive sok : rset -> forest -> Prop :=
  | sok_intro rs U :
      (forall r tu s crs, In (r, tu) U -> match_row rmatch r rs = Some (s, crs) ->
                          allow_strict s = true /\ sok crs (kids tu)) -> sok rs U.

  Lemma allow_strict_logic m : allow_strict m = true -> a_logic (mi_attrs m) = LDefault \/ a_logic (mi_attrs m) = LUndoRedo.
  Proof.
    unfold allow_strict. intro H. apply andb_true_iff in H as [_ H]. destruct (a_logic (mi_attrs m)); auto; discriminate.
  Qed.

  Theorem strict_known : forall old rs U new, uok rs U -> sok rs U -> good rs U old -> good rs U new ->
    sim (known rs (expected_t (T old) rs (annot_f rs new))) (known rs new).
  Proof.
    apply (forest_sub_ind (fun old => forall rs U new, uok rs U -> sok rs U -> good rs U old -> good rs U new ->
             sim (known rs (expected_t (T old) rs (annot_f rs new))) (known rs new))).
    intros old IH rs U new HU HS Hgo Hgn.
    destruct (uok_inv rmatch rreverse is_exit rs U HU) as (HUl & HUnd & HUk).
    inversion HS as [rs0 U0 HSk]; subst rs0 U0.
    destruct (good_inv rmatch rs U old Hgo) as (Hko & Huo & Hio & Hwo & Hso).
    destruct (good_inv rmatch rs U new Hgn) as (Hkn & Hun & Hin & Hwn & Hsn).
    set (E := expected_t (T old) rs (annot_f rs new)).
    assert (HuE : lvl_uniq rmatch rs E) by (apply expected_uniq; assumption).
    (* the entry of expected in a slot occupied by (r', t') in new *)
    assert (Hnew : forall s r' t' crs', sfind rmatch rs s new = Some (r', t') -> match_row rmatch r' rs = Some (s, crs') ->
              exists te, sfind rmatch rs s E = Some (r', te) /\ sim (known crs' (kids te)) (known crs' (kids t'))).
    { intros s r' t' crs' En Hm'. unfold E. rewrite expected_sfind by assumption. unfold exp_slot.
      destruct (sfind_in rmatch rs s new _ En) as [Hinn _].
      destruct (in_keys_tfind r' U (Hin (r', t') Hinn)) as (tu' & Htu').
      destruct (HSk r' tu' s crs' Htu' Hm') as (Hal & HSc). destruct (HUk r' tu' s crs' Htu' Hm') as (_ & HUc).
      assert (Hfresh : sim (known crs' (kids (erase (annot crs' t')))) (known crs' (kids t'))).
      { rewrite erase_annot. change (erase_f (annot_f crs' (kids t'))) with (known crs' (kids t')).
        rewrite known_known. apply sim_refl. }
      destruct (sfind rmatch rs s old) as [[r t]|] eqn:Eo.
      - destruct (sfind_match rmatch rs s old r t Eo) as (m & crs & Hm & Hk & Hino).
        assert (Em : m = s).
        { destruct (in_keys_tfind r U (Hio (r, t) Hino)) as (tu & Htu).
          apply (minfo_eq rmatch rreverse is_exit rs U r' s r m HUl (Hin (r', t') Hinn)
                          ltac:(unfold slot_of; rewrite Hm'; reflexivity) (Hio (r, t) Hino)
                          ltac:(unfold slot_of; rewrite Hm; reflexivity) Hk). }
        subst m. unfold exp_entry. rewrite Hm, afind_slot_annot, En, Hm'.
        destruct (String.eqb_spec r r') as [<-|Hne].
        + rewrite Hm in Hm'. injection Hm' as <-. cbn [hd_error]. eexists. split; [reflexivity|]. cbn [kids].
          rewrite annot_akids. rewrite <- (tree_eta t).
          apply (IH r t Hino crs (kids tu') (kids t') HUc HSc (Hso r t tu' s crs Hino Htu' Hm) (Hsn r t' tu' s crs Hinn Htu' Hm)).
        + destruct (allow_strict_logic s Hal) as [HL|HL]; rewrite HL; cbn [hd_error]; eexists; split; try reflexivity; exact Hfresh.
      - rewrite afind_slot_annot, En, Hm'. cbn [option_map new_entry arow asub fst snd].
        eexists. split; [reflexivity | exact Hfresh]. }
    constructor.
    - intros r tk Hin'. apply known_in in Hin' as (te & s & crs & HinE & Hm & ->).
      assert (HsE : sfind rmatch rs s E = Some (r, te)).
      { apply uniq_sfind; [exact HuE | exact HinE | eapply match_ekey; eauto]. }
      unfold E in HsE. rewrite expected_sfind in HsE by assumption. unfold exp_slot in HsE.
      (* the slot must be occupied in new *)
      assert (Hocc : exists r' t', sfind rmatch rs s new = Some (r', t')).
      { destruct (sfind rmatch rs s new) as [[r' t']|] eqn:En; [eauto|]. exfalso.
        destruct (sfind rmatch rs s old) as [[r0 t0]|] eqn:Eo.
        - destruct (sfind_match rmatch rs s old r0 t0 Eo) as (m0 & crs0 & Hm0 & Hk0 & Hino).
          destruct (in_keys_tfind r0 U (Hio (r0, t0) Hino)) as (tu0 & Htu0).
          destruct (HSk r0 tu0 m0 crs0 Htu0 Hm0) as (Hal & _).
          unfold exp_entry in HsE. rewrite Hm0, afind_slot_annot in HsE.
          rewrite (sfind_key rmatch rreverse is_exit rs m0 s new Hk0), En in HsE.
          destruct (allow_strict_logic m0 Hal) as [HL|HL]; rewrite HL in HsE; discriminate.
        - rewrite afind_slot_annot, En in HsE. discriminate. }
      destruct Hocc as (r' & t' & En).
      destruct (sfind_match rmatch rs s new r' t' En) as (m' & crs' & Hm' & Hk' & Hinn).
      assert (Em : m' = s).
      { apply (minfo_eq rmatch rreverse is_exit rs U r s r' m' HUl).
        - assert (HrE : rows_in U E).
          { intros e He. destruct (expected_rows rmatch rs old new e Hun He) as [H|H];
              apply in_map_iff in H as ([r1 t1] & E1 & Hin1); cbn in E1; rewrite <- E1;
              [apply (Hio (r1, t1) Hin1) | apply (Hin (r1, t1) Hin1)]. }
          apply (HrE (r, te) HinE).
        - unfold slot_of. rewrite Hm. reflexivity.
        - apply (Hin (r', t') Hinn).
        - unfold slot_of. rewrite Hm'. reflexivity.
        - exact Hk'. }
      subst m'. destruct (Hnew s r' t' crs' En Hm') as (te' & HsE' & Hs').
      unfold E in HsE'. rewrite expected_sfind in HsE' by assumption. unfold exp_slot in HsE'.
      rewrite HsE in HsE'. injection HsE' as <- <-.
      rewrite Hm in Hm'. injection Hm' as <-.
      exists (T (known crs (kids t'))). split; [apply known_in; exists t', s, crs; auto | exact Hs'].
    - intros r tk Hin'. apply known_in in Hin' as (t' & s & crs & Hinn & Hm & ->).
      assert (En : sfind rmatch rs s new = Some (r, t')).
      { apply uniq_sfind; [exact Hun | exact Hinn | eapply match_ekey; eauto]. }
      destruct (Hnew s r t' crs En Hm) as (te & HsE & Hs).
      exists (T (known crs (kids te))). split; [|exact Hs].
      apply known_in. exists te, s, crs. split; [apply sfind_in in HsE; tauto | auto].
  Qed.

  (* ---------- the second run ---------- *)
  Variable rsrc : string -> string.
  Variable rrev : string -> string.
  Variable block_exit : string.

  Lemma make_diff_ldiff' rs fo fn : make_diff rmatch rs fo fn = ldiff rmatch rs fo fn Affected.
  Proof.
    unfold make_diff, raw_diff, ldiff, lvl_diff. f_equal.
    change (Rulebook.annot rmatch rs (T fn)) with (AT (annot_f rs fn)). apply diff_t_unfold.
  Qed.

  Theorem second_run_empty rs U fo fn dev : uok rs U -> sok rs U -> good rs U fo -> good rs U fn ->
    good rs U dev -> sim dev (expected rmatch rs fo fn) ->
    strip_unchanged (make_diff rmatch rs dev fn) = [] /\
    forall ord, make_patch rmatch rsrc rrev block_exit rreverse (make_pre (make_diff rmatch rs dev fn)) ord = POk (PT []).
  Proof.
    intros HU HS Hgo Hgn Hgd Hsim.
    assert (Hk : sim (known rs dev) (known rs fn)).
    { apply (sim_trans _ (known rs (expected rmatch rs fo fn))).
      - unfold P_C01.known. apply erase_wf. apply (expected_wf rmatch fo rs U fn Hgo Hgn).
      - apply known_sim. exact Hsim.
      - apply (strict_known fo rs U fn HU HS Hgo Hgn). }
    pose proof (diff_all_unchanged fn dev rs U HU Hgd Hgn Hk) as Hall. rewrite <- make_diff_ldiff' in Hall.
    split; [apply strip_all_unchanged; exact Hall | intro ord; apply patch_unchanged; exact Hall].
  Qed.

  (* the computable form of the strictness condition *)
  Lemma univ_ok_sok : forall U rs, univ_ok rmatch rreverse is_exit allow_strict rs U = true -> sok rs U.
  Proof.
    apply (forest_sub_ind (fun U => forall rs, univ_ok rmatch rreverse is_exit allow_strict rs U = true -> sok rs U)).
    intros U IH rs Hok. constructor. intros r tu s crs Hin Hm.
    unfold univ_ok in Hok. cbn [univ_ok_t] in Hok.
    set (lv := map (fun m => (m, reverse_of rreverse m)) (level_slots rmatch rs U)) in Hok.
    revert Hok. generalize lv. clear lv. intro lv.
    assert (G : forall l, In (r, tu) l ->
              (fix go (l : forest) : bool :=
                 match l with
                 | [] => true
                 | (r, c) :: l' =>
                   match match_row rmatch r rs with
                   | Some (s, crs) =>
                     let rv := reverse_of rreverse s in
                     allow_strict s && negb (is_exit r) &&
                     match match_row rmatch rv rs with Some _ => false | None => true end &&
                     negb (is_exit rv) &&
                     forallb (fun p : minfo * string =>
                                (negb (String.eqb (snd p) rv) || same_slot (fst p) s) &&
                                (negb (String.eqb (mi_raw (fst p)) (mi_raw s)) || attrs_eqb (mi_attrs (fst p)) (mi_attrs s))) lv &&
                     univ_ok_t rmatch rreverse is_exit allow_strict crs c && go l'
                   | None => go l'
                   end
                 end) l = true ->
              allow_strict s = true /\ univ_ok_t rmatch rreverse is_exit allow_strict crs tu = true).
    { induction l as [|[r0 c0] l IHl]; intros Hl Hgo; [destruct Hl|].
      destruct Hl as [E|Hl].
      - injection E as -> ->. rewrite Hm in Hgo.
        apply andb_true_iff in Hgo as [Hgo _]. apply andb_true_iff in Hgo as [Hgo Hc].
        apply andb_true_iff in Hgo as [Hgo _]. apply andb_true_iff in Hgo as [Hgo _].
        apply andb_true_iff in Hgo as [Hgo _]. apply andb_true_iff in Hgo as [Hgo _]. auto.
      - destruct (match_row rmatch r0 rs) as [[s0 crs0]|]; [apply andb_true_iff in Hgo as [_ Hgo]|]; auto. }
    intro Hok. destruct (G U Hin Hok) as (Hal & Hc). split; [exact Hal|].
    apply (IH r tu Hin crs). unfold univ_ok. rewrite tree_eta. exact Hc.
  Qed.
End Second.
