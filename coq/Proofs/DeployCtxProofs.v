(* C09: cmd_paths with contexts (Model/Deploy.v: cblocks, fill_ctx, cpath_stack) has exactly the
   keys of the context-free model of Model/Blocks.v on the erased tree. *)
From Coq Require Import List String Ascii Bool Arith ZArith Lia.
From Annet Require Import Base.Str Model.Order Model.Patch Model.Blocks Gen.Src_apply Model.Deploy Spec.P_C09
     Proofs.BlocksProofs.
Import ListNotations.
Open Scope string_scope.
Open Scope list_scope.

Definition citem := (string * ctx * option ctree)%type.

Definition ckidP (P : ctree -> Prop) (it : citem) : Prop :=
  match snd it with Some c => P c | None => True end.

Section CtreeInd.
  Variable P : ctree -> Prop.
  Hypothesis HCT : forall items, Forall (ckidP P) items -> P (CT items).
  Fixpoint ctree_ind2 (t : ctree) : P t :=
    match t with
    | CT items =>
      HCT items
          ((fix go (l : list citem) : Forall (ckidP P) l :=
              match l with
              | [] => Forall_nil _
              | it :: l' =>
                Forall_cons it
                            (match it as i return ckidP P i with
                             | (r, c, Some ct) => ctree_ind2 ct
                             | (r, c, None) => I
                             end) (go l')
              end) items)
    end.
End CtreeInd.

Definition erase_item (it : citem) : item :=
  let '(row, _, child) := it in
  (row, match child with Some ct => Some (erase ct) | None => None end, (ZFin 0%Z, "", true)).

Lemma erase_unfold items : erase (CT items) = PT (map erase_item items).
Proof.
  cbn [erase]. f_equal. induction items as [|[[row c] child] l IH]; [reflexivity|].
  cbn [map erase_item]. rewrite <- IH. reflexivity.
Qed.

Definition cnext_row (l : list citem) : option string :=
  match l with (n, _, _) :: _ => if is_empty n then None else Some n | [] => None end.

Lemma next_row_erase l : next_row (map erase_item l) = cnext_row l.
Proof. destruct l as [|[[n c] ch] l]; reflexivity. Qed.

Fixpoint cblocks_items (f : family) (parent : string) (l : list citem) : list (elem * option ctx) :=
  match l with
  | [] => []
  | (row, c, child) :: l' =>
    (Row row, Some c) ::
    match child with
    | Some ct =>
      (BBegin, None) :: cblocks f row ct ++ (BEnd, None) ::
      map (fun e => (e, None)) (exit_stmt f parent row (cnext_row l'))
    | None => []
    end ++ cblocks_items f parent l'
  end.

Lemma cblocks_unfold f parent items : cblocks f parent (CT items) = cblocks_items f parent items.
Proof.
  cbn [cblocks]. induction items as [|[[row c] child] l IH]; [reflexivity|].
  cbn [cblocks_items]. rewrite <- IH. reflexivity.
Qed.

Lemma cblocks_erase :
  forall t f parent, map fst (cblocks f parent t) = blocks f parent (erase t).
Proof.
  induction t as [items IH] using ctree_ind2. intros f parent.
  rewrite cblocks_unfold, erase_unfold, blocks_unfold.
  induction IH as [|[[row c] child] l Hit Hl IHl]; [reflexivity|].
  cbn [cblocks_items map erase_item blocks_items fst]. f_equal.
  rewrite map_app, IHl. f_equal.
  destruct child as [ct|]; [|reflexivity].
  unfold ckidP in Hit. cbn in Hit. cbn [map fst]. f_equal.
  rewrite map_app, Hit. f_equal. cbn [map fst]. f_equal.
  rewrite map_map. cbn [fst]. rewrite map_id, next_row_erase. reflexivity.
Qed.

Lemma fill_ctx_fst last s : map fst (fill_ctx last s) = map fst s.
Proof.
  revert last. induction s as [|[e oc] s IH]; intro last; [reflexivity|].
  destruct e as [x| |]; [destruct oc as [c|]|..]; cbn [fill_ctx map fst]; rewrite IH; reflexivity.
Qed.

Lemma list_str_eqb_sym a b : list_str_eqb a b = list_str_eqb b a.
Proof.
  destruct (list_str_eqb a b) eqn:E1, (list_str_eqb b a) eqn:E2; try reflexivity.
  - apply list_str_eqb_eq in E1. subst. assert (list_str_eqb b b = true) by (apply list_str_eqb_eq; reflexivity). congruence.
  - apply list_str_eqb_eq in E2. subst. assert (list_str_eqb a a = true) by (apply list_str_eqb_eq; reflexivity). congruence.
Qed.

Lemma assoc_set_keys k v l :
  map fst (assoc_set k v l) =
  if existsb (list_str_eqb k) (map fst l) then map fst l else map fst l ++ [k].
Proof.
  induction l as [|[k' v'] l IH]; [reflexivity|].
  cbn [assoc_set map fst existsb]. rewrite (list_str_eqb_sym k k').
  destruct (list_str_eqb k' k); [reflexivity|].
  cbn [orb map fst]. rewrite IH. destruct (existsb _ _); reflexivity.
Qed.

Lemma cpath_stack_keys s path acc :
  map fst (cpath_stack s path acc) = path_stack (map fst s) path (map fst acc).
Proof.
  revert path acc. induction s as [|[e c] s IH]; intros path acc; [reflexivity|].
  destruct e as [x| |]; cbn [cpath_stack path_stack map fst]; rewrite IH; [|reflexivity|reflexivity].
  rewrite assoc_set_keys. destruct (existsb _ _); reflexivity.
Qed.

(* the keys of cmd_paths-with-contexts are the command paths of the context-free model *)
Theorem ccmd_paths_keys f t :
  map fst (ccmd_paths f t) = path_stack (blocks f "" (erase t)) [] [].
Proof.
  unfold ccmd_paths. rewrite cpath_stack_keys, fill_ctx_fst, cblocks_erase. reflexivity.
Qed.

(* ------------------------------------------------------------------------------------ *)
(* the formatter clauses of P_C09 hold for the model's own outputs                         *)

Lemma lines_eqb_refl l : lines_eqb l l = true.
Proof.
  induction l as [|[n x] l IH]; [reflexivity|]. cbn. rewrite Nat.eqb_refl, String.eqb_refl, IH. reflexivity.
Qed.

Theorem model_shown_is_sent (f : family) (t : ctree) :
  sib_distinct f "" (erase t) = true ->
  lines_eqb (indent_lines (blocks f "" (erase t)) 0) (map (fun pc => lv (fst pc)) (ccmd_paths f t)) = true /\
  lines_eqb (indent_lines (blocks f "" (erase t)) 0) (shown f "" 0 (erase t)) = true.
Proof.
  intro H. split.
  - rewrite <- (map_map fst lv), ccmd_paths_keys, <- (shown_is_sent f (erase t) H). apply lines_eqb_refl.
  - rewrite shown_spec. apply lines_eqb_refl.
Qed.
