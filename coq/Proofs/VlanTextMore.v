(* C11 text level, part 5: corollaries.  Chunks of a collapsed set printed and expanded one by one;
   the device meaning of configuration rows (rows_set) is what annet's own _parse_vlancfg_actions
   reads from them. *)
From Coq Require Import List String Ascii Bool Arith NArith Lia Permutation.
From Coq Require Import MSets.
From Annet Require Import Base.Str Model.Vlan Spec.P_C11 Spec.P_C11Text
     Proofs.VlanProofs Proofs.VlanTextLib Proofs.VlanTextRanges Proofs.VlanTextLines Proofs.VlanTextStruct.
Import ListNotations.
Open Scope string_scope.
Open Scope list_scope.

(* any chunk length: every chunk of the collapsed rows is printed by either syntax as a text that
   lib.huawei_expand_vlandb / lib.cisco_expand_vlandb expand to exactly the chunk's VLANs *)
Theorem expand_print_chunk tiny n s c : In c (chunked (S n) (collapse tiny s)) ->
  (exists sh, hw_expand (join_with " " (map hw_range_str c)) = Some sh /\ NS.Equal sh (set_of_ranges c)) /\
  (exists sc, cisco_expand (join_with "," (map cisco_range_str c)) = Some sc /\ NS.Equal sc (set_of_ranges c)).
Proof.
  intro H. unfold chunked in H. apply chunked_fuel_in in H as (Hne & a & b & E).
  assert (Hok : ranges_ok c).
  { apply (ranges_ok_sub a c b). rewrite <- E. apply collapse_ok. }
  split; [now apply hw_expand_print | now apply cisco_expand_print].
Qed.

(* what annet reads from the rows of a configuration of the domain is the set the theorems call
   S_old / S_new, and the prefix is the rule's *)
Theorem rows_set_is_parsed k ro rn : rows_wf k ro rn = true ->
  forall rows, rows = ro \/ rows = rn ->
  exists p s, parse_actions (if is_hw (rk_logic k) then hw_parse_vlancfg else cisco_parse_vlancfg)
                            rows None NS.empty = Some (p, s) /\
              NS.Equal s (rows_set k rows) /\ (rows <> [] -> p = Some (rk_prefix k)).
Proof.
  intros H rows Hr. destruct (rows_wf_inv k ro rn H) as (o & n & T & Ro & Rn & Eo & En & W).
  assert (Ho : config_ok k o = true).
  { unfold wf_C11 in W. cbn in W. apply andb_true_iff in W as [W _]. now apply andb_true_iff in W as [W _]. }
  assert (Hn : config_ok k n = true).
  { unfold wf_C11 in W. cbn in W. apply andb_true_iff in W as [W _]. now apply andb_true_iff in W as [_ W]. }
  assert (G : forall ls rs, config_ok k ls = true -> read_lines k rs = Some ls -> rs = map (print_line k) ls ->
              exists p s, parse_actions (parse_vlancfg_of k) rs None NS.empty = Some (p, s) /\
                          NS.Equal s (rows_set k rs) /\ (rs <> [] -> p = Some (rk_prefix k))).
  { intros ls rs Hc Hrd Ers. destruct (parse_actions_print0 k T ls (config_ok_lines k ls Hc)) as (s & Es & Hs).
    unfold rows_set. rewrite Hrd. rewrite Ers, Es. eexists. exists s. split; [reflexivity|]. split; [exact Hs|].
    intro Hne. destruct ls; [now exfalso|reflexivity]. }
  destruct Hr as [-> | ->]; [exact (G o ro Ho Ro Eo)|exact (G n rn Hn Rn En)].
Qed.
