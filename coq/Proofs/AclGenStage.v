(* C02, generator stage (annet.gen._old_new_per_device): the reference ACL is the union of the ACLs of the
   generators that run for the device; when none runs it is the empty ACL, and then the pipeline touches nothing. *)
From Coq Require Import List String Ascii Bool Arith ZArith Lia.
From Annet Require Import Base.Str Base.Tree Model.Pattern Model.Rulebook Model.Diff Model.Order
     Model.Patch Model.Blocks Model.Pipeline Model.Acl Model.AclPipeline Model.Device Spec.P_C01 Spec.P_C02
     Spec.P_C02Gen.
Import ListNotations.
Open Scope string_scope.
Open Scope list_scope.

Lemma ref_acl_none_runs : forall ps, (forall p, In p ps -> gp_runs p = false) -> ref_acl ps = [].
Proof.
  induction ps as [|p ps IH]; intros H; [reflexivity|].
  unfold ref_acl. simpl. rewrite (H p (or_introl eq_refl)). simpl.
  apply IH. intros q Hq. apply H. right. exact Hq.
Qed.

Lemma ref_acl_app : forall a b, ref_acl (a ++ b) = ref_acl a ++ ref_acl b.
Proof. intros a b. unfold ref_acl. apply flat_map_app. Qed.

(* a generator that does not run contributes nothing, wherever it stands in the selection *)
Lemma ref_acl_skip : forall a p b, gp_runs p = false -> ref_acl (a ++ p :: b) = ref_acl (a ++ b).
Proof.
  intros a p b H. rewrite !ref_acl_app. f_equal. unfold ref_acl. simpl. rewrite H. reflexivity.
Qed.

Lemma compile_empty : compile_acl [] = Some ([], []).
Proof. reflexivity. Qed.

Section Empty.
  Variable amatch_ : string -> string -> option (list string).
  Variable asrc arev anorm : string -> string.

  Lemma match_empty : forall row excl, match_row_to_acl amatch_ asrc arev anorm row ([], []) excl = MNone.
  Proof. intros row excl. reflexivity. Qed.

  Lemma apply_acl_empty : forall f path excl, apply_acl amatch_ asrc arev anorm ([], []) false excl path f = inl [].
  Proof.
    intros f path excl. unfold apply_acl.
    induction f as [|[row c] f IH]; [reflexivity|].
    cbn [apply_acl_t]. rewrite match_empty. cbn [apply_acl_t] in IH. exact IH.
  Qed.

  Lemma acl_filter_empty : forall f, acl_filter amatch_ asrc arev anorm ([], []) f = [].
  Proof. intros f. unfold acl_filter. rewrite apply_acl_empty. reflexivity. Qed.
End Empty.

Lemma model_out_empty_acl : forall v av rs ordering old new,
  p_acl_diff_and_patch v av ([], []) rs ordering old new =
  p_acl_diff_and_patch v av ([], []) rs ordering [] [].
Proof.
  intros. unfold p_acl_diff_and_patch, acl_diff_and_patch. rewrite !acl_filter_empty. reflexivity.
Qed.

Lemma model_out_empty_acl_nil : forall v av rs ordering old new,
  model_out (C02In v av ([], []) rs old new) ordering = C02Out [] (Some []).
Proof.
  intros. unfold model_out. cbn [i_vendor i_av i_ars i_rules i_old i_new].
  rewrite model_out_empty_acl.
  unfold p_acl_diff_and_patch, acl_diff_and_patch. rewrite !acl_filter_empty.
  cbn. destruct (v_family v) as [| ex | | | | sp [|] |]; reflexivity.
Qed.

(* the device is not touched by an empty command stream *)
Lemma after_nil : forall x, after x [] = i_old x.
Proof. intros x. reflexivity. Qed.

(* no selected generator runs for the device: the reference ACL is empty, the model pipeline produces an empty diff
   and no command at all, and the device keeps its configuration - whatever the device holds, whatever the
   generators would have produced, for every rulebook, ordering and vendor *)
Theorem no_running_generator_nothing_touched : forall v av rs ordering ps old new,
  (forall p, In p ps -> gp_runs p = false) ->
  ref_acl ps = [] /\
  model_out (gen_in v av rs ps old new) ordering = C02Out [] (Some []) /\
  (forall y, model_out (gen_in v av rs ps old new) ordering = y ->
     match o_cmds y with Some cs => after (gen_in v av rs ps old new) cs = old | None => False end).
Proof.
  intros v av rs ordering ps old new H.
  pose proof (ref_acl_none_runs ps H) as E.
  assert (M : model_out (gen_in v av rs ps old new) ordering = C02Out [] (Some [])).
  { unfold gen_in, ref_ars. rewrite E. rewrite compile_empty. apply model_out_empty_acl_nil. }
  split; [exact E|]. split; [exact M|].
  intros y Hy. rewrite M in Hy. subst y. reflexivity.
Qed.

(* a skipped generator does not change the reference ACL, wherever it stands in the selection: the model pipeline
   gives the same result with and without it *)
Theorem skipped_generator_is_irrelevant : forall v av rs ordering a p b old new,
  gp_runs p = false ->
  model_out (gen_in v av rs (a ++ p :: b) old new) ordering = model_out (gen_in v av rs (a ++ b) old new) ordering.
Proof.
  intros. unfold gen_in, ref_ars. rewrite ref_acl_skip by assumption. reflexivity.
Qed.

(* non-vacuity: a selection of two generators none of which runs, over a non-empty device *)
Example no_running_generator_example :
  let ps := [GPart [AItem "sysname" "sysname" false false None 0 ["g1"] []] false;
             GPart [AItem "ntp-service" "ntp-service" false false None 0 ["g2"] []] false] in
  (forall p, In p ps -> gp_runs p = false) /\ ps <> [] /\
  ref_acl [GPart [AItem "sysname" "sysname" false false None 0 ["g1"] []] true] <> [].
Proof.
  split; [|split; discriminate].
  intros p [E|[E|[]]]; subst p; reflexivity.
Qed.
